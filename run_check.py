#!/usr/bin/env python3
"""Entry point: run_check.py <property> [--tier quick|thorough] [--replay path]

Re-creates the overlay interpreter (/verif/.venv = /venv + wheelhouse solvers) if missing and
re-executes the harness inside it with /repo first on sys.path, so the *working tree* is analysed."""
import os
import subprocess
import sys

VERIF = os.path.dirname(os.path.abspath(__file__))
VENV = os.path.join(VERIF, ".venv")
PY = os.path.join(VENV, "bin", "python")
REPO = os.environ.get("CIJ_REPO", "/repo")


def ensure_env():
    if os.path.exists(PY):
        r = subprocess.run([PY, "-c", "import z3, crosshair, numpy, sympy"], capture_output=True)
        if r.returncode == 0:
            return
    subprocess.check_call(["/bin/sh", os.path.join(VERIF, "setup.sh")])


def main():
    args = sys.argv[1:]
    if not args:
        print(__doc__)
        return 3
    prop = args[0]
    tier = os.environ.get("VERIF_TIER", "quick")
    replay = None
    i = 1
    while i < len(args):
        if args[i] == "--tier":
            tier = args[i + 1]; i += 2
        elif args[i] == "--replay":
            replay = args[i + 1]; i += 2
        else:
            i += 1
    ensure_env()
    env = dict(os.environ)
    env["VERIF_TIER"] = tier
    env["PYTHONPATH"] = os.pathsep.join([REPO, VERIF] + ([env["PYTHONPATH"]] if env.get("PYTHONPATH") else []))
    env["PYTHONWARNINGS"] = "ignore"
    env["PYTHONDONTWRITEBYTECODE"] = "1"
    env.setdefault("PYTHONHASHSEED", "0")
    env["MINERALSCLOUD_CIJ_VERIF"] = "1"
    mod = "harness.%s" % prop.lower()
    cmd = [PY, "-m", mod, tier]
    if replay:
        cmd = [PY, "-m", "harness.replay", prop, replay]
    return subprocess.call(cmd, cwd=VERIF, env=env)


if __name__ == "__main__":
    sys.exit(main())
