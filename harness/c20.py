"""C20 -- eigenvector tools: sorting recovers the permutation; conversion restores a basis (small dimensions; loader outside)."""
from __future__ import annotations

import itertools
import os
import random
import sys
import time
from fractions import Fraction

import numpy

from harness.common import Check, run_main, seed
from symnum import sym as S, solver as Z, executor as X
from symnum.sym import Sym, SymError, new_context, symvars, symarray
from symnum.npproxy import NumpyProxy, patched


class CSym:
    """Complex number as a pair of Syms (enough for conj / * / + / division by a real / sqrt of a real)."""
    __slots__ = ("re", "im")

    def __init__(self, re, im=0):
        self.re, self.im = Sym.of(re), Sym.of(im)

    @staticmethod
    def of(x):
        if isinstance(x, CSym):
            return x
        if isinstance(x, complex):
            return CSym(Fraction(x.real), Fraction(x.imag))
        return CSym(x, 0)

    def conjugate(self):
        return CSym(self.re, -self.im)

    conj = conjugate

    def __add__(self, o):
        o = CSym.of(o)
        return CSym(self.re + o.re, self.im + o.im)

    __radd__ = __add__

    def __sub__(self, o):
        o = CSym.of(o)
        return CSym(self.re - o.re, self.im - o.im)

    def __mul__(self, o):
        if isinstance(o, numpy.ndarray):
            return NotImplemented
        o = CSym.of(o)
        return CSym(self.re * o.re - self.im * o.im, self.re * o.im + self.im * o.re)

    __rmul__ = __mul__

    def __truediv__(self, o):
        if isinstance(o, numpy.ndarray):
            return NotImplemented
        o = CSym.of(o)
        if not o.im.is_zero():
            raise SymError("division by a non-real complex value")
        return CSym(self.re / o.re, self.im / o.re)

    def sqrt(self):
        if not self.im.is_zero():
            raise SymError("sqrt of a non-real complex value")
        return CSym(self.re.sqrt(), 0)

    def __neg__(self):
        return CSym(-self.re, -self.im)

    def __rsub__(self, o):
        return CSym.of(o) - self

    def __abs__(self):
        """|z| as a real symbol: the square-root atom of re^2 + im^2 (s >= 0, s^2 = re^2 + im^2), so that comparisons of moduli are
        decided by the solver."""
        if self.im.is_zero() and self.re.is_const():
            return Sym.of(abs(self.re.const_value()))
        return (self.re * self.re + self.im * self.im).sqrt()

    def __repr__(self):
        return "CSym(%s, %s)" % (self.re.short(3), self.im.short(3))


def rational_bases(n):
    if n == 2:
        return [[[Fraction(3, 5), Fraction(4, 5)], [Fraction(-4, 5), Fraction(3, 5)]], [[1, 0], [0, 1]]]
    if n == 3:
        t = Fraction(1, 3)
        return [[[t, 2 * t, 2 * t], [2 * t, t, -2 * t], [2 * t, -2 * t, t]]]
    raise ValueError(n)


# -----------------------------------------------------------------------------------------------------------------
def disp2eig_obligations(chk, d2e, tier, rng):
    shapes = [(2, 1), (1, 2)] if tier == "quick" else [(1, 1), (2, 1), (1, 2), (2, 2)]
    for M, N in shapes:
        name = "disp2eig[M=%d,N=%d]" % (M, N)
        ctx = new_context()
        a = symvars("a", (M, 3 * N))
        mass = [ctx.var("m%d" % i, positive=True) for i in range(N)]
        for r in range(M):
            ctx.assume(">", sum((a[r, j] * a[r, j] for j in range(3 * N)), Sym({})))    # non-zero displacement rows

        def fn():
            return d2e.evec_disp2eig(a.copy(), list(mass))
        t0 = time.time()
        # every guard the code evaluates on the data is explored on both sides (a data-dependent special case is part of the behaviour)
        ex = X.Explorer(max_paths=32, name=name)
        try:
            paths = ex.run(fn)
        except (SymError, X.PathBudgetExceeded) as e:
            chk.inconclusive(name, str(e))
            continue
        ok = True
        bad_env = None
        for p in paths:
            pc = p.path_condition()
            if p.exception is not None:
                ok = False
                v0, env0 = Z.satisfiable([], name=name + ":raising-path", conds=pc)
                bad_env = bad_env or env0 or {}
                continue
            out = p.result
            for r in range(M):
                nrm = sum((Sym.of(out[r, j]) * Sym.of(out[r, j]) for j in range(3 * N)), Sym({}))
                v, env = Z.prove_zero(nrm - 1, name=name + ":unit-norm", timeout_ms=30000, conds=pc)
                if v != "unsat":
                    ok = False
                    bad_env = bad_env or env
                # direction: out[r, j] is a positive multiple of a[r, j] * sqrt(m_j): out_rj * (a_rk sqrt m_k) == out_rk * (a_rj sqrt m_j)
                for j in range(3 * N):
                    for k in range(j + 1, 3 * N):
                        lhs = Sym.of(out[r, j]) * a[r, k] * mass[k // 3].sqrt()
                        rhs = Sym.of(out[r, k]) * a[r, j] * mass[j // 3].sqrt()
                        v2, env2 = Z.prove_zero(lhs - rhs, name=name + ":direction", timeout_ms=20000, conds=pc)
                        if v2 != "unsat":
                            ok = False
                            bad_env = bad_env or env2
        chk.obligation(name + ": every output row has unit norm and is parallel to M^(1/2) times the displacement row (all %d paths)" % len(paths),
                       "unsat" if ok else "sat", seconds=round(time.time() - t0, 2), kind="identity", detail=dict(paths=len(paths)))
        if not ok:
            replay_d2e(chk, d2e, M, N, rng, "unit norm / direction", env=bad_env)
    # displacement rows built from an orthonormal set: output rows are orthonormal again, equal to e_i up to the sign of c_i
    name = "disp2eig[restores an orthonormal pair, N=1]"
    ctx = new_context()
    e = symvars("e", (2, 3), lo=-2, hi=2)
    c = [ctx.var("c%d" % i, positive=True) for i in range(2)]
    m0 = ctx.var("m0", positive=True)
    ctx.assume("==", sum((e[0, j] * e[0, j] for j in range(3)), Sym({})) - 1)
    ctx.assume("==", sum((e[1, j] * e[1, j] for j in range(3)), Sym({})) - 1)
    ctx.assume("==", sum((e[0, j] * e[1, j] for j in range(3)), Sym({})))
    sq = m0.sqrt()
    disp = numpy.empty((2, 3), dtype=object)
    for i in range(2):
        for j in range(3):
            disp[i, j] = (c[i] if i == 0 else -c[i]) * e[i, j] / sq
    t0 = time.time()
    try:
        out = X.run_single_path(lambda: d2e.evec_disp2eig(disp, [m0]), name=name)
        ok = True
        verdicts = []
        for i in range(2):
            sign = 1 if i == 0 else -1
            for j in range(3):
                v, _ = Z.prove_zero(Sym.of(out[i, j]) - e[i, j] * sign, name=name + ":equals-e", timeout_ms=60000)
                verdicts.append(v)
        dot = sum((Sym.of(out[0, j]) * Sym.of(out[1, j]) for j in range(3)), Sym({}))
        v, _ = Z.prove_zero(dot, name=name + ":orthogonal", timeout_ms=60000)
        verdicts.append(v)
        if all(x == "unsat" for x in verdicts):
            chk.obligation(name, "unsat", seconds=round(time.time() - t0, 2), kind="identity(nlsat)")
        elif any(x == "sat" for x in verdicts):
            chk.obligation(name, "sat", seconds=round(time.time() - t0, 2), kind="identity(nlsat)")
            replay_d2e(chk, d2e, 2, 1, rng, "orthonormality not restored")
        else:
            chk.out_of_claim("disp2eig restores orthonormality from scaled mass-weighted rows: nlsat did not finish (not decided, not claimed)")
            chk.note("%s: verdicts %s" % (name, verdicts))
        w = Z.witness([("!=", e[0, 0]), ("!=", e[1, 1])], name=name + ":witness", rng=rng)
        chk.witness(name + ":orthonormal-pair-exists", w[0])
    except Exception as ex_:
        chk.inconclusive(name, "%s: %s" % (type(ex_).__name__, ex_))
    # complex rows: the norm divided by is the Hermitian norm
    name = "disp2eig[complex row, N=1]"
    ctx = new_context()
    re = symvars("re", (1, 3))
    im = symvars("im", (1, 3))
    m0 = ctx.var("m0", positive=True)
    ctx.assume(">", sum((re[0, j] * re[0, j] + im[0, j] * im[0, j] for j in range(3)), Sym({})))
    ca = numpy.empty((1, 3), dtype=object)
    for j in range(3):
        ca[0, j] = CSym(re[0, j], im[0, j])
    try:
        # dtype predicates of the analysed code must see the modelled rows as what they stand for (complex data)
        cproxy = NumpyProxy()
        cproxy.extra["iscomplexobj"] = lambda x: bool(numpy.iscomplexobj(x)) or any(isinstance(e, CSym) for e in numpy.asarray(x, dtype=object).ravel().tolist())
        cproxy.extra["isrealobj"] = lambda x: not cproxy.extra["iscomplexobj"](x)

        def run_complex():
            with patched((d2e, {"numpy": cproxy})):
                return d2e.evec_disp2eig(ca, [CSym(m0)])
        out = X.run_single_path(run_complex, name=name)
        herm = sum((CSym.of(out[0, j]).re * CSym.of(out[0, j]).re + CSym.of(out[0, j]).im * CSym.of(out[0, j]).im for j in range(3)), Sym({}))
        v, _ = Z.prove_zero(herm - 1, name=name, timeout_ms=30000)
        chk.obligation(name + ": Hermitian norm of the output row is 1", v, kind="identity")
        if v == "sat":
            a = numpy.array([[1 + 2j, 0.5 - 1j, 3j]])
            o = d2e.evec_disp2eig(a, [2.0])
            if abs(numpy.vdot(o[0], o[0]) - 1) > 1e-12:
                chk.violation("disp2eig:complex-norm", "complex displacement rows are not normalised with the Hermitian norm", {})
            else:
                chk.harness_error("complex norm counterexample did not reproduce")
        elif v != "unsat":
            chk.inconclusive(name, v)
    except Exception as ex_:
        # the complex-pair model could not follow the code (e.g. sqrt of a non-real norm): check the real code concretely
        a = numpy.array([[1 + 2j, 0.5 - 1j, 3j]])
        try:
            o = d2e.evec_disp2eig(a, [2.0])
            bad = abs(numpy.vdot(o[0], o[0]) - 1) > 1e-12
        except Exception:
            bad = True
        chk.obligation(name + ": Hermitian norm of the output row is 1", "sat" if bad else "unknown", kind="identity",
                       detail="complex-pair model stopped: %s: %s" % (type(ex_).__name__, ex_))
        if bad:
            chk.violation("disp2eig:complex-norm", "complex displacement rows are not normalised with the Hermitian norm", {})
        else:
            chk.inconclusive(name, "complex-pair model not executable (%s)" % ex_)
    # dtype twin: integer-valued displacement vectors (array or nested list) are displacement vectors of arbitrary norm like any other
    ints = [[1, 0, 0, -1, 0, 0], [2, 0, 0, 3, 0, 0]]
    masses = [24.305, 15.999]
    try:
        ref = d2e.evec_disp2eig(numpy.array(ints, dtype=float), masses)
        for label, arg in (("integer array", numpy.array(ints)), ("nested list of ints", ints)):
            try:
                got = d2e.evec_disp2eig(arg, masses)
                if numpy.abs(numpy.asarray(got, dtype=float) - ref).max() > 1e-12:
                    chk.violation("disp2eig:int-dtype", "evec_disp2eig gives another result for an %s than for the same vectors as floats" % label, dict(a=ints, mass=masses))
                    break
            except Exception as e:
                chk.violation("disp2eig:int-dtype", "evec_disp2eig raises %s: %s for integer-valued displacement vectors given as an %s (the same vectors as floats work)"
                              % (type(e).__name__, str(e)[:100], label), dict(a=ints, mass=masses))
                break
        else:
            chk.side_check("dtype twin: integer-valued displacement vectors == the same as floats", True)
    except Exception as e:
        chk.note("dtype twin not executed: %s" % e)
    # dimension mismatches: the second dimension must be 3 x (number of masses) -- also when the element count happens to be divisible by it
    accepted = []
    for shape, nm in (((2, 5), 2), ((3, 6), 3), ((6, 6), 3), ((4, 3), 2), ((2, 12), 2), ((1, 3), 2), ((9, 4), 3)):
        try:
            d2e.evec_disp2eig(numpy.arange(1.0, 1.0 + shape[0] * shape[1]).reshape(shape), [1.0 + i for i in range(nm)])
            accepted.append((shape, nm))
        except Exception:
            pass
    chk.obligation("disp2eig: a matrix whose second dimension is not 3 x (number of masses) is rejected [7 shapes, including element counts "
                   "divisible by 3N]", "unsat" if not accepted else "sat", kind="raises", logic="concrete")
    if accepted:
        chk.violation("disp2eig:accepts-mismatch", "evec_disp2eig accepts a %s matrix with %d masses" % accepted[0], dict(accepted=[list(map(str, a)) for a in accepted]))


def replay_d2e(chk, d2e, M, N, rng, what, env=None):
    for t in range(5):
        a = numpy.array([[rng.uniform(-2, 2) for _ in range(3 * N)] for _ in range(M)])
        m = [rng.uniform(0.5, 60) for _ in range(N)]
        if t == 0:
            if not env:
                continue
            # the solver's own counterexample first
            a = numpy.array([[float(env.get("a_%d_%d" % (r, j), a[r, j])) for j in range(3 * N)] for r in range(M)])
            m = [float(env.get("m%d" % i, m[i])) for i in range(N)]
            if not numpy.all(numpy.isfinite(a)) or not all(x > 0 for x in m) or not numpy.all(numpy.abs(a).sum(axis=1) > 0):
                continue
        try:
            o = d2e.evec_disp2eig(a, m)
        except Exception as e:
            chk.violation("disp2eig:raises", "evec_disp2eig raises %s: %s" % (type(e).__name__, e), dict(a=a.tolist(), mass=m))
            return
        w = a * numpy.sqrt(numpy.repeat(m, 3))[None, :]
        w = w / numpy.linalg.norm(w, axis=1)[:, None]
        if numpy.abs(o - w).max() > 1e-9:
            chk.violation("disp2eig:wrong", "evec_disp2eig does not return the normalised mass-weighted rows", dict(a=a.tolist(), mass=m, got=o.tolist()))
            return
    chk.harness_error("C20 disp2eig: '%s' did not reproduce" % what)


# -----------------------------------------------------------------------------------------------------------------
def sort_obligations(chk, es, tier, rng):
    dims = [2, 3]
    for n in dims:
        for bi, base in enumerate(rational_bases(n)):
            perms = list(itertools.permutations(range(n)))
            signsets = list(itertools.product((1, -1), repeat=n))
            combos = [(p, s_) for p in perms for s_ in signsets]
            if tier == "quick":
                if n == 2:
                    combos = rng.sample(combos, 3)
                else:
                    cyc = [c for c in combos if c[0] in ((1, 2, 0), (2, 0, 1))]      # 3-cycles: not involutions
                    combos = rng.sample(cyc, 1)
            elif n == 3:
                cyc = [c for c in combos if c[0] in ((1, 2, 0), (2, 0, 1))]
                combos = rng.sample(cyc, 4) + rng.sample(combos, 4)
            for perm, signs in combos:
                name = "evec_sort[n=%d, base %d, perm %s, phases %s, |perturbation| <= 0.05]" % (n, bi, perm, signs)
                ctx = new_context()
                D = symvars("dlt", (n, n), lo=Fraction(-1, 20), hi=Fraction(1, 20))
                items = ["item%d" % j for j in range(n)]
                target = [[Sym.of(base[perm[j]][k]) * signs[j] + D[j, k] for k in range(n)] for j in range(n)]
                basel = [[Sym.of(x) for x in row] for row in base]

                def fn():
                    return es.evec_sort(list(items), [list(r) for r in target], [list(r) for r in basel])
                ex = X.Explorer(max_paths=400 if n == 2 else 3000, name=name, decision_timeout_ms=4000)
                t0 = time.time()
                try:
                    paths = ex.run(fn)
                except X.PathBudgetExceeded as e:
                    chk.out_of_claim("evec_sort n=%d: path budget exceeded (%s) -- not decided" % (n, e))
                    continue
                except SymError as e:
                    chk.inconclusive(name, str(e))
                    continue
                want = [None] * n
                for j in range(n):
                    want[perm[j]] = items[j]
                bad = [p for p in paths if p.exception is not None or p.result != want]
                chk.obligation(name, "unsat" if not bad else "sat", seconds=round(time.time() - t0, 2), kind="all-paths",
                               logic="QF_LRA", detail=dict(paths=len(paths)))
                if bad:
                    p = bad[0]
                    enc = Z.Encoder()
                    cons = [X._cond_z3(c, enc) for c in p.path_condition()] + enc.assumptions() + enc.side_conditions()
                    for x in D.ravel():
                        enc.term(x)
                    cons += enc.side_conditions()
                    v, env = Z.check(cons, name=name + ":model", enc=enc)
                    dl = numpy.array([[env.get("dlt_%d_%d" % (j, k), 0.0) if env else 0.0 for k in range(n)] for j in range(n)])
                    replay_sort(chk, es, base, perm, signs, dl, want, "path result %s / %s" % (p.result, p.exception))
            chk.witness("evec_sort[n=%d, base %d]: explored" % (n, bi), "sat")
    # dimension mismatches
    for args, label in (((["a", "b"], [[1, 0], [0, 1]], [[1, 0, 0], [0, 1, 0]]), "base vectors of another length"),
                        ((["a", "b", "c"], [[1, 0], [0, 1]], [[1, 0], [0, 1]]), "more items than vectors")):
        try:
            es.evec_sort(*args)
            raised = False
        except RuntimeError:
            raised = True
        except Exception:
            raised = False
        chk.obligation("evec_sort: %s raises RuntimeError" % label, "unsat" if raised else "sat", kind="raises", logic="concrete")
        if not raised:
            chk.violation("evec_sort:accepts-mismatch", "evec_sort accepts %s" % label, {})
    # container twin: the two bases may arrive as lists, tuples (zip(*pairs), as the package's own test builds them) or arrays
    b2 = [[0.6, 0.8], [-0.8, 0.6]]
    t2 = [[-0.8, 0.6], [0.6, 0.8]]
    bad_c = None
    for tn, tc in (("list", list), ("tuple", tuple), ("array", numpy.array)):
        for bn, bc in (("list", list), ("tuple", tuple), ("array", numpy.array)):
            try:
                got = es.evec_sort(["x", "y"], tc([tc(r) if tc is not numpy.array else r for r in t2]) if tc is not numpy.array else numpy.array(t2),
                                   bc([bc(r) if bc is not numpy.array else r for r in b2]) if bc is not numpy.array else numpy.array(b2))
                if list(got) != ["y", "x"]:
                    bad_c = bad_c or "target as %s, base as %s: returns %s" % (tn, bn, got)
            except Exception as e:
                bad_c = bad_c or "target as %s, base as %s: raises %s: %s" % (tn, bn, type(e).__name__, e)
    if bad_c:
        chk.violation("evec_sort:container-types", "evec_sort on correctly sized bases given as different container types: %s" % bad_c, {})
    else:
        chk.side_check("container twin: evec_sort accepts lists / tuples / arrays in any combination (9 runs)", True)
    chk.sample(dict(n=2, base=[[0.6, 0.8], [-0.8, 0.6]], target="signed permutation of the base + symbolic perturbation in [-0.05, 0.05]^(n x n)"))


def complex_bases(n):
    """Rational complex unitary matrices (rows = orthonormal vectors under the Hermitian product)."""
    F = Fraction
    if n == 2:
        return [[[(F(3, 5), 0), (0, F(4, 5))], [(0, F(4, 5)), (F(3, 5), 0)]]]
    if n == 3:
        return [[[(F(3, 5), 0), (0, F(4, 5)), (0, 0)], [(0, F(4, 5)), (F(3, 5), 0), (0, 0)], [(0, 0), (0, 0), (0, 1)]]]
    raise ValueError(n)


def sort_obligations_complex(chk, es, tier, rng):
    """evec_sort on complex unitary bases: target = permuted base vectors times phases in {1, i, -1, -i} plus a complex perturbation with
    |re|, |im| <= 1/30 (|delta| < 0.05); the moduli |<base_i, target_j>| are square-root atoms and every argmax comparison is decided by z3."""
    phases = [(1, 0), (0, 1), (-1, 0), (0, -1)]
    for n in ([2] if tier == "quick" else [2, 3]):
        for bi, base in enumerate(complex_bases(n)):
            combos = [(p, ph) for p in itertools.permutations(range(n)) for ph in itertools.product(range(4), repeat=n)]
            combos = rng.sample(combos, 2 if tier == "quick" else (6 if n == 2 else 3))
            if tier == "quick":
                combos[0] = (tuple(range(n)), tuple([0] * n))        # the base sorted against itself (plus perturbation)
            for perm, ph in combos:
                name = "evec_sort[complex unitary base, n=%d, perm %s, phases i^%s, |perturbation| < 0.05]" % (n, perm, ph)
                ctx = new_context()
                Dr = symvars("dre", (n, n), lo=Fraction(-1, 30), hi=Fraction(1, 30))
                Di = symvars("dim", (n, n), lo=Fraction(-1, 30), hi=Fraction(1, 30))
                items = ["item%d" % j for j in range(n)]
                basel = [[CSym(Fraction(a), Fraction(b)) for a, b in row] for row in base]
                target = []
                for j in range(n):
                    row = []
                    for k in range(n):
                        z = basel[perm[j]][k] * CSym(Fraction(phases[ph[j]][0]), Fraction(phases[ph[j]][1]))
                        row.append(z + CSym(Dr[j, k], Di[j, k]))
                    target.append(row)

                def fn():
                    return es.evec_sort(list(items), [list(r) for r in target], [list(r) for r in basel])
                ex = X.Explorer(max_paths=600, name=name, decision_timeout_ms=8000)
                t0 = time.time()
                try:
                    paths = ex.run(fn)
                except X.PathBudgetExceeded as e:
                    chk.out_of_claim("evec_sort complex n=%d: path budget exceeded (%s) -- not decided" % (n, e))
                    continue
                except SymError as e:
                    chk.inconclusive(name, str(e))
                    continue
                want = [None] * n
                for j in range(n):
                    want[perm[j]] = items[j]
                bad = [p for p in paths if p.exception is not None or p.result != want]
                unk = any(p.feasibility_unknown for p in paths)
                chk.obligation(name, "unsat" if not bad else "sat", seconds=round(time.time() - t0, 2), kind="all-paths", logic="QF_NRA",
                               detail=dict(paths=len(paths), feasibility_unknown=unk))
                if bad:
                    p = bad[0]
                    v, env = Z.satisfiable([], name=name + ":model", conds=p.path_condition())
                    env = env or {}
                    b = numpy.array([[complex(float(a), float(bb)) for a, bb in row] for row in base])
                    t = numpy.array([[b[perm[j]][k] * complex(*phases[ph[j]]) + complex(env.get("dre_%d_%d" % (j, k), 0.0), env.get("dim_%d_%d" % (j, k), 0.0))
                                      for k in range(n)] for j in range(n)])
                    try:
                        got = es.evec_sort(list(items), t.tolist(), b.tolist())
                    except Exception as e:
                        chk.violation("evec_sort:complex:raises", "evec_sort raises %s: %s on a complex unitary base" % (type(e).__name__, e), dict(base=str(b.tolist())))
                        continue
                    if got != want:
                        chk.violation("evec_sort:complex:wrong-order", "evec_sort on a complex unitary base returns %s instead of %s (target = phased permutation "
                                      "%s of the base + perturbation)" % (got, want, perm), dict(base=str(b.tolist()), target=str(t.tolist())))
                    else:
                        chk.harness_error("C20 evec_sort complex: path result %s / %s did not reproduce" % (p.result, p.exception))


def replay_sort(chk, es, base, perm, signs, dl, want, what):
    n = len(base)
    b = numpy.array([[float(x) for x in r] for r in base])
    t = numpy.array([[b[perm[j]][k] * signs[j] + dl[j, k] for k in range(n)] for j in range(n)])
    items = ["item%d" % j for j in range(n)]
    try:
        got = es.evec_sort(list(items), t.tolist(), b.tolist())
    except Exception as e:
        chk.violation("evec_sort:raises", "evec_sort raises %s: %s on a perturbed signed permutation of the base" % (type(e).__name__, e),
                      dict(base=b.tolist(), target=t.tolist()))
        return
    if got != want:
        chk.violation("evec_sort:wrong-order", "evec_sort returns %s instead of %s" % (got, want), dict(base=b.tolist(), target=t.tolist()))
    else:
        chk.harness_error("C20 evec_sort: '%s' did not reproduce" % what)


# -----------------------------------------------------------------------------------------------------------------
def matdyn_text(nq, np_, field, qval, fval):
    """An eigenvector file in matdyn's layout: per q-point the banner, a blank line, ' q = ' + 3f12.4, a line of stars, per mode
    '     freq (%5d) = %14.6f [THz] = %14.6f [cm-1]' followed by one line per atom written with (1x,'(',3(f10.6,1x,f10.6,3x),')'),
    then a line of stars.  `field(k, l, a, x, part)` supplies the text of one f10.6 field (at most 9 characters: components of
    normalised vectors are below 10 in magnitude, so the leading column of the field is blank)."""
    stars = " " + "*" * 74
    out = []
    for k in range(nq):
        out += ["     diagonalizing the dynamical matrix ...", "", " q = " + "".join("%12.4f" % c for c in qval(k)), stars]
        for l in range(np_):
            thz, cm = fval(k, l)
            out.append("     freq (%5d) = %14.6f [THz] = %14.6f [cm-1]" % (l + 1, thz, cm))
            for a in range(np_ // 3):
                out.append(" (" + "".join("%10s %10s   " % (field(k, l, a, x, "re"), field(k, l, a, x, "im")) for x in range(3)) + ")")
        out.append(stars)
    return "\n".join(out) + "\n"


def load_obligations(chk, tier, rng):
    """evec_load on token files: q coordinates, mode index and the two frequencies are concrete and pairwise distinct (the reader
    parses them with digit regexes), the 2 x 3N vector components of every (q, mode) are opaque tokens -> symbols."""
    import importlib
    import tempfile
    import builtins
    el = importlib.import_module("cij.misc.evec_load")
    chk.encode(el.evec_load, el._read_q_points, el._read_modes, el._read_vecs)
    shapes = [(1, 3), (2, 6)] if tier == "quick" else [(1, 3), (2, 6), (3, 6), (2, 9), (6, 3)]
    for nq, np_ in shapes:
        name = "evec_load[nq=%d, modes=%d]" % (nq, np_)
        ctx = new_context()
        toks = {}

        def field(k, l, a, x, part):
            t = "T%d%d%d%d%s000" % (k, l, a, x, "r" if part == "re" else "i")
            t = t[:9]
            toks[t] = ctx.var("v_%d_%d_%d_%d_%s" % (k, l, a, x, part))
            return t

        def tfloat(sv):
            if isinstance(sv, str) and sv.strip() in toks:
                return CSym(toks[sv.strip()], 0)
            return builtins.float(sv)
        qval = lambda k: (0.125 * k, -0.25 * k, 0.5 + k)
        fval = lambda k, l: (1.5 * l - 0.25 + 10 * k, 50.0 * l - 8.0 + 333 * k)
        text = matdyn_text(nq, np_, field, qval, fval)
        with tempfile.NamedTemporaryFile("w", suffix=".eig", delete=False) as fp:
            fp.write(text)
            fn = fp.name
        t0 = time.time()
        fails = []
        try:
            from symnum.npproxy import patched
            with patched((el, {"float": tfloat})):
                data = X.run_single_path(lambda: el.evec_load(fn, nq, np_), name=name)
        except Exception as e:
            fails.append("raises %s: %s" % (type(e).__name__, e))
            data = None
        finally:
            os.unlink(fn)
        if data is not None:
            if len(data) != nq:
                fails.append("%d q-points returned" % len(data))
            for k, item in enumerate(data[:nq]):
                qc, modes = item
                if tuple(round(float(c), 4) for c in qc) != tuple(round(c, 4) for c in qval(k)):
                    fails.append("q coordinates of q-point %d" % k)
                if len(modes) != np_:
                    fails.append("%d modes at q-point %d" % (len(modes), k))
                    continue
                for l, ((mid, thz, cm), vec) in enumerate(modes):
                    if mid != l + 1 or abs(thz - fval(k, l)[0]) > 1e-6 or abs(cm - fval(k, l)[1]) > 1e-6:
                        fails.append("mode header (%d,%d): %s" % (k, l, (mid, thz, cm)))
                    if len(vec) != np_:
                        fails.append("%d vector components at (%d,%d)" % (len(vec), k, l))
                        continue
                    for a in range(np_ // 3):
                        for x in range(3):
                            c = vec[3 * a + x]
                            if not isinstance(c, CSym):
                                fails.append("component (%d,%d,%d,%d) is not built from the file's fields" % (k, l, a, x))
                                continue
                            want_re = Sym.of(toks[("T%d%d%d%d%s000" % (k, l, a, x, "r"))[:9]])
                            want_im = Sym.of(toks[("T%d%d%d%d%s000" % (k, l, a, x, "i"))[:9]])
                            if Z.prove_equal(c.re, want_re, name=name + ":re")[0] != "unsat" or Z.prove_equal(c.im, want_im, name=name + ":im")[0] != "unsat":
                                fails.append("component (q=%d, mode=%d, atom=%d, axis=%d) is not the file's (re, im) pair at that place" % (k, l, a, x))
        chk.obligation(name + ": q coordinates, mode index, THz / cm^-1 (concrete, pairwise distinct) and every complex component (symbolic) at its place",
                       "unsat" if not fails else "sat", seconds=round(time.time() - t0, 2), kind="reader-structure", detail=fails[:3])
        if fails:
            replay_load(chk, el, nq, np_, rng, fails[0])


def replay_load(chk, el, nq, np_, rng, what):
    import tempfile
    vals = {}

    def field(k, l, a, x, part):
        v = round(rng.uniform(-0.99, 0.99), 6)
        vals[(k, l, a, x, part)] = v
        return "%.6f" % v
    qval = lambda k: (0.125 * k, -0.25 * k, 0.5 + k)
    fval = lambda k, l: (1.5 * l - 0.25 + 10 * k, 50.0 * l - 8.0 + 333 * k)
    with tempfile.NamedTemporaryFile("w", suffix=".eig", delete=False) as fp:
        fp.write(matdyn_text(nq, np_, field, qval, fval))
        fn = fp.name
    try:
        data = el.evec_load(fn, nq, np_)
    except Exception as e:
        chk.violation("evec_load:raises", "evec_load raises %s: %s on a file in matdyn layout (nq=%d, modes=%d)" % (type(e).__name__, e, nq, np_), {})
        return
    finally:
        os.unlink(fn)
    bad = None
    if len(data) != nq:
        bad = "number of q-points"
    else:
        for k, (qc, modes) in enumerate(data):
            if any(abs(a - b) > 1e-4 for a, b in zip(qc, qval(k))) or len(modes) != np_:
                bad = "q coordinates / mode count of q-point %d" % k
                break
            for l, ((mid, thz, cm), vec) in enumerate(modes):
                if mid != l + 1 or abs(thz - fval(k, l)[0]) > 1e-6 or abs(cm - fval(k, l)[1]) > 1e-6 or len(vec) != np_:
                    bad = "mode header (%d,%d)" % (k, l)
                    break
                for a in range(np_ // 3):
                    for x in range(3):
                        c = vec[3 * a + x]
                        if abs(c.real - vals[(k, l, a, x, "re")]) > 1e-9 or abs(c.imag - vals[(k, l, a, x, "im")]) > 1e-9:
                            bad = "component (q=%d, mode=%d, atom=%d, axis=%d): %r instead of %r%+rj" % (
                                k, l, a, x, c, vals[(k, l, a, x, "re")], vals[(k, l, a, x, "im")])
            if bad:
                break
    if bad:
        chk.violation("evec_load:wrong", "evec_load mis-reads a file in matdyn layout: %s" % bad, dict(nq=nq, modes=np_))
    else:
        chk.harness_error("C20 evec_load: '%s' did not reproduce" % what)


def main():
    tier = os.environ.get("VERIF_TIER", "quick")
    if len(sys.argv) > 1:
        tier = sys.argv[1]
    chk = Check("C20", tier, "symbolic execution of evec_disp2eig (sqrt atoms, z3/nlsat identities) and forking execution of evec_sort over "
                             "symbolic perturbations (every argmax/abs comparison decided by z3, all paths must give the right order)")
    import importlib
    d2e = importlib.import_module("cij.misc.evec_disp2eig")
    es = importlib.import_module("cij.misc.evec_sort")
    if not hasattr(d2e, "evec_disp2eig"):
        d2e, es = sys.modules["cij.misc.evec_disp2eig"], sys.modules["cij.misc.evec_sort"]
    chk.encode(d2e.evec_disp2eig, es.evec_sort)
    Z.reset_log()
    rng = random.Random(seed() + 20)
    disp2eig_obligations(chk, d2e, tier, rng)
    sort_obligations(chk, es, tier, rng)
    sort_obligations_complex(chk, es, tier, rng)
    load_obligations(chk, tier, rng)
    chk.bound(disp2eig="M <= 2 rows, N <= 2 atoms", evec_sort="n = 2 (thorough: 3); rational orthonormal bases; all / seeded signed permutations; "
              "perturbation box [-0.05, 0.05]^(n x n); path budget 400 / 3000")
    chk.assume("displacement rows non-zero, masses > 0; evec_sort bases are the listed rational orthonormal (real, phases +-1) and rational "
               "complex unitary (phases 1, i, -1, -i) matrices")
    chk.bound(evec_load="1-6 q-points, 3-9 modes; vector components symbolic (tokens), q coordinates / mode index / frequencies concrete and distinct")
    chk.stub("module-global `float` of evec_load.py -> token-aware float (a token becomes a (symbol, 0) complex pair, anything else the real float)")
    chk.out_of_claim("dimensions 4-60; unitary bases with irrational entries and phases other than fourth roots of unity for evec_sort; evec_load: float() "
                     "parsing itself, fields of full width 10 (|component| >= 10, impossible for normalised vectors), the digit regexes on "
                     "symbolic text (q coordinates and frequencies are concrete)")
    return chk.finish("disp2eig: z3 proves unit norm and direction for all displacement rows and masses; evec_sort: the executor enumerates every "
                      "feasible outcome of the greedy argmax over the whole perturbation box and each path returns the expected order.")


if __name__ == "__main__":
    run_main(main)
