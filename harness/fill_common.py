"""Shared pieces of the symmetry-fill harnesses (C08, C09): relations as the real fill_cij parses them,
Laue-class invariance equations (oracle), symbolic tables, running the real fill_cij under the numpy proxy."""
from __future__ import annotations

import itertools
from fractions import Fraction

import numpy
import pandas
import sympy

from symnum import sym as S, solver as Z, executor as X
from symnum.sym import Sym, SymError, symarray
from symnum.npproxy import NumpyProxy, patched
from symnum.exactlift import rt

V2S = {1: (1, 1), 2: (2, 2), 3: (3, 3), 4: (2, 3), 5: (1, 3), 6: (1, 2)}
KEYS = ["c%d%d" % (i, j) for i in range(1, 7) for j in range(i, 7)]   # order of fill_cij's symbol table
SYSTEMS = ["triclinic", "monoclinic", "orthorhombic", "tetragonal7", "tetragonal6", "trigonal7", "trigonal6",
           "hexagonal", "cubic"]
EXPECTED_DIM = dict(triclinic=21, monoclinic=13, orthorhombic=9, tetragonal7=7, tetragonal6=6, trigonal7=7,
                    trigonal6=6, hexagonal=5, cubic=3)


def s2v(i, j):
    a, b = min(i, j), max(i, j)
    for v, p in V2S.items():
        if p == (a, b):
            return v
    raise KeyError((i, j))


def key_of(i, j, k, l):
    a, b = sorted((s2v(i, j), s2v(k, l)))
    return "c%d%d" % (a, b)


# ------------------------------------------------------------------------------------------
# oracle: Laue-class generators in the standard setting (principal axis z, two-fold x, unique axis y)
# ------------------------------------------------------------------------------------------
def _rot(axis, n):
    c = sympy.cos(2 * sympy.pi / n)
    s = sympy.sin(2 * sympy.pi / n)
    if axis == "z":
        return sympy.Matrix([[c, -s, 0], [s, c, 0], [0, 0, 1]])
    if axis == "x":
        return sympy.Matrix([[1, 0, 0], [0, c, -s], [0, s, c]])
    if axis == "y":
        return sympy.Matrix([[c, 0, s], [0, 1, 0], [-s, 0, c]])
    if axis == "111":
        return sympy.Matrix([[0, 0, 1], [1, 0, 0], [0, 1, 0]])   # three-fold about [111]
    raise ValueError(axis)


def laue_generators(system):
    return {
        "triclinic": [],
        "monoclinic": [_rot("y", 2)],
        "orthorhombic": [_rot("x", 2), _rot("y", 2), _rot("z", 2)],
        "tetragonal7": [_rot("z", 4)],
        "tetragonal6": [_rot("z", 4), _rot("x", 2)],
        "trigonal7": [_rot("z", 3)],
        "trigonal6": [_rot("z", 3), _rot("x", 2)],
        "hexagonal": [_rot("z", 6), _rot("x", 2)],
        "cubic": [_rot("z", 4), _rot("111", 3)],
    }[system]


def _lift_num(x):
    """sympy number in Q(sqrt 3) -> Sym."""
    x = sympy.nsimplify(x)
    if x.is_Rational:
        return Sym.const(Fraction(int(x.p), int(x.q)))
    r3 = sympy.sqrt(3)
    a = x.subs(r3, 0)
    b = sympy.simplify((x - a) / r3)
    if a.is_Rational and b.is_Rational:
        return Sym.const(Fraction(int(a.p), int(a.q))) + rt(3) * Fraction(int(b.p), int(b.q))
    raise ValueError("cannot lift %s" % x)


def tensor_vars(ctx, prefix=""):
    return {k: ctx.var(prefix + k) for k in KEYS}


def invariance_equations(system, cvars):
    """Linear forms (Sym) in the 21 component variables that vanish iff the tensor is invariant."""
    eqs = {}
    for R in laue_generators(system):
        Rn = [[_lift_num(R[i, j]) for j in range(3)] for i in range(3)]
        nzr = [[j for j in range(3) if not Rn[i][j].is_zero()] for i in range(3)]
        for (i, j, k, l) in itertools.product(range(3), repeat=4):
            acc = Sym({})
            for p in nzr[i]:
                for q in nzr[j]:
                    for r in nzr[k]:
                        for s_ in nzr[l]:
                            acc = acc + Rn[i][p] * Rn[j][q] * Rn[k][r] * Rn[l][s_] * cvars[key_of(p + 1, q + 1, r + 1, s_ + 1)]
            e = acc - cvars[key_of(i + 1, j + 1, k + 1, l + 1)]
            if not e.is_zero():
                eqs[e.key()] = e
    return list(eqs.values())


# ------------------------------------------------------------------------------------------
# relations as the real code parses them
# ------------------------------------------------------------------------------------------
def capture_relations(F, system):
    """Run the real fill_cij (real numpy, concrete one-row probe) and read the relation rows off the design matrix it hands to its
    least-squares solver: numpy.linalg.lstsq and scipy.linalg.lstsq are wrapped by recorders for the duration of the call, so the capture
    does not depend on which of the two the code uses or through which name it reaches it."""
    import numpy.linalg as nl
    import scipy.linalg as sl
    recs = []
    orig_n, orig_s = nl.lstsq, sl.lstsq

    def rec_n(a, b, *args, **kw):
        recs.append(numpy.array(a, dtype=float))
        return orig_n(a, b, *args, **kw)

    def rec_s(a, b, *args, **kw):
        recs.append(numpy.array(a, dtype=float))
        return orig_s(a, b, *args, **kw)
    df = pandas.DataFrame({"V": [1.0], "c11": [1.0]})
    nl.lstsq, sl.lstsq = rec_n, rec_s
    # names bound at import time inside the module (from scipy.linalg import lstsq) are rebound as well
    rebound = {k: v for k, v in vars(F).items() if v is orig_n or v is orig_s}
    for k, v in rebound.items():
        setattr(F, k, rec_n if v is orig_n else rec_s)
    try:
        import warnings as _w
        with _w.catch_warnings():
            _w.simplefilter("ignore")
            out = F.fill_cij(df.copy(), system, ignore_rank=True, ignore_residuals=True)
    finally:
        nl.lstsq, sl.lstsq = orig_n, orig_s
        for k, v in rebound.items():
            setattr(F, k, v)
    if not recs:
        if list(out.columns) == list(df.columns):
            return []   # the table came back as it went in: no relations (triclinic), fill returned early
        raise SymError("fill_cij solved the system without a call of numpy.linalg.lstsq / scipy.linalg.lstsq: relations not captured")
    a = recs[-1]
    rows = []
    for r in a[1:]:
        rows.append([Fraction(float(x)).limit_denominator(10 ** 6) for x in r])
    return rows


def relation_forms(rows, cvars):
    out = []
    for r in rows:
        acc = Sym({})
        for k, co in zip(KEYS, r):
            if co:
                acc = acc + cvars[k] * co
        out.append(acc)
    return out


def invariant_basis(rows):
    """Rational basis of the null space of the relation rows (list of dict key -> Fraction)."""
    if not rows:
        return [{k: Fraction(int(k == kk)) for k in KEYS} for kk in KEYS]
    M = sympy.Matrix(len(rows), 21, lambda i, j: sympy.Rational(rows[i][j].numerator, rows[i][j].denominator))
    basis = []
    for v in M.nullspace():
        basis.append({k: Fraction(int(v[i].p), int(v[i].q)) for i, k in enumerate(KEYS)})
    return basis


def symbolic_invariant(ctx, basis, nrows, prefix="p", zero_at=None):
    """rows of tensors t[row][key] = sum_k p_{k,row} * basis_k[key] with free parameters p
    (zero_at = (k, row): that parameter is the concrete 0, i.e. some components vanish at one volume only)."""
    rows = []
    for r in range(nrows):
        ps = [ctx.var("%s%d_%d" % (prefix, k, r)) for k in range(len(basis))]
        if zero_at is not None and zero_at[1] == r:
            ps[zero_at[0]] = Sym({})
        t = {}
        for key in KEYS:
            acc = Sym({})
            for p, b in zip(ps, basis):
                if b[key]:
                    acc = acc + p * b[key]
            t[key] = acc
        rows.append(t)
    return rows


def sufficient(rows, supplied):
    """Exact rank test: do the supplied keys together with the relations determine all 21 components?"""
    m = [list(r) for r in rows]
    for k in supplied:
        m.append([Fraction(int(k == kk)) for kk in KEYS])
    if not m:
        return False
    M = sympy.Matrix(len(m), 21, lambda i, j: sympy.Rational(m[i][j].numerator, m[i][j].denominator))
    return M.rank() == 21


def rank_of(rows, supplied):
    """Exact rank of [unit rows of the supplied keys; relations]."""
    import sympy
    m = [list(r) for r in rows] + [[int(kk == c) for kk in KEYS] for c in supplied]
    return sympy.Matrix(m).rank() if m else 0


def make_table(t_rows, supplied, spell=None, volumes=None, extra=None):
    """DataFrame with a float V column, object (Sym) modulus columns in the given order / spelling."""
    n = len(t_rows)
    data = {"V": [float(100 - 5 * i) for i in range(n)] if volumes is None else volumes}
    for k in supplied:
        name = spell.get(k, k) if spell else k
        data[name] = symarray([t_rows[r][k] for r in range(n)])
    if extra:
        data.update(extra)
    return pandas.DataFrame(data)


def run_fill(F, df, system, explorer=None, **kw):
    """Run the real fill_cij under the proxy inside an explorer; returns (paths, proxy)."""
    proxy = NumpyProxy()

    def fn():
        with patched((F, {"numpy": proxy})):
            return F.fill_cij(df.copy(), system, **kw)

    ex = explorer or X.Explorer(max_paths=64, name="fill:" + str(system))
    # tables in general position: a magnitude test |x| > tol on a not identically zero entry is one (cut) decision, not a sign split
    # followed by a comparison; undecided exact equalities are 'not equal'
    ex.generic_eq = True
    paths = ex.run(fn)
    return paths, proxy, ex


def no_drop_cut(cond):
    """Explorer.prefer: for the drop test |col| <= drop_atol (an allclose condition tree) of a not-identically-zero
    symbolic column explore only the 'not close' side (recorded as a cut: tensors whose non-vanishing symbolic entries lie
    within drop_atol of zero are outside that obligation).  Any other comparison forks normally."""
    if cond[0] in ("and", "or"):
        return False
    pref = X.tiny_magnitude_pref(cond)      # the same test written as a one-sided magnitude guard |x| > tol
    if pref is not None:
        return pref
    return None
