"""C18 -- run-static reports a consistent static EoS and elasticity table in every mode.

The real click callback cli/static.py:main is executed on symbolic data objects with real pandas (object columns), the
numpy proxy, and the library kernels (finite-strain fit, Eulerian strain, spline, v2p, matrix inverse) as uninterpreted
functions injected through sys.modules (the callback imports its dependencies inside its body)."""
from __future__ import annotations

import io
import os
import random
import sys
import time
import types
import warnings
from fractions import Fraction

import numpy
import pandas

from harness.common import Check, run_main, seed, REPO
from harness import phonon_common as PC
from harness.c15 import unit_constants
from symnum import sym as S, solver as Z, executor as X
from symnum.sym import Sym, SymError, new_context, symvars, symarray
from symnum.npproxy import NumpyProxy, patched


def more_constants():
    import scipy.constants as sc
    pc = sc.physical_constants
    ry_ev = pc["Rydberg constant times hc in eV"][0]
    bohr_cm = pc["Bohr radius"][0] * 100
    gcm3 = 1.0 / pc["Avogadro constant"][0] / bohr_cm ** 3      # (g/mol)/(bohr^3/particle) -> g/cm^3
    return ry_ev, gcm3


class Env:
    def __init__(self, with_table, keys, cell_opt):
        self.ctx = ctx = new_context()
        gpa, ang3 = unit_constants()
        ev, gcm3 = more_constants()
        self.U = {}
        for nm, val in (("GPA", gpa), ("ANG3", ang3), ("EV", ev), ("GCM3", gcm3)):
            self.U[nm] = ctx.var(nm, positive=True, kind="const")
            ctx.vars[nm]["value_hint"] = val
            ctx.name_float(val, self.U[nm], rtol=1e-8, max_den=64)
        self.nvol = 5
        self.vols = [400.0 - 20 * i for i in range(self.nvol)]
        self.E = [ctx.var("E%d" % i) for i in range(self.nvol)]
        import cij.io.traditional.models as md
        import cij.io.traditional.elast_dat as ed
        from cij.util import c_
        self.qin = md.QHAInputData(self.nvol, 1, 3, 1, 1, [((0, 0, 0), 1.0)],
                                   [md.VolumeData(0.0, self.vols[i], self.E[i], []) for i in range(self.nvol)])
        self.keys = keys
        self.tvols = [410.0 - 21 * i for i in range(self.nvol)]     # the static table has its own volume column
        self.tab = {k: [ctx.var("t_%s_%d" % (k, i)) for i in range(self.nvol)] for k in keys}
        self.mcell = ctx.var("mcell", positive=True)
        self.edata = ed.ElastData(self.tvols[0], self.nvol, self.mcell,
                                  [ed.ElastVolumeData(self.tvols[i], {c_(k[1:]): self.tab[k][i] for k in keys}) for i in range(self.nvol)], []) if with_table else None
        self.cell_opt = ctx.var("mcell_option", positive=True) if cell_opt else None

    # uninterpreted kernels --------------------------------------------------------------------------
    def plsq(self, xs, ys, new_xs, order=3):
        new_xs = numpy.asarray(new_xs, dtype=object)
        out = numpy.empty(new_xs.shape, dtype=object)
        for i in numpy.ndindex(*new_xs.shape):
            out[i] = self.ctx.uf("FIT", [numpy.asarray(xs, dtype=object), numpy.asarray(ys, dtype=object), order, Sym.of(new_xs[i])])
        return out

    def eps(self, v0, v):
        v = numpy.asarray(v, dtype=object)
        out = numpy.empty(v.shape, dtype=object)
        for i in numpy.ndindex(*v.shape):
            out[i] = self.ctx.uf("eps", [Sym.of(v0), Sym.of(v[i])])
        return out

    def spline(self, x, y, xs):
        x, y = numpy.asarray(x, dtype=object), numpy.asarray(y, dtype=object)
        return numpy.array([self.ctx.uf("SPL", [x, y, Sym.of(a)]) for a in numpy.asarray(xs, dtype=object)], dtype=object)

    def v2p(self, f, p, pd):
        f, p = numpy.asarray(f, dtype=object), numpy.asarray(p, dtype=object)

        def canon(x):
            # requested pressures are concrete floats: two ways of building the same grid (linspace, p_min + k*dp) agree only to
            # rounding, so the congruence key is the value to 12 significant digits
            return Sym.of(float("%.11e" % x)) if isinstance(x, (float, numpy.floating)) else Sym.of(x)
        return numpy.array([[self.ctx.uf("V2P", [f, p, canon(x)]) for x in pd]], dtype=object)


def run_callback(env, st, tr, F, interp, ntv, system, p_min=0.0, delta_p=1.0, delta_p_sample=None):
    proxy = NumpyProxy()
    proxy.close_mode = "structural"
    e = env

    class IUS:
        def __init__(s, x, y, **kw):
            s.x, s.y = x, y

        def __call__(s, xs):
            return e.spline(s.x, s.y, xs)
    mods = {"numpy": proxy,
            "qha.fitting": types.SimpleNamespace(polynomial_least_square_fitting=e.plsq),
            "qha.grid_interpolation": types.SimpleNamespace(calculate_eulerian_strain=e.eps),
            "qha.v2p": types.SimpleNamespace(v2p=e.v2p),
            "scipy.interpolate": types.SimpleNamespace(InterpolatedUnivariateSpline=IUS)}
    captured = {}
    orig = pandas.DataFrame.to_string

    def cap(self, *a, **k):
        captured["df"] = self
        return ""
    saved = {k: sys.modules.get(k) for k in mods}
    sys.modules.update(mods)
    pandas.DataFrame.to_string = cap
    old_stdout = sys.stdout
    sys.stdout = io.StringIO()
    import logging
    logging.disable(logging.CRITICAL)
    try:
        with patched((tr, {"read_energy": lambda f: e.qin, "read_elast_data": lambda f: e.edata}), (F, {"numpy": proxy})):
            st.main.callback(input01="x", input02=("y" if e.edata is not None else None), interp=interp, ntv=ntv, cellmass=e.cell_opt,
                             v_ratio=1.2, p_min=p_min, delta_p=delta_p, delta_p_sample=delta_p_sample, system=system)
    finally:
        logging.disable(logging.NOTSET)
        sys.stdout = old_stdout
        pandas.DataFrame.to_string = orig
        for k, v in saved.items():
            if v is None:
                sys.modules.pop(k, None)
            else:
                sys.modules[k] = v
    return captured["df"], proxy


def eq(a, b, name):
    a, b = Sym.of(a), Sym.of(b)
    return Z.prove_equal(a, b, name=name, timeout_ms=15000)[0] == "unsat"


GRID_EXTRA = [0]      # thorough tier: a longer volume / pressure grid


def check_case(chk, st, tr, F, interp, with_table, system, cell_opt, rng, sample_mult=None):
    name = "mode=%s%s%s%s%s" % (interp, ", table" if with_table else ", no table", ", system=%s" % system if system else "", ", --cellmass" if cell_opt else "",
                               ", --delta-p-sample = %d x --delta-p" % sample_mult if sample_mult else "")
    keys = ["c11", "c12", "c44"] if system == "cubic" else ["c11", "c22", "c33", "c12", "c13", "c23", "c44", "c55", "c66"]
    env = Env(with_table, keys, cell_opt)
    ntv = (5 if sample_mult else 4) + GRID_EXTRA[0]
    p_min, dp = 2.0, 3.0
    mult = sample_mult or 1
    t0 = time.time()
    try:
        df, proxy = X.run_single_path(lambda: run_callback(env, st, tr, F, interp, ntv, system, p_min, dp, dp * sample_mult if sample_mult else None), name="C18:" + name, generic=True)
    except SymError as e:
        # an undecided guard stops the symbolic run: look at the real code on concrete data before calling it inconclusive
        replay_cli(chk, rng, "symbolic run stopped: %s" % e, interp)
        chk.inconclusive(name, str(e))
        return
    except Exception as e:
        chk.obligation(name, "sat", kind="identity", detail="callback raises %s: %s" % (type(e).__name__, e))
        if not with_table:
            # the real command without a static table (with the crystal-system / cell-mass options of this case)
            from click.testing import CliRunner
            ex_ = os.path.join(REPO, "examples", "akimotoite")
            args = [os.path.join(ex_, "input01"), "-I", interp, "-n", "11"] + (["-s", system] if system else []) + (["--cellmass", "123.25"] if cell_opt else [])
            with warnings.catch_warnings():
                warnings.simplefilter("ignore")
                r = CliRunner().invoke(st.main, args)
            if r.exit_code != 0:
                chk.violation("run-static:raises-without-table[%s]" % ("system" if system else "plain"), "cij run-static INPUT01 %s (no static table) fails: %r"
                              % (" ".join(args[1:]), r.exception), dict(args=args[1:]))
                return
        replay_cli(chk, rng, "callback raises %s: %s" % (type(e).__name__, e))
        return
    U = env.U
    fails = []
    vols = numpy.array(env.vols)
    vg = numpy.linspace(vols.min() / 1.2, vols.max() * 1.2, ntv)
    xs = env.eps(env.vols[0], vols)
    fg = env.plsq(xs, numpy.array(env.E, dtype=object), env.eps(env.vols[0], vg), 2)
    pg = -NumpyProxy().gradient(fg) / numpy.gradient(vg)
    if interp == "none":
        Vb = vols
        wantF = numpy.array(env.E, dtype=object)
        wantP = env.spline(vg, pg, vols)
    elif interp == "volume":
        Vb, wantF, wantP = vg, fg, pg
    else:
        from cij.util.units import _from_gpa
        pa = numpy.linspace(_from_gpa(p_min), _from_gpa(p_min + dp * (ntv - 1)), ntv)
        Vb = env.v2p(vg[None, ::-1], pg[None, ::-1], pa)[0]
        wantF = env.v2p(fg[None, ::-1], pg[None, ::-1], pa)[0]
        wantP = pa
        if sample_mult:
            # --delta-p-sample: every mult-th row of the pressure grid, starting at p_min
            Vb, wantF, wantP = Vb[::mult], wantF[::mult], wantP[::mult]
    n = len(Vb)
    if len(df) != n:
        fails.append("table has %d rows instead of %d" % (len(df), n))
    else:
        for r in range(n):
            if not eq(df["V"].iloc[r], Sym.of(Vb[r]) * U["ANG3"], name + ":V"):
                fails.append("V column is not the row volume in A^3")
                break
        for r in range(n):
            if not eq(df["F"].iloc[r], Sym.of(wantF[r]) * U["EV"], name + ":F"):
                fails.append("F column is not %s in eV" % ("the input energies" if interp == "none" else "the finite-strain fit of the energies at the row's volume"))
                break
        for r in range(n):
            if interp == "pressure":
                val = S._try_numeric(Sym.of(df["P"].iloc[r]))
                if val is None or abs(val - (p_min + dp * mult * r)) > 1e-9:
                    fails.append("pressure-mode rows do not sit at the requested pressures")
                    break
            elif not eq(df["P"].iloc[r], Sym.of(wantP[r]) * U["GPA"], name + ":P"):
                fails.append("P column is not -d(fit of E)/dV in GPa")
                break
        # density: whenever a cell mass is known (the table header's, or the --cellmass option also without a table)
        cell_any = env.cell_opt if cell_opt else (env.mcell if with_table else None)
        if cell_any is not None:
            if "density" not in df.columns:
                fails.append("no density column although a cell mass is given")
            else:
                for r in range(n):
                    if not eq(df["density"].iloc[r], cell_any / Sym.of(Vb[r]) * U["GCM3"], name + ":density"):
                        fails.append("density is not (cell mass%s)/V in g/cm^3" % (" option" if cell_opt else ""))
                        break
        if with_table:
            cell = env.cell_opt if cell_opt else env.mcell
            txs = env.eps(env.tvols[0], numpy.array(env.tvols))
            txg = env.eps(env.tvols[0], numpy.asarray(Vb, dtype=object))
            C = {}
            for k in keys:
                C[k] = env.plsq(txs, numpy.array(env.tab[k], dtype=object), txg, 2)
            if system == "cubic":
                C.update({"c22": C["c11"], "c33": C["c11"], "c13": C["c12"], "c23": C["c12"], "c55": C["c44"], "c66": C["c44"]})
            for k, col in C.items():
                if k not in df.columns:
                    fails.append("column %s missing" % k)
                    continue
                for r in range(n):
                    if not eq(df[k].iloc[r], col[r], name + ":" + k):
                        fails.append("%s is not the finite-strain fit of the static table at the row's volume" % k)
                        break
            # VRH and velocities from the tensor of the row
            recs = proxy.inv_records
            if len(recs) != n:
                fails.append("inverse taken for %d rows" % len(recs))
            else:
                for r, rec in enumerate(recs):
                    M, Sv = rec["matrix"], rec["result"]
                    for i in range(6):
                        for j in range(6):
                            kk = "c%d%d" % tuple(sorted((i + 1, j + 1)))
                            want = Sym.of(C[kk][r]) if kk in C else Sym({})
                            if not Sym.of(M[i, j]).same(want):
                                fails.append("stiffness matrix entry (%d,%d) is not %s" % (i + 1, j + 1, kk))
                    c = lambda i, j: Sym.of(M[i - 1, j - 1])
                    s_ = lambda i, j: Sym.of(Sv[i - 1, j - 1])
                    KV = (c(1, 1) + c(2, 2) + c(3, 3) + 2 * (c(1, 2) + c(2, 3) + c(1, 3))) / 9
                    KR = 1 / (s_(1, 1) + s_(2, 2) + s_(3, 3) + 2 * (s_(1, 2) + s_(2, 3) + s_(1, 3)))
                    GV = ((c(1, 1) + c(2, 2) + c(3, 3)) - (c(1, 2) + c(2, 3) + c(1, 3)) + 3 * (c(4, 4) + c(5, 5) + c(6, 6))) / 15
                    GR = 15 / (4 * (s_(1, 1) + s_(2, 2) + s_(3, 3)) - 4 * (s_(1, 2) + s_(2, 3) + s_(1, 3)) + 3 * (s_(4, 4) + s_(5, 5) + s_(6, 6)))
                    KH, GH = (KV + KR) / 2, (GV + GR) / 2
                    rho = cell / Sym.of(Vb[r]) * U["GCM3"]
                    for col, want in (("bm_V", KV), ("bm_R", KR), ("bm_VRH", KH), ("G_V", GV), ("G_R", GR), ("G_VRH", GH)):
                        if not eq(df[col].iloc[r], want, name + ":" + col):
                            fails.append("%s is not the VRH expression of the row's tensor" % col)
                    for col, want in (("v_p", (KH + GH * Fraction(4, 3)) / rho), ("v_s", GH / rho), ("v_phi", KH / rho)):
                        v = Sym.of(df[col].iloc[r])
                        if not eq(v * v, want, name + ":" + col):
                            fails.append("%s^2 is not modulus/density" % col)
                    if fails:
                        break
    chk.obligation(name + ": V, F, P, density, fitted moduli, VRH, velocities", "unsat" if not fails else "sat", seconds=round(time.time() - t0, 2),
                   kind="identity(uninterpreted kernels)", detail=fails[:4])
    if interp == "pressure" and with_table and not system:
        chk.sample(dict(case=name, F_row0=Sym.of(df["F"].iloc[0]).short(3), V_row0=Sym.of(df["V"].iloc[0]).short(3)))
    if fails:
        replay_cli(chk, rng, fails[0], interp)


_replayed = set()


def replay_cli(chk, rng, what, only_mode=None):
    """Stage R: the real command on a shipped example, output table re-read and related column to column."""
    from click.testing import CliRunner
    import cij.cli.static as st
    ex = os.path.join(REPO, "examples", "akimotoite")
    gpa, ang3 = unit_constants()
    ev, gcm3 = more_constants()
    n0 = len(chk.violations) + len(chk.known_hits)
    todo = [m for m in ([only_mode] if only_mode else ["none", "volume", "pressure"]) if m not in _replayed]
    if not todo:
        return      # this mode was already replayed (its outcome is recorded)
    for mode in todo:
        _replayed.add(mode)
        with warnings.catch_warnings():
            warnings.simplefilter("ignore")
            r = CliRunner().invoke(st.main, [os.path.join(ex, "input01"), os.path.join(ex, "input02"), "-s", "trigonal7", "-I", mode, "-n", "41",
                                             "--p-min", "2", "--delta-p", "1"])
        if r.exit_code != 0:
            chk.violation("run-static:raises[%s]" % mode, "cij run-static -I %s examples/akimotoite/input01 input02 fails: %r" % (mode, r.exception),
                          dict(mode=mode))
            return
        try:
            df = pandas.read_table(io.StringIO(r.output[r.output.index("V"):] if not r.output.lstrip().startswith("V") else r.output), sep=r"\s+")
        except Exception as e:
            chk.harness_error("cannot re-read run-static output: %s" % e)
            return
        from cij.io.traditional import read_energy, read_elast_data
        qin = read_energy(os.path.join(ex, "input01"))
        vin = numpy.array([v.volume for v in qin.volumes])
        ein = numpy.array([v.energy for v in qin.volumes])
        strain = lambda v0, x: 0.5 * ((v0 / x) ** (2.0 / 3) - 1)
        pe = numpy.polyfit(strain(vin[0], vin), ein, 2)
        Vb = df["V"].to_numpy() / ang3
        fit = numpy.polyval(pe, strain(vin[0], Vb))
        h = 1e-3
        pfit = -(numpy.polyval(pe, strain(vin[0], Vb + h)) - numpy.polyval(pe, strain(vin[0], Vb - h))) / (2 * h) * gpa
        if mode != "none" and numpy.abs(df["F"].to_numpy() - fit * ev).max() > 1e-6 * numpy.abs(fit * ev).max():
            chk.violation("run-static:F-column[%s]" % mode, "mode %s: the F column is not the finite-strain fit of the energies at the reported V "
                          "(F[0]=%.6g, fit=%.6g eV; V[0]=%.6g A^3)" % (mode, df["F"].iloc[0], fit[0] * ev, df["V"].iloc[0]), dict(mode=mode))
            return
        inner = (Vb < vin.max()) & (Vb > vin.min())
        if inner.sum() > 2 and numpy.abs(df["P"].to_numpy()[inner] - pfit[inner]).max() > 0.05 * (numpy.abs(pfit[inner]).max() + 1):
            chk.violation("run-static:P-column[%s]" % mode, "mode %s: P is not -dF/dV of the fitted energies" % mode, dict(mode=mode))
            return
        if mode == "pressure" and numpy.abs(df["P"].to_numpy() - (2 + numpy.arange(len(df)))).max() > 1e-6:
            chk.violation("run-static:P-grid", "pressure-mode rows do not sit at the requested pressures", dict(mode=mode))
            return
        if mode == "pressure":
            with warnings.catch_warnings():
                warnings.simplefilter("ignore")
                r3 = CliRunner().invoke(st.main, [os.path.join(ex, "input01"), "-I", mode, "-n", "41", "--p-min", "2", "--delta-p", "1", "--delta-p-sample", "4"])
            if r3.exit_code != 0:
                chk.violation("run-static:raises[pressure,sampled]", "cij run-static -I pressure --delta-p 1 --delta-p-sample 4 fails: %r" % (r3.exception,), dict(mode=mode))
                return
            lines3 = r3.output.splitlines()
            h3 = next(i for i, l in enumerate(lines3) if l.split()[:3] == ["V", "F", "P"])
            d3 = pandas.DataFrame([[float(x) for x in l.split()[1:4]] for l in lines3[h3 + 1:] if len(l.split()) >= 4], columns=["V", "F", "P"])
            want3 = 2 + 4.0 * numpy.arange(11)
            if len(d3) != 11 or numpy.abs(d3["P"].to_numpy() - want3).max() > 1e-6:
                chk.violation("run-static:P-grid[sampled]", "with --p-min 2 --delta-p 1 --delta-p-sample 4 -n 41 the rows sit at P = %s... (%d rows) instead of "
                              "2, 6, 10, ... 42 (11 rows)" % (d3["P"].tolist()[:3], len(d3)), dict(mode=mode))
                return
        ed_ = read_elast_data(os.path.join(ex, "input02"))
        rho = ed_.cellmass / Vb * gcm3
        # each row's moduli are the fit of the static table at THAT row's volume (supplied components; the table is symmetry-consistent)
        tv = numpy.array([v.volume for v in ed_.volumes])
        for key in list(ed_.volumes[0].static_elastic_modulus)[:4]:
            col = "c%d%d" % key.v
            if col not in df.columns:
                continue
            tab = numpy.array([v.static_elastic_modulus[key] for v in ed_.volumes])
            pk = numpy.polyfit(strain(tv[0], tv), tab, 2)
            want_k = numpy.polyval(pk, strain(tv[0], Vb))
            if not numpy.abs(df[col].to_numpy() - want_k).max() <= 1e-4 * numpy.abs(want_k).max():
                r_bad = int(numpy.argmax(numpy.abs(df[col].to_numpy() - want_k)))
                chk.violation("run-static:moduli-at-row-volume[%s]" % mode, "mode %s: %s = %.6g in the row with V = %.6g A^3, the finite-strain fit of the static table at that volume "
                              "is %.6g" % (mode, col, df[col].iloc[r_bad], df["V"].iloc[r_bad], want_k[r_bad]), dict(mode=mode, column=col))
                return
        if numpy.abs(df["density"].to_numpy() - rho).max() > 1e-6 * rho.max():
            chk.violation("run-static:density[%s]" % mode, "density is not cell mass / V in g/cm^3", dict(mode=mode))
            return
        # VRH columns vs the tensor printed in the same row
        for r in range(0, len(df), max(1, len(df) // 4)):
            Cm = numpy.zeros((6, 6))
            for i in range(6):
                for j in range(6):
                    kk = "c%d%d" % tuple(sorted((i + 1, j + 1)))
                    if kk in df.columns:
                        Cm[i, j] = df[kk].iloc[r]
            Sm = numpy.linalg.inv(Cm)
            KV = (Cm[0, 0] + Cm[1, 1] + Cm[2, 2] + 2 * (Cm[0, 1] + Cm[1, 2] + Cm[0, 2])) / 9
            KR = 1 / (Sm[0, 0] + Sm[1, 1] + Sm[2, 2] + 2 * (Sm[0, 1] + Sm[1, 2] + Sm[0, 2]))
            GV = (Cm[0, 0] + Cm[1, 1] + Cm[2, 2] - (Cm[0, 1] + Cm[1, 2] + Cm[0, 2]) + 3 * (Cm[3, 3] + Cm[4, 4] + Cm[5, 5])) / 15
            GR = 15 / (4 * (Sm[0, 0] + Sm[1, 1] + Sm[2, 2]) - 4 * (Sm[0, 1] + Sm[1, 2] + Sm[0, 2]) + 3 * (Sm[3, 3] + Sm[4, 4] + Sm[5, 5]))
            for col, want in (("bm_V", KV), ("bm_R", KR), ("bm_VRH", (KV + KR) / 2), ("G_V", GV), ("G_R", GR), ("G_VRH", (GV + GR) / 2)):
                if abs(df[col].iloc[r] - want) > 1e-5 * abs(want):
                    chk.violation("run-static:%s[%s]" % (col, mode), "mode %s: %s = %.8g but the row's tensor gives %.8g" % (mode, col, df[col].iloc[r], want),
                                  dict(mode=mode, row=r))
                    return
        if mode == "volume":
            with warnings.catch_warnings():
                warnings.simplefilter("ignore")
                r2 = CliRunner().invoke(st.main, [os.path.join(ex, "input01"), os.path.join(ex, "input02"), "-s", "trigonal7", "-I", mode, "-n", "11",
                                                  "--cellmass", "123.25"])
            if r2.exit_code == 0:
                d2 = pandas.read_table(io.StringIO(r2.output), sep=r"\s+")
                rho2 = 123.25 / (d2["V"].to_numpy() / ang3) * gcm3
                if numpy.abs(d2["density"].to_numpy() - rho2).max() > 1e-6 * rho2.max():
                    chk.violation("run-static:cellmass-option", "--cellmass 123.25 is not applied to the density column", dict(mode=mode))
                    return
                for col, mod in (("v_s", d2["G_VRH"]), ("v_phi", d2["bm_VRH"]), ("v_p", d2["bm_VRH"] + 4 / 3 * d2["G_VRH"])):
                    if numpy.abs(d2[col].to_numpy() ** 2 * rho2 - mod.to_numpy()).max() > 1e-5 * numpy.abs(mod.to_numpy()).max():
                        chk.violation("run-static:cellmass-velocities", "with --cellmass 123.25 the column %s does not satisfy rho v^2 = modulus with the "
                                      "density of that mass (v^2 rho / modulus = %.4f)" % (col, float((d2[col].to_numpy() ** 2 * rho2 / mod.to_numpy())[0])), dict(mode=mode))
                        return
        if mode in ("volume", "none"):
            # the cell-mass option without a static table: a density column in g/cm^3
            with warnings.catch_warnings():
                warnings.simplefilter("ignore")
                r4 = CliRunner().invoke(st.main, [os.path.join(ex, "input01"), "-I", mode, "-n", "11", "--cellmass", "123.25"])
            if r4.exit_code == 0:
                lines4 = r4.output.splitlines()
                h4 = next((i for i, l in enumerate(lines4) if l.split()[:1] == ["V"]), None)
                cols4 = lines4[h4].split() if h4 is not None else []
                if "density" in cols4:
                    rows4 = [l.split()[1:] for l in lines4[h4 + 1:] if len(l.split()) == len(cols4) + 1]
                    V4 = numpy.array([float(x[cols4.index("V")]) for x in rows4])
                    D4 = numpy.array([float(x[cols4.index("density")]) for x in rows4])
                    rho4 = 123.25 / (V4 / ang3) * gcm3
                    if not numpy.abs(D4 - rho4).max() <= 1e-5 * rho4.max():
                        chk.violation("run-static:cellmass-without-table[%s]" % mode, "cij run-static INPUT01 -I %s --cellmass 123.25 (no static table): density %.6g at V = %.6g A^3 "
                                      "is not 123.25 amu / V in g/cm^3 (%.6g)" % (mode, D4[0], V4[0], rho4[0]), dict(mode=mode))
                        return
                else:
                    chk.violation("run-static:cellmass-without-table[%s]" % mode, "cij run-static INPUT01 -I %s --cellmass 123.25 prints no density column" % mode, dict(mode=mode))
                    return
        for col, mod in (("v_s", df["G_VRH"]), ("v_phi", df["bm_VRH"]), ("v_p", df["bm_VRH"] + 4 / 3 * df["G_VRH"])):
            if numpy.abs(df[col].to_numpy() ** 2 * df["density"].to_numpy() - mod.to_numpy()).max() > 1e-5 * numpy.abs(mod.to_numpy()).max():
                chk.violation("run-static:%s[%s]" % (col, mode), "%s^2 * density != modulus" % col, dict(mode=mode))
                return
    chk.harness_error("C18: '%s' did not reproduce through the real command" % what)


def main():
    tier = os.environ.get("VERIF_TIER", "quick")
    if len(sys.argv) > 1:
        tier = sys.argv[1]
    chk = Check("C18", tier, "symbolic execution of the real run-static click callback on symbolic data objects (real pandas object columns, "
                             "library kernels uninterpreted via sys.modules); z3 equality of every output column with the stated relation")
    import cij.cli.static as st
    import cij.io.traditional as tr
    import cij.util.fill as F
    chk.encode(st.main.callback)
    Z.reset_log()
    rng = random.Random(seed() + 18)
    GRID_EXTRA[0] = 0 if tier == "quick" else 3
    cases = [("none", True, None, False), ("volume", True, None, False), ("pressure", True, None, False),
             ("pressure", False, None, False), ("volume", True, "cubic", True), ("volume", False, "cubic", True)]
    if tier != "quick":
        cases += [("none", False, None, False), ("volume", False, None, False), ("none", True, "cubic", False), ("pressure", True, "cubic", True),
                  ("none", True, None, True)]
    for interp, wt, system, co in cases:
        check_case(chk, st, tr, F, interp, wt, system, co, rng)
    check_case(chk, st, tr, F, "pressure", False, None, False, rng, sample_mult=2)
    chk.witness("callback-reached-the-table-printer", "sat" if chk.obligations else "unsat")
    # stage R(b): one real run per mode (catches failures of the real kernels / pandas the stubs cannot see)
    if not _replayed:
        from click.testing import CliRunner
        ex = os.path.join(REPO, "examples", "akimotoite")
        for mode in ("none", "volume", "pressure"):
            with warnings.catch_warnings():
                warnings.simplefilter("ignore")
                r = CliRunner().invoke(st.main, [os.path.join(ex, "input01"), os.path.join(ex, "input02"), "-s", "trigonal7", "-I", mode, "-n", "21"])
            if r.exit_code != 0:
                chk.violation("run-static:raises[%s]" % mode, "cij run-static -I %s examples/akimotoite/input01 input02 fails: %r" % (mode, r.exception),
                              dict(mode=mode))
                break
            chk.validation_points += 1
    for nm, (val, code) in dict(EV=(more_constants()[0], None), GCM3=(more_constants()[1], None)).items():
        pass
    from cij.util.units import _to_ev, _to_gcm3, _to_kms
    ev, gcm3 = more_constants()
    chk.side_check("Ry -> eV factor vs CODATA", abs(_to_ev(1.0) / ev - 1) < 1e-8, dict(code=_to_ev(1.0), codata=ev))
    chk.side_check("amu/bohr^3 -> g/cm^3 factor vs CODATA", abs(_to_gcm3(1.0) / gcm3 - 1) < 1e-8, dict(code=_to_gcm3(1.0), codata=gcm3))
    chk.side_check("(GPa/(g/cm^3))^(1/2) -> km/s factor is 1", abs(_to_kms(1.0) - 1) < 1e-12, dict(code=_to_kms(1.0)))
    chk.bound(modes=["none", "volume", "pressure"], input_volumes=5, grid=4, options="with/without static table, system cubic, --cellmass")
    chk.stub("qha polynomial_least_square_fitting -> FIT(nodes, values, order)(x) [installed qha's return contract]; calculate_eulerian_strain -> eps; "
             "InterpolatedUnivariateSpline -> SPL; v2p -> V2P; numpy.linalg.inv -> uninterpreted inverse; read_energy/read_elast_data -> symbolic data objects")
    chk.out_of_claim("file parsing, stdout formatting, the numerics of the kernels, grid sizes 11-401 (grid 4 here), --delta-p-sample row thinning")
    return chk.finish("The whole callback runs on symbolic energies / table values / cell mass; each printed column is shown equal, for all "
                      "values, to the relation the property states (P from the fit's volume derivative, F = fit at the row's V, unit factors "
                      "once, moduli = fit of the table at the row's V, VRH and velocity relations).")


if __name__ == "__main__":
    run_main(main)
