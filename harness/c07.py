"""C07 -- VRH averages, bounds and velocities are those of the full tensor in SI units."""
from __future__ import annotations

import itertools
import os
import random
import sys
import time
from fractions import Fraction

import numpy

from harness.common import Check, run_main, seed
from harness import phonon_common as PC
from harness.fill_common import KEYS, key_of, V2S
from symnum import sym as S, solver as Z, executor as X
from symnum.sym import Sym, SymError, new_context, symvars, symarray
from symnum.npproxy import NumpyProxy, patched

ORTHO = ["c11", "c12", "c13", "c22", "c23", "c33", "c44", "c55", "c66"]
KEYSETS = {
    "orthotropic-9": ORTHO,
    "triclinic-21": list(KEYS),
    "monoclinic-13": ["c11", "c12", "c13", "c15", "c22", "c23", "c25", "c33", "c35", "c44", "c46", "c55", "c66"],
    "trigonal-7+": ["c11", "c12", "c13", "c14", "c15", "c22", "c23", "c24", "c25", "c33", "c44", "c46", "c55", "c56", "c66"],
    # the nine orthotropic components plus shear-shear couplings only (no axial-shear component): a subset no crystal class produces,
    # which the statement admits ("any subset of non-zero components containing the nine orthotropic ones")
    "orthotropic-9 + c46": ORTHO + ["c46"],
    "orthotropic-9 + c45, c56": ORTHO + ["c45", "c56"],
}


def si_constants():
    import scipy.constants as sc
    pc = sc.physical_constants
    ry_j = pc["Rydberg constant times hc in J"][0]
    return ry_j * 1e-6, pc["Avogadro constant"][0]   # Ry -> kg km^2/s^2 ; N_A


def build_calculator(cc, ctx, keys, nt, nv, moduli=None, prefix="C"):
    from cij.util import c_
    calc = object.__new__(cc.Calculator)
    q = PC.Obj()
    q.t_array = symarray([0] + [ctx.var("T%d" % i, positive=True) for i in range(1, nt)])
    q.v_array = symvars("V", (nv,), positive=True)
    q.volume_base = PC.Obj()
    q.volume_base.v_array = q.v_array
    q.volume_base.t_array = q.t_array
    calc.__dict__["qha_calculator"] = q
    ed = PC.Obj()
    ed.cellmass = ctx.var("mcell", positive=True)
    vol0 = PC.Obj()
    vol0.static_elastic_modulus = {c_(k[1:]): None for k in keys}
    ed.volumes = [vol0]
    calc.__dict__["elast_data"] = ed
    if moduli is None:
        moduli = {k: symvars(prefix + "s" + k[1:], (nt, nv)) for k in keys}
    iso = {k: symvars(prefix + "t" + k[1:], (nt, nv)) for k in keys}
    calc.__dict__["modulus_adiabatic"] = {c_(k[1:]): v for k, v in moduli.items()}
    calc.__dict__["modulus_isothermal"] = {c_(k[1:]): v for k, v in iso.items()}
    calc.__dict__["volume_based_result"] = cc.CijVolumeBaseInterface(calc)
    return calc, moduli, iso


def run_keyset(chk, cc, name, keys, tier, rng):
    from cij.util import c_
    nt, nv = 2, 2
    ctx = new_context()
    ryk, na = si_constants()
    RYK = ctx.var("RYKM", positive=True, kind="const")
    NA = ctx.var("NA", positive=True, kind="const")
    ctx.vars["RYKM"]["value_hint"] = ryk
    ctx.vars["NA"]["value_hint"] = na
    ctx.name_float(ryk, RYK, rtol=1e-8, max_den=64)
    ctx.name_float(na, NA, rtol=1e-8, max_den=64)
    calc, C, Ciso = build_calculator(cc, ctx, keys, nt, nv)
    proxy = NumpyProxy()
    proxy.close_mode = "structural"
    vb = calc.volume_based_result

    def fn():
        with patched((cc, {"numpy": proxy})):
            calc._calculate_compliances()
            out = dict(
                KV=vb.bulk_modulus_voigt, KR=vb.bulk_modulus_reuss, KH=vb.bulk_modulus_voigt_reuss_hill,
                GV=vb.shear_modulus_voigt, GR=vb.shear_modulus_reuss, GH=vb.shear_modulus_voigt_reuss_hill,
                vp=vb.primary_velocities, vs=vb.secondary_velocities, comp=dict(calc._compliances),
                attr=dict(c11=vb.c11, c_11=vb.c_11, c11s=vb.c11s, c11t=vb.c11t, c1111=vb.c1111, s11=vb.s11, c1212=vb.c1212, s_44=vb.s_44))
        return out

    t0 = time.time()
    try:
        res = X.run_single_path(fn, name="C07:" + name, generic=True)
    except SymError as e:
        # the code compares data where the statement has no case distinction: look at the real code on concrete tensors (among them
        # cubic / isotropic ones, where Voigt and Reuss coincide) before calling it inconclusive
        n0 = len(chk.violations) + len(chk.known_hits)
        replay(chk, cc, keys, rng, "symbolic run stopped: %s" % e, quiet=True)
        if len(chk.violations) + len(chk.known_hits) == n0:
            chk.inconclusive(name, str(e))
        return
    except Exception as e:
        chk.note("%s: symbolic run raised %s: %s" % (name, type(e).__name__, e))
        replay(chk, cc, keys, rng, "symbolic run raised %s: %s" % (type(e).__name__, e))
        return
    fails = []
    # (1) matrix handed to inv == symmetric Voigt matrix of the full tensor (missing keys zero)
    recs = proxy.inv_records
    if len(recs) != nt * nv:
        fails.append("inv called on %d matrices instead of %d" % (len(recs), nt * nv))
    Smat = {}
    for rec in recs:
        it, iv = rec["index"]
        M = rec["matrix"]
        if numpy.asarray(M, dtype=object).shape != (6, 6):
            fails.append("a %s block is inverted instead of the 6x6 Voigt matrix of the tensor" % (numpy.asarray(M, dtype=object).shape,))
            continue
        for i in range(6):
            for j in range(6):
                k = "c%d%d" % tuple(sorted((i + 1, j + 1)))
                want = Sym.of(C[k][it, iv]) if k in C else Sym({})
                if not Sym.of(M[i, j]).same(want):
                    fails.append("stiffness matrix entry (%d,%d) at grid point %s is not %s" % (i + 1, j + 1, (it, iv), k))
        Smat[(it, iv)] = rec["result"]
    # (2) compliances are the entries of the inverse of that matrix
    for key, arr in res["comp"].items():
        p, q = key.v
        for it in range(nt):
            for iv in range(nv):
                if (it, iv) in Smat and not Sym.of(arr[it, iv]).same(Smat[(it, iv)][p - 1, q - 1]):
                    fails.append("compliance %r is not entry (%d,%d) of the inverse" % (key, p, q))
    if not fails and len(res["comp"]) != 21:
        fails.append("only %d of 21 compliance components reported for a generic inverse" % len(res["comp"]))
    chk.obligation("%s: 6x6 assembly symmetric & complete; compliances == inverse entries" % name, "unsat" if not fails else "sat",
                   kind="wiring", detail=fails[:3])
    # (3) VRH identities against tensor contractions
    ok = True
    for it in range(nt):
        for iv in range(nv):
            if (it, iv) not in Smat:
                ok = False
                continue
            Sv = Smat[(it, iv)]

            def Cx(i, j, k, l):
                kk = key_of(i, j, k, l)
                return Sym.of(C[kk][it, iv]) if kk in C else Sym({})

            def Sx(i, j, k, l):
                from harness.fill_common import s2v
                p, q = s2v(i, j), s2v(k, l)
                f = Fraction(1)
                if p > 3:
                    f /= 2
                if q > 3:
                    f /= 2
                return Sym.of(Sv[p - 1, q - 1]) * f

            r3 = (1, 2, 3)
            C_iijj = sum((Cx(i, i, j, j) for i in r3 for j in r3), Sym({}))
            C_ijij = sum((Cx(i, j, i, j) for i in r3 for j in r3), Sym({}))
            S_iijj = sum((Sx(i, i, j, j) for i in r3 for j in r3), Sym({}))
            S_ijij = sum((Sx(i, j, i, j) for i in r3 for j in r3), Sym({}))
            want = dict(KV=C_iijj / 9, GV=(3 * C_ijij - C_iijj) / 30, KR=1 / S_iijj, GR=15 / (6 * S_ijij - 2 * S_iijj))
            want["KH"] = (want["KV"] + want["KR"]) / 2
            want["GH"] = (want["GV"] + want["GR"]) / 2
            for q_, w in want.items():
                got = Sym.of(numpy.asarray(res[q_], dtype=object)[it, iv])
                v, env = Z.prove_equal(got, w, name="%s:%s" % (name, q_), timeout_ms=20000)
                if v != "unsat":
                    ok = False
                    fails.append("%s differs from the tensor contraction" % q_)
            # velocities: rho v^2 = modulus, rho = m/(N_A V), km/s
            V = calc.qha_calculator.v_array[iv]
            m = calc.elast_data.cellmass
            mass_kg = m * Fraction(1, 1000) / NA
            for vel, modu in (("vs", want["GH"]), ("vp", want["KH"] + want["GH"] * Fraction(4, 3))):
                vv = Sym.of(numpy.asarray(res[vel], dtype=object)[it, iv])
                v, env = Z.prove_equal(vv * vv, modu * V * RYK / mass_kg, name="%s:%s^2" % (name, vel), timeout_ms=20000)
                if v != "unsat":
                    ok = False
                    fails.append("rho %s^2 differs from the modulus" % vel)
                v2, _ = Z.prove_rel(">=", vv, name="%s:%s>=0" % (name, vel), timeout_ms=5000)
                if v2 != "unsat":
                    ok = False
    chk.obligation("%s: Voigt/Reuss/Hill K and G == tensor contractions; rho v_s^2 = G_VRH, rho v_p^2 = K_VRH + 4/3 G_VRH (km/s)" % name,
                   "unsat" if ok else "sat", seconds=round(time.time() - t0, 2), kind="identity")
    # (3b) ordering for the general tensor of this key set (lemma chain), at one grid point (the code is uniform over the grid)
    if (1, 1) in Smat and ok:
        def Cij(i, j):
            k = "c%d%d" % tuple(sorted((i + 1, j + 1)))
            return Sym.of(C[k][1, 1]) if k in C else Sym({})
        Cm = [[Cij(i, j) for j in range(6)] for i in range(6)]
        Sm = [[Sym.of(Smat[(1, 1)][i, j]) for j in range(6)] for i in range(6)]
        gotv = {q_: numpy.asarray(res[q_], dtype=object)[1, 1] for q_ in ("KV", "KR", "GV", "GR")}
        good_ord, det = ordering_general(chk, name, Cm, Sm, gotv)
        if not good_ord and any("unknown" not in d_ for d_ in det):
            replay(chk, cc, keys, rng, "ordering lemma chain: %s" % det[0])
        elif not good_ord:
            chk.inconclusive("%s ordering" % name, "; ".join(det)[:200])
    # (4) attribute spellings
    a = res["attr"]
    good = all(Sym.of(x).same(y) for x, y in zip(numpy.asarray(a["c11"], dtype=object).ravel(), C["c11"].ravel()))
    good = good and all(numpy.asarray(a[k], dtype=object).ravel().tolist() == numpy.asarray(a["c11"], dtype=object).ravel().tolist()
                        for k in ("c_11", "c11s", "c1111"))
    good = good and all(Sym.of(x).same(y) for x, y in zip(numpy.asarray(a["c11t"], dtype=object).ravel(), Ciso["c11"].ravel()))
    good = good and all(Sym.of(x).same(y) for x, y in zip(numpy.asarray(a["c1212"], dtype=object).ravel(), C["c66"].ravel()))
    chk.obligation("%s: attribute spellings c11/c_11/c11s/c1111 -> adiabatic, c11t -> isothermal, c1212 -> c66, s11/s_44 -> compliances" % name,
                   "unsat" if good else "sat", kind="wiring")
    if fails or not ok or not good:
        replay(chk, cc, keys, rng, (fails or ["attribute spelling"])[0])
    if name == "orthotropic-9":
        chk.sample(dict(keyset=keys, KV=Sym.of(numpy.asarray(res["KV"], dtype=object)[1, 1]).short(4),
                        vs_squared=(Sym.of(numpy.asarray(res["vs"], dtype=object)[1, 1]) ** 2).short(3)))
        w = Z.witness([(">", Sym.of(numpy.asarray(res["KV"], dtype=object)[1, 1]))], name="C07:witness", rng=rng)
        chk.witness("KV>0 reachable", w[0])


def ordering_general(chk, name, Cm, Sm, got):
    """Reuss <= Hill <= Voigt for a GENERAL symmetric stiffness (all supplied components symbolic), by a chain of solver-checked lemmas.

    For a symmetric second-rank tensor d with stress-like Voigt vector sg, strain-like vector ep (ep.sg = d:d = nn) put y = S sg,
    a = ep.C.ep (= d:C:d), b = sg.S.sg (= d:S:d) and w = nn*y - b*ep.  Positive definiteness of C is used ONLY through the instances
    w.C.w >= 0 and b = y.C.y > 0.
      L1 (z3, polynomial identity in all C and S entries, no hypothesis):  w.C.w - b*(a*b - nn^2) == sum_i m_i * sum_j E_ij sg_j
          with E = C S - 1 and m_i = nn^2 y_i - 2 nn b ep_i;  hence  S C = 1  ==>  w.C.w = b (a b - nn^2).
      L2 (z3/nlsat, 3 variables):  Q = B (A B - nn^2), Q >= 0, B > 0  ==>  A B >= nn^2        [Cauchy-Schwarz for the pair C, C^-1]
      L3 (z3):  code K_V * 9 == a(identity tensor), code K_R * b(identity tensor) == 1, 10 * code G_V == sum_k a_k/n_k,
                code G_R * sum_k b_k/n_k == 5/2 over an orthogonal basis d_k of the five deviatoric tensors
      L4 (z3/nlsat, 10 variables):  a_k b_k >= 1, a_k, b_k > 0 (k = 1..5)  ==>  (sum a_k)(sum b_k) >= 25
      L5 (z3):  R <= V  ==>  R <= (R+V)/2 <= V
    Together: K_R <= K_VRH <= K_V and G_R <= G_VRH <= G_V wherever C is positive definite and S C = 1."""
    import z3
    t0 = time.time()
    F = Fraction
    dirs = [("identity", [[1, 0, 0], [0, 1, 0], [0, 0, 1]]),
            ("dev:11-22", [[1, 0, 0], [0, -1, 0], [0, 0, 0]]),
            ("dev:11+22-2*33", [[1, 0, 0], [0, 1, 0], [0, 0, -2]]),
            ("dev:23", [[0, 0, 0], [0, 0, 1], [0, 1, 0]]),
            ("dev:13", [[0, 0, 1], [0, 0, 0], [1, 0, 0]]),
            ("dev:12", [[0, 1, 0], [1, 0, 0], [0, 0, 0]])]
    pairs = [(0, 0), (1, 1), (2, 2), (1, 2), (0, 2), (0, 1)]
    E = [[sum((Cm[i][k] * Sm[k][j] for k in range(6)), Sym({})) - (1 if i == j else 0) for j in range(6)] for i in range(6)]
    ab = {}
    ok = True
    detail = []
    for label, d in dirs:
        sg = [F(d[p][q]) for p, q in pairs]
        ep = [F(d[p][q]) * (1 if p == q else 2) for p, q in pairs]
        nn = sum(F(d[p][q]) ** 2 for p in range(3) for q in range(3))
        assert nn == sum(x * y for x, y in zip(sg, ep))
        y = [sum((Sm[i][j] * sg[j] for j in range(6)), Sym({})) for i in range(6)]
        a = sum((Cm[i][j] * (ep[i] * ep[j]) for i in range(6) for j in range(6)), Sym({}))
        b = sum((y[i] * sg[i] for i in range(6)), Sym({}))
        w = [y[i] * nn - b * ep[i] for i in range(6)]
        q = sum((w[i] * Cm[i][j] * w[j] for i in range(6) for j in range(6)), Sym({}))
        m = [y[i] * (nn * nn) - b * (2 * nn * ep[i]) for i in range(6)]
        cert = sum((m[i] * sum((E[i][j] * sg[j] for j in range(6)), Sym({})) for i in range(6)), Sym({}))
        v1, _ = Z.prove_equal(q - b * (a * b - nn * nn), cert, name="%s:ordering:L1[%s]" % (name, label), timeout_ms=60000, use_assumptions=False)
        # L2 with this direction's nn
        Q, A, B = z3.Reals("Q A B")
        nnv = z3.RealVal(str(nn))
        v2, _ = Z.check([Q == B * (A * B - nnv * nnv), Q >= 0, B > 0, A * B < nnv * nnv], name="%s:ordering:L2[%s]" % (name, label), timeout_ms=20000)
        if v1 != "unsat" or v2 != "unsat":
            ok = False
            detail.append("%s: L1=%s L2=%s" % (label, v1, v2))
        ab[label] = (a, b, nn)
    # L3: link to what the code returned
    a0, b0, n0 = ab["identity"]
    links = [("K_V*9 == a", Sym.of(got["KV"]) * 9, a0), ("K_R*b == 1", Sym.of(got["KR"]) * b0, Sym.of(1))]
    sa = sum((ab[l][0] / ab[l][2] for l, _ in dirs[1:]), Sym({}))
    sb = sum((ab[l][1] / ab[l][2] for l, _ in dirs[1:]), Sym({}))
    links += [("10*G_V == sum a_k/n_k", Sym.of(got["GV"]) * 10, sa), ("G_R * sum b_k/n_k == 5/2", Sym.of(got["GR"]) * sb, Sym.of(F(5, 2)))]
    for lab, lhs, rhs in links:
        v3, _ = Z.prove_equal(lhs, rhs, name="%s:ordering:L3[%s]" % (name, lab), timeout_ms=30000, use_assumptions=False)
        if v3 != "unsat":
            ok = False
            detail.append("L3 %s: %s" % (lab, v3))
    # L4
    aa = [z3.Real("a%d" % k) for k in range(5)]
    bb = [z3.Real("b%d" % k) for k in range(5)]
    cons = [z3.Sum(aa) * z3.Sum(bb) < 25]
    for x, yv in zip(aa, bb):
        cons += [x > 0, yv > 0, x * yv >= 1]
    v4, _ = Z.check(cons, name="%s:ordering:L4" % name, timeout_ms=120000)
    # L5
    R, V = z3.Reals("R V")
    v5, _ = Z.check([R <= V, z3.Or(R > (R + V) / 2, (R + V) / 2 > V)], name="%s:ordering:L5" % name, timeout_ms=5000)
    # the conclusion itself, from the lemma statements (abstract reals): K
    KV, KR, A_, B_ = z3.Reals("KV KR A_ B_")
    v6, _ = Z.check([KV * 9 == A_, KR * B_ == 1, B_ > 0, A_ * B_ >= 9, KR > KV], name="%s:ordering:K-conclusion" % name, timeout_ms=20000)
    GV, GR, SA, SB = z3.Reals("GV GR SA SB")
    v7, _ = Z.check([GV * 10 == SA, GR * SB == z3.RealVal("5/2"), SB > 0, SA * SB >= 25, GR > GV], name="%s:ordering:G-conclusion" % name, timeout_ms=20000)
    for lab, v in (("L4", v4), ("L5", v5), ("K-conclusion", v6), ("G-conclusion", v7)):
        if v != "unsat":
            ok = False
            detail.append("%s: %s" % (lab, v))
    chk.obligation("%s: Reuss <= Hill <= Voigt (K and G) for the general symmetric stiffness with S C = 1, positive definiteness used at 12 "
                   "instance vectors [lemma chain: 6 polynomial identities in all C,S entries, Cauchy-Schwarz and 5-term sum lemmas by nlsat]" % name,
                   "unsat" if ok else ("unknown" if all("sat" not in d_.replace("unsat", "") for d_ in detail) else "sat"),
                   seconds=round(time.time() - t0, 2), kind="inequality(lemma chain)", logic="QF_NRA", detail=detail[:4])
    return ok, detail


def history_obligation(chk, cc, names, rng):
    """Several calculators in one process: after a second calculator (other stiffness symbols, other key set) has been built and evaluated,
    the first one's compliances, Reuss / Hill values and velocities must still be the ones obtained from ITS stiffness (no state shared
    between Calculator objects).  Both live in one symbolic context, so that their inverse atoms are distinct."""
    ctx = new_context()
    ryk, na = si_constants()
    RYK = ctx.var("RYKM", positive=True, kind="const")
    NA = ctx.var("NA", positive=True, kind="const")
    ctx.name_float(ryk, RYK, rtol=1e-8, max_den=64)
    ctx.name_float(na, NA, rtol=1e-8, max_den=64)
    proxy = NumpyProxy()
    proxy.close_mode = "structural"

    def read(calc):
        vb = calc.volume_based_result
        return dict(KR=vb.bulk_modulus_reuss, GR=vb.shear_modulus_reuss, KH=vb.bulk_modulus_voigt_reuss_hill, vs=vb.secondary_velocities,
                    comp=dict(calc._compliances))

    def scenario():
        with patched((cc, {"numpy": proxy})):
            a, _, _ = build_calculator(cc, ctx, KEYSETS["orthotropic-9"], 2, 2, prefix="A")
            a._calculate_compliances()
            first = read(a)
            b, _, _ = build_calculator(cc, ctx, KEYSETS["monoclinic-13"], 2, 2, prefix="B")
            b._calculate_compliances()
            read(b)
            again = read(a)
        return first, again
    fails = []
    try:
        first, again = X.run_single_path(scenario, name="C07:history", generic=True)
    except Exception as e:
        fails.append("raises %s: %s" % (type(e).__name__, e))
        first = again = None
    if first is not None:
        if set(again["comp"]) != set(first["comp"]):
            fails.append("compliance keys of the first calculator changed after a second calculator was built")
        else:
            for k in first["comp"]:
                if not all(Sym.of(x).same(y) for x, y in zip(numpy.asarray(again["comp"][k], dtype=object).ravel(), numpy.asarray(first["comp"][k], dtype=object).ravel())):
                    fails.append("compliance %r of the first calculator changed after a second calculator was built" % (k,))
                    break
        for q_ in ("KR", "GR", "KH", "vs"):
            if not all(Z.prove_equal(Sym.of(x), Sym.of(y), name="C07:history:" + q_)[0] == "unsat"
                       for x, y in zip(numpy.asarray(again[q_], dtype=object).ravel(), numpy.asarray(first[q_], dtype=object).ravel())):
                fails.append("%s of the first calculator changed after a second calculator was built" % q_)
    chk.obligation("history: compliances, Reuss / Hill values and velocities of a calculator are unchanged after a second calculator "
                   "(other key set, other stiffness symbols) was built and read in the same process", "unsat" if not fails else "sat",
                   kind="history(2 objects)", detail=fails[:3])
    if fails:
        replay_history(chk, cc, rng, fails[0])


def replay_history(chk, cc, rng, what):
    """Concrete: two calculators with different stiffness; the first one's Reuss bulk modulus must be that of ITS tensor."""
    from cij.util import c_
    def build(scale):
        calc = object.__new__(cc.Calculator)
        q = PC.Obj()
        q.t_array = numpy.array([0.0, 300.0])
        q.v_array = numpy.array([400.0, 380.0])
        q.volume_base = PC.Obj()
        q.volume_base.v_array, q.volume_base.t_array = q.v_array, q.t_array
        calc.__dict__["qha_calculator"] = q
        ed = PC.Obj()
        ed.cellmass = 100.0
        vol0 = PC.Obj()
        vol0.static_elastic_modulus = {c_(k[1:]): None for k in ORTHO}
        ed.volumes = [vol0]
        calc.__dict__["elast_data"] = ed
        A = numpy.diag([3.0, 3.2, 3.4, 1.0, 1.1, 1.2]) * 0.01 * scale
        A[0, 1] = A[1, 0] = 0.011 * scale
        A[0, 2] = A[2, 0] = 0.012 * scale
        A[1, 2] = A[2, 1] = 0.013 * scale
        calc.__dict__["modulus_adiabatic"] = {c_(k[1:]): A[int(k[1]) - 1, int(k[2]) - 1] * numpy.ones((2, 2)) for k in ORTHO}
        calc.__dict__["modulus_isothermal"] = calc.__dict__["modulus_adiabatic"]
        calc.__dict__["volume_based_result"] = cc.CijVolumeBaseInterface(calc)
        calc._calculate_compliances()
        return calc, A
    try:
        a, Aa = build(1.0)
        kr_before = numpy.array(a.volume_based_result.bulk_modulus_reuss)
        b, Ab = build(2.5)
        kr_after = numpy.array(a.volume_based_result.bulk_modulus_reuss)
        want = 1.0 / numpy.linalg.inv(Aa)[:3, :3].sum()
    except Exception as e:
        chk.violation("history:raises", "two calculators in one process: %s: %s" % (type(e).__name__, e), {})
        return
    if abs(kr_after[0, 0] / want - 1) > 1e-9:
        chk.violation("history:shared-state", "K_R of the first calculator is %.6g after a second calculator was built (it was %.6g before; its own "
                      "tensor gives %.6g): state is shared between Calculator objects" % (kr_after[0, 0], kr_before[0, 0], want), {})
    else:
        chk.harness_error("C07 history: '%s' did not reproduce" % what)


_replayed = set()


def replay(chk, cc, keys, rng, what, quiet=False):
    """Concrete replay: random positive-definite tensors restricted to the key set (generic, cubic, isotropic), real numpy, independent formulas."""
    tag = ",".join(keys)
    if tag in _replayed:
        return
    nt, nv = 2, 2
    for kind in ("generic", "cubic", "isotropic", "cubic", "isotropic", "small-coupling"):
        n0 = len(chk.violations) + len(chk.known_hits)
        _replay_kind(chk, cc, keys, rng, what, kind, tag)
        if len(chk.violations) + len(chk.known_hits) > n0:
            return
    if not quiet:
        chk.harness_error("C07: '%s' did not reproduce on the real code" % what)


def _replay_kind(chk, cc, keys, rng, what, kind, tag):
    from cij.util import c_
    nt, nv = 2, 2
    A = numpy.array([[rng.uniform(-1, 1) for _ in range(6)] for _ in range(6)])
    Cm = A @ A.T + 6 * numpy.eye(6)
    for i in range(6):
        for j in range(6):
            if "c%d%d" % tuple(sorted((i + 1, j + 1))) not in keys:
                Cm[i, j] = 0.0
    if kind in ("cubic", "isotropic"):
        # tensors whose Voigt and Reuss bulk moduli coincide mathematically (a comparison of the two is decided by rounding)
        c11, c12 = rng.uniform(200, 400), rng.uniform(50, 150)
        c44 = (c11 - c12) / 2 if kind == "isotropic" else rng.uniform(40, 140)
        Cm = numpy.zeros((6, 6))
        Cm[:3, :3] = c12
        for i in range(3):
            Cm[i, i] = c11
            Cm[i + 3, i + 3] = c44
    Cm = Cm * 0.01
    if kind == "small-coupling":
        # a coupling component of a few GPa (3e-4 Ry/bohr^3) next to moduli of some hundred GPa
        Cm = numpy.diag([0.02, 0.021, 0.019, 0.006, 0.0065, 0.0055])
        Cm[0, 1] = Cm[1, 0] = 0.008
        Cm[0, 2] = Cm[2, 0] = 0.0075
        Cm[1, 2] = Cm[2, 1] = 0.0082
        for i in range(6):
            for j in range(i + 1, 6):
                if "c%d%d" % (i + 1, j + 1) in keys and Cm[i, j] == 0:
                    Cm[i, j] = Cm[j, i] = 3e-4
    calc = object.__new__(cc.Calculator)
    # what the real Calculator carries besides the data: its configuration (packaged defaults; the fill's drop tolerance raised, as a user may)
    try:
        import yaml
        import cij.data
        with open(cij.data.get_data_fname("default/settings.yaml")) as fp:
            cfg_ = yaml.safe_load(fp)
        cfg_["elast"]["settings"]["symmetry"]["drop_atol"] = 1e-3
        calc.__dict__["config"] = cfg_
    except Exception:
        pass
    q = PC.Obj()
    q.t_array = numpy.array([0.0, 300.0])
    q.v_array = numpy.array([300.0, 280.0])
    q.volume_base = PC.Obj()
    q.volume_base.v_array, q.volume_base.t_array = q.v_array, q.t_array
    calc.__dict__["qha_calculator"] = q
    ed = PC.Obj()
    ed.cellmass = 100.0
    vol0 = PC.Obj()
    vol0.static_elastic_modulus = {c_(k[1:]): None for k in keys}
    ed.volumes = [vol0]
    calc.__dict__["elast_data"] = ed
    scale = numpy.array([[1.0, 1.1], [1.2, 1.3]])
    calc.__dict__["modulus_adiabatic"] = {c_(k[1:]): Cm[int(k[1]) - 1, int(k[2]) - 1] * scale for k in keys}
    calc.__dict__["modulus_isothermal"] = {c_(k[1:]): 0.9 * Cm[int(k[1]) - 1, int(k[2]) - 1] * scale for k in keys}
    calc.__dict__["volume_based_result"] = cc.CijVolumeBaseInterface(calc)
    vb = calc.volume_based_result
    try:
        calc._calculate_compliances()
        got = dict(KV=vb.bulk_modulus_voigt, KR=vb.bulk_modulus_reuss, KH=vb.bulk_modulus_voigt_reuss_hill, GV=vb.shear_modulus_voigt,
                   GR=vb.shear_modulus_reuss, GH=vb.shear_modulus_voigt_reuss_hill, vp=vb.primary_velocities, vs=vb.secondary_velocities)
        s11 = vb.s11
    except Exception as e:
        _replayed.add(tag)
        chk.violation("raises[%s]" % tag[:20], "VRH/velocity evaluation raises %s: %s for key set %s" % (type(e).__name__, str(e)[:120], keys),
                      dict(keys=keys))
        return
    ryk, na = si_constants()
    for it in range(2):
        for iv in range(2):
            Cf = Cm * scale[it, iv]
            Sf = numpy.linalg.inv(Cf)
            C4 = numpy.zeros((3, 3, 3, 3))
            S4 = numpy.zeros((3, 3, 3, 3))
            from harness.fill_common import s2v
            for i, j, k, l in itertools.product(range(3), repeat=4):
                p, qq = s2v(i + 1, j + 1), s2v(k + 1, l + 1)
                C4[i, j, k, l] = Cf[p - 1, qq - 1]
                S4[i, j, k, l] = Sf[p - 1, qq - 1] / ((2 if p > 3 else 1) * (2 if qq > 3 else 1))
            KV = numpy.einsum("iijj", C4) / 9
            GV = (3 * numpy.einsum("ijij", C4) - numpy.einsum("iijj", C4)) / 30
            KR = 1 / numpy.einsum("iijj", S4)
            GR = 15 / (6 * numpy.einsum("ijij", S4) - 2 * numpy.einsum("iijj", S4))
            KH, GH = (KV + KR) / 2, (GV + GR) / 2
            rho = 100.0 * 1e-3 / na / q.v_array[iv]
            want = dict(KV=KV, KR=KR, KH=KH, GV=GV, GR=GR, GH=GH, vs=(GH * ryk / rho) ** 0.5, vp=((KH + 4 * GH / 3) * ryk / rho) ** 0.5)
            for k, w in want.items():
                g = float(numpy.asarray(got[k])[it, iv])
                if not abs(g - w) <= 1e-7 * abs(w):
                    _replayed.add(tag)
                    chk.violation("%s:deviates" % k, "%s = %.10g but the full-tensor value is %.10g (key set %s)" % (k, g, w, keys),
                                  dict(keys=keys, stiffness=Cf.tolist(), quantity=k))
                    return
            if abs(float(numpy.asarray(s11)[it, iv]) - Sf[0, 0]) > 1e-7 * abs(Sf[0, 0]):
                _replayed.add(tag)
                chk.violation("s11:deviates", "reported s11 is not the (1,1) entry of the inverse stiffness", dict(keys=keys))
                return
            if not (KR <= KH * (1 + 1e-12) <= KV * (1 + 1e-12) and GR <= GH * (1 + 1e-12) <= GV * (1 + 1e-12)):
                chk.note("replay oracle: ordering check skipped (harness tensor)")


def ordering(chk, cc, tier, rng):
    """Reuss <= Hill <= Voigt by nlsat, for the subclasses where the solver finishes (explicit inverse)."""
    import sympy
    from cij.util import c_
    cases = {}
    c11, c12, c13, c33, c44 = sympy.symbols("c11 c12 c13 c33 c44")
    cub = sympy.zeros(6, 6)
    for i in range(3):
        for j in range(3):
            cub[i, j] = c11 if i == j else c12
        cub[i + 3, i + 3] = c44
    cases["cubic(3 parameters)"] = (cub, [c11, c12, c44], lambda v: [v["c44"], v["c11"] - v["c12"], v["c11"] + 2 * v["c12"]])
    hexm = sympy.zeros(6, 6)
    hexm[0, 0] = hexm[1, 1] = c11
    hexm[0, 1] = hexm[1, 0] = c12
    hexm[0, 2] = hexm[2, 0] = hexm[1, 2] = hexm[2, 1] = c13
    hexm[2, 2] = c33
    hexm[3, 3] = hexm[4, 4] = c44
    hexm[5, 5] = (c11 - c12) / 2
    cases["transversely-isotropic(5 parameters)"] = (hexm, [c11, c12, c13, c33, c44],
                                                     lambda v: [v["c44"], v["c11"] - v["c12"], v["c33"], (v["c11"] + v["c12"]) * v["c33"] - 2 * v["c13"] * v["c13"]])
    for name, (M, syms, posdef) in cases.items():
        ctx = new_context()
        vals = {str(s_): ctx.var(str(s_)) for s_ in syms}
        from oracles.free_energy import to_sym
        env = {s_: vals[str(s_)] for s_ in syms}
        for cnd in posdef(vals):
            ctx.assume(">", cnd)
        Minv = M.inv()
        keys = [k for k in KEYS if M[int(k[1]) - 1, int(k[2]) - 1] != 0]
        calc = object.__new__(cc.Calculator)
        q = PC.Obj()
        q.t_array = symarray([0])
        q.v_array = symvars("V", (1,), positive=True)
        q.volume_base = PC.Obj()
        q.volume_base.v_array, q.volume_base.t_array = q.v_array, q.t_array
        calc.__dict__["qha_calculator"] = q
        ed = PC.Obj()
        ed.cellmass = ctx.var("mcell", positive=True)
        vol0 = PC.Obj()
        vol0.static_elastic_modulus = {c_(k[1:]): None for k in keys}
        ed.volumes = [vol0]
        calc.__dict__["elast_data"] = ed
        calc.__dict__["modulus_adiabatic"] = {c_(k[1:]): symarray([[to_sym(sympy.nsimplify(M[int(k[1]) - 1, int(k[2]) - 1]), env)]]) for k in keys}
        calc.__dict__["modulus_isothermal"] = calc.__dict__["modulus_adiabatic"]
        comp = {}
        for i in range(6):
            for j in range(i, 6):
                e = sympy.together(sympy.cancel(Minv[i, j]))
                if e == 0:
                    continue
                num, den = sympy.fraction(e)
                comp[c_(i + 1, j + 1)] = symarray([[to_sym(sympy.expand(num), env) / to_sym(sympy.expand(den), env)]])
        calc.__dict__["_compliances"] = comp
        calc.__dict__["volume_based_result"] = cc.CijVolumeBaseInterface(calc)
        vb = calc.volume_based_result
        try:
            def fn():
                return dict(KV=vb.bulk_modulus_voigt[0, 0], KR=vb.bulk_modulus_reuss[0, 0], KH=vb.bulk_modulus_voigt_reuss_hill[0, 0],
                            GV=vb.shear_modulus_voigt[0, 0], GR=vb.shear_modulus_reuss[0, 0], GH=vb.shear_modulus_voigt_reuss_hill[0, 0])
            r = X.run_single_path(fn, name="C07:ordering", generic=True)
        except Exception as e:
            chk.inconclusive("ordering " + name, "%s: %s" % (type(e).__name__, e))
            continue
        pairs = (("KR", "KH"), ("KH", "KV"), ("GR", "GH"), ("GH", "GV"))
        if len(syms) > 3:
            pairs = pairs[:2]     # the direct nlsat query for the shear pair of the 5-parameter class does not finish (covered by the lemma chain)
        for lo, hi in pairs:
            t0 = time.time()
            v, envm = Z.prove_rel(">=", Sym.of(r[hi]) - Sym.of(r[lo]), name="ordering:%s:%s<=%s" % (name, lo, hi), timeout_ms=40000)
            if v == "unknown":
                chk.out_of_claim("ordering %s <= %s for %s: nlsat did not finish (not decided, not claimed)" % (lo, hi, name))
                chk.note("ordering %s<=%s for %s: unknown after %.0fs" % (lo, hi, name, time.time() - t0))
                continue
            chk.obligation("ordering[%s]: %s <= %s under positive definiteness" % (name, lo, hi), v, seconds=round(time.time() - t0, 2),
                           kind="inequality", logic="QF_NRA (nlsat)")
            if v == "sat":
                replay(chk, cc, keys, rng, "ordering %s <= %s fails for %s" % (lo, hi, name))
        w = Z.witness([(">", Sym.of(r["GV"]) - Sym.of(r["GR"]))], name="ordering:witness:" + name, rng=rng)
        chk.witness("ordering[%s]: positive-definite tensors with G_R < G_V exist" % name, w[0])


def main():
    tier = os.environ.get("VERIF_TIER", "quick")
    if len(sys.argv) > 1:
        tier = sys.argv[1]
    chk = Check("C07", tier, "symbolic execution of Calculator._calculate_compliances and the CijVolumeBaseInterface properties on symbolic "
                             "stiffness fields (numpy.linalg.inv as an uninterpreted symmetric inverse); z3 identities against 3^4 tensor "
                             "contractions; Reuss<=Hill<=Voigt for the general tensor by a solver-checked lemma chain (polynomial certificates + nlsat)")
    import cij.core.calculator as cc
    chk.encode(cc.Calculator._calculate_compliances, cc.CijVolumeBaseInterface)
    Z.reset_log()
    rng = random.Random(seed() + 7)
    names = ["orthotropic-9", "triclinic-21", "orthotropic-9 + c46"] if tier == "quick" else list(KEYSETS)
    for n in names:
        run_keyset(chk, cc, n, KEYSETS[n], tier, rng)
    history_obligation(chk, cc, names, rng)
    # concrete twin: a coupling component of a few GPa with the fill's drop tolerance raised in the configuration (symbolic components are
    # never "close to zero", so a magnitude test on them is visible only on numbers)
    n0 = len(chk.violations) + len(chk.known_hits)
    _replay_kind(chk, cc, KEYSETS["orthotropic-9 + c46"], rng, "small-coupling twin", "small-coupling", "small-coupling")
    if len(chk.violations) + len(chk.known_hits) == n0:
        chk.side_check("small-coupling twin: a 4 GPa coupling component enters compliances, averages and velocities (drop_atol raised to 1e-3 in the configuration)", True)
    ordering(chk, cc, tier, rng)
    ryk, na = si_constants()
    from cij.util import units
    f_code = units.Quantity(1.0, units.rydberg).to(units.kg * units.km ** 2 / units.s ** 2).magnitude
    chk.side_check("Ry -> kg km^2/s^2 factor vs CODATA", abs(f_code / ryk - 1) < 1e-8, dict(code=f_code, codata=ryk))
    chk.bound(grid="nT=2 x nV=2", keysets=names, ordering="general tensor of each key set by the lemma chain (one grid point); direct nlsat "
              "cross-check for cubic (3 parameters, K and G) and transversely isotropic (5 parameters, K)")
    chk.stub("numpy.linalg.inv -> uninterpreted symmetric inverse symbols (congruent in the matrix); numpy.allclose(compliance, 0) -> "
             "structural (generic inverse has no vanishing entry)")
    chk.assume("cell mass, volumes > 0; unit factors Ry->kg km^2/s^2 and N_A read as symbols when within 1e-8 of CODATA")
    chk.assume("ordering: positive definiteness of C enters only through 12 instances (w.C.w >= 0 and y.C.y > 0 for the six directions of the "
               "lemma chain); the reported compliance is the exact inverse (S C = 1)")
    chk.out_of_claim("conditioning / rounding of the LAPACK inverse; the ordering as a single monolithic nlsat query (unknown at 120 s), which is "
                     "why it is decided as a chain of lemmas whose composition (modus ponens over the lemma statements) is done by the harness")
    return chk.finish("The matrix handed to inv is shown to be the symmetric Voigt matrix of the tensor and the reported compliances its "
                      "inverse's entries; K/G Voigt, Reuss, Hill and the velocity relations are z3 identities in all stiffness, inverse, "
                      "mass and volume symbols; Reuss <= Hill <= Voigt is decided for the general tensor by a chain of z3-checked polynomial identities and "
                      "nlsat lemmas (Cauchy-Schwarz for C and C^-1), cross-checked by direct nlsat verdicts on two explicit-inverse subclasses.")


if __name__ == "__main__":
    run_main(main)
