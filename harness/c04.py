"""C04 -- phonon tensor assembly is complete, request-independent, isotropic in the limit."""
from __future__ import annotations

import itertools
import os
import random
import sys
import time
from fractions import Fraction

import numpy

from harness.common import Check, run_main, seed
from harness import phonon_common as PC
from harness import pipeline as PL
from harness.fill_common import KEYS, key_of, V2S, s2v
from symnum import sym as S, solver as Z, executor as X
from symnum.npproxy import NumpyProxy, patched
from symnum.sym import Sym, SymError, new_context, symvars, symarray

SYSTEM_SETS = {
    "cubic": ["c11", "c12", "c44"],
    "hexagonal": ["c11", "c12", "c13", "c33", "c44"],
    "trigonal6": ["c11", "c12", "c13", "c14", "c33", "c44"],
    "trigonal7": ["c11", "c12", "c13", "c14", "c15", "c33", "c44"],
    "tetragonal6": ["c11", "c12", "c13", "c33", "c44", "c66"],
    "tetragonal7": ["c11", "c12", "c13", "c16", "c33", "c44", "c66"],
    "orthorhombic": ["c11", "c12", "c13", "c22", "c23", "c33", "c44", "c55", "c66"],
    "monoclinic": ["c11", "c12", "c13", "c15", "c22", "c23", "c25", "c33", "c35", "c44", "c46", "c55", "c66"],
    "triclinic": list(KEYS),
}


def permute_key(k, perm):
    """Key of the component after relabelling axis i -> perm[i] (1-based dict)."""
    p, q = int(k[1]), int(k[2])
    i, j = V2S[p]
    kk, l = V2S[q]
    return key_of(perm[i], perm[j], perm[kk], perm[l])


def entries(arr):
    a = numpy.asarray(arr, dtype=object)
    return [(idx, Sym.of(a[idx])) for idx in numpy.ndindex(*a.shape)]


def make_problem(nq, np_, nv, strain_kind):
    ctx = new_context()
    H, K, _ = PC.declare_constants(ctx)
    duck = PC.make_duck(ctx, nq, np_, nv, n_sym_T=1)
    if strain_kind == "thirds":
        strain = symarray([[Fraction(1, 3)] * 3 for _ in range(nv)])
    elif strain_kind == "ones":
        strain = symarray([[1, 1, 1] for _ in range(nv)])
    else:
        strain = symvars("e", (nv, 3), positive=True)
    return ctx, duck, strain


def isotropy(chk, tier, rng):
    nq, np_, nv = (2, 3, 1) if tier == "quick" else (2, 6, 2)
    for kind in (("thirds",) if tier == "quick" else ("thirds", "ones")):
        ctx, duck, strain = make_problem(nq, np_, nv, kind)
        t0 = time.time()
        try:
            res, proxy = PL.run_pipeline(duck, strain, KEYS)
        except SymError as e:
            replay_isotropy(chk, rng, "symbolic run stopped: %s" % e)      # an undecided guard: look at the real code first
            chk.inconclusive("isotropy", str(e))
            return
        except Exception as e:
            replay_isotropy(chk, rng, "pipeline raised %s: %s" % (type(e).__name__, e))
            return
        run_s = time.time() - t0
        for which in ("iso", "adi"):
            r = res[which]
            rels = []
            rels += [("c22==c11", "c22", lambda x: x["c11"]), ("c33==c11", "c33", lambda x: x["c11"])]
            rels += [("c13==c12", "c13", lambda x: x["c12"]), ("c23==c12", "c23", lambda x: x["c12"])]
            rels += [("c%s==(c11-c12)/2" % k[1:], k, lambda x: (x["c11"] - x["c12"]) / 2) for k in ("c44", "c55", "c66")]
            others = [k for k in KEYS if k not in ("c11", "c22", "c33", "c12", "c13", "c23", "c44", "c55", "c66")]
            rels += [("%s==0" % k, k, lambda x: 0) for k in others]
            bad = []
            for name, k, rhs in rels:
                lhs = numpy.asarray(r[k], dtype=object)
                want = numpy.asarray(rhs({kk: numpy.asarray(v, dtype=object) for kk, v in r.items()}), dtype=object)
                want = numpy.broadcast_to(want, lhs.shape)
                good = True
                for idx in numpy.ndindex(*lhs.shape):
                    a, b = Sym.of(lhs[idx]), Sym.of(want[idx])
                    if a.same(b):
                        v = "unsat" if Z.prove_equal(a, b, name="iso:" + name)[0] == "unsat" else "sat"
                    else:
                        v, env = Z.prove_zero(a - b, name="isotropy:" + name, timeout_ms=20000)
                    if v != "unsat":
                        good = False
                chk.obligation("isotropy[%s,%s]:%s" % (kind, which, name), "unsat" if good else "sat", kind="identity")
                if not good:
                    bad.append(name)
            if bad:
                replay_isotropy(chk, rng, "isotropy relations %s fail" % bad[:3])
        chk.note("isotropy[%s]: full 21-key pipeline symbolic run %.1fs (nq=%d np=%d nv=%d), tasks=%d" % (
            kind, run_s, nq, np_, nv, len(res["tl"].data)))
        w = Z.witness([("!=", Sym.of(numpy.asarray(res["iso"]["c44"], dtype=object).reshape(-1)[-1]))], name="isotropy:witness", rng=rng)
        chk.witness("isotropy[%s]:c44-nonzero-reachable" % kind, w[0])


def replay_isotropy(chk, rng, what):
    d = PL.float_duck(2, 6, 2, 2, rng)
    strain = numpy.full((2, 3), 1.0 / 3)
    try:
        with numpy.errstate(all="ignore"):
            iso, adi, tl = PL.real_pipeline(d, strain, KEYS)
    except Exception as e:
        chk.violation("isotropy:pipeline-raises", "real task pipeline raises %s: %s with equal axial strains" % (type(e).__name__, str(e)[:150]), {})
        return
    for r, nm in ((iso, "isothermal"), (adi, "adiabatic")):
        sc = numpy.abs(r["c11"]).max()
        checks = [("c22=c11", r["c22"] - r["c11"]), ("c33=c11", r["c33"] - r["c11"]), ("c13=c12", r["c13"] - r["c12"]),
                  ("c23=c12", r["c23"] - r["c12"])]
        checks += [("%s=(c11-c12)/2" % k, r[k] - (r["c11"] - r["c12"]) / 2) for k in ("c44", "c55", "c66")]
        checks += [("%s=0" % k, r[k]) for k in KEYS if k not in ("c11", "c22", "c33", "c12", "c13", "c23", "c44", "c55", "c66")]
        for name, dev in checks:
            if not numpy.all(numpy.isfinite(dev[1:])) or numpy.abs(dev[1:]).max() > 1e-8 * sc:
                chk.violation("isotropy:" + name, "with equal axial strains the %s phonon tensor violates %s (deviation %.3g of %.3g)" % (
                    nm, name, numpy.abs(numpy.nan_to_num(dev, nan=numpy.inf)).max(), sc), dict(relation=name))
                return
    chk.harness_error("isotropy: '%s' did not reproduce on the real code" % what)


def covariance(chk, tier, rng):
    """Relabelling the crystal axes permutes the assembled tensor."""
    nq, np_, nv = 2, 3, 1
    keys = KEYS if tier != "quick" else ["c11", "c12", "c23", "c44", "c14", "c15", "c56", "c66", "c36"]
    perms = [dict(zip((1, 2, 3), p)) for p in itertools.permutations((1, 2, 3))][1:]
    if tier == "quick":
        perms = [perms[0], perms[3]]   # one transposition, one cycle
    ctx, duck, strain = make_problem(nq, np_, nv, "sym")
    try:
        base, _ = PL.run_pipeline(duck, strain, keys)
    except Exception as e:
        chk.inconclusive("covariance", "base run: %s" % e)
        return
    for perm in perms:
        name = "axis-covariance[%s]" % "".join(str(perm[i]) for i in (1, 2, 3))
        strain_p = numpy.empty_like(strain)
        for i in (1, 2, 3):
            strain_p[:, perm[i] - 1] = strain[:, i - 1]     # new axis perm[i] carries old axis i
        keys_p = [permute_key(k, perm) for k in keys]
        t0 = time.time()
        try:
            alt, _ = PL.run_pipeline(duck, strain_p, keys_p)
        except Exception as e:
            chk.inconclusive(name, str(e))
            continue
        good = True
        for which in ("iso", "adi"):
            for k, kp in zip(keys, keys_p):
                for (idx, a), (_, b) in zip(entries(base[which][k]), entries(alt[which][kp])):
                    if a.same(b):
                        continue
                    v, env = Z.prove_zero(a - b, name=name + ":" + k, timeout_ms=20000)
                    if v != "unsat":
                        good = False
        chk.obligation(name, "unsat" if good else "sat", seconds=round(time.time() - t0, 2), kind="identity",
                       detail=dict(keys=keys, permuted=keys_p))
        if not good:
            replay_covariance(chk, rng, perm, keys)


def replay_covariance(chk, rng, perm, keys):
    d = PL.float_duck(2, 6, 2, 2, rng)
    strain = numpy.array([[0.25, 0.35, 0.40], [0.22, 0.36, 0.42]])
    strain_p = numpy.empty_like(strain)
    for i in (1, 2, 3):
        strain_p[:, perm[i] - 1] = strain[:, i - 1]
    keys_p = [permute_key(k, perm) for k in keys]
    try:
        with numpy.errstate(all="ignore"):
            iso, adi, _ = PL.real_pipeline(d, strain, keys)
            iso2, adi2, _ = PL.real_pipeline(d, strain_p, keys_p)
    except Exception as e:
        chk.violation("covariance:pipeline-raises", "real pipeline raises %s: %s" % (type(e).__name__, str(e)[:150]), {})
        return
    sc = numpy.abs(iso["c11"] if "c11" in iso else list(iso.values())[0]).max()
    for k, kp in zip(keys, keys_p):
        if numpy.abs(iso[k][1:] - iso2[kp][1:]).max() > 1e-8 * sc or numpy.abs(adi[k][1:] - adi2[kp][1:]).max() > 1e-8 * sc:
            chk.violation("covariance:%s" % k, "relabelling axes %s: %s of the relabelled crystal differs from %s of the original" % (perm, kp, k),
                          dict(perm=perm, key=k))
            return
    chk.harness_error("covariance violation did not reproduce on the real code")


def request_sets(tier, rng):
    sets = [[k] for k in KEYS]
    pairs = [list(p) for p in itertools.permutations(KEYS, 2)]
    rng.shuffle(pairs)
    sets += pairs[: (30 if tier == "quick" else 420)]
    sets += [list(KEYS), list(reversed(KEYS))]
    sh_ = list(KEYS)
    rng.shuffle(sh_)
    sets.append(sh_)
    for name, ks in SYSTEM_SETS.items():
        sets.append(list(ks))
        if tier != "quick":
            sets.append(list(reversed(ks)))
    return sets


def completeness_and_independence(chk, tier, rng):
    """Every requested key receives a value; dependencies first; value independent of the request (structural de-dup mode)."""
    nq, np_, nv = 2, 3, 1
    ctx, duck, strain = make_problem(nq, np_, nv, "sym")
    singles = {}
    t0 = time.time()
    sets = request_sets(tier, rng)
    n_ok = 0
    bad = None
    for R in sets:
        try:
            res, proxy = PL.run_pipeline(duck, strain, R)
        except SymError as e:
            replay_request(chk, rng, R, "symbolic run stopped: %s" % e)    # an undecided guard: look at the real code first
            chk.inconclusive("request%s" % R[:3], str(e))
            return
        except Exception as e:
            bad = (R, "raises %s: %s" % (type(e).__name__, e))
            break
        if set(res["iso"]) != set(R) or set(res["adi"]) != set(R):
            bad = (R, "keys with a value %s != requested" % sorted(res["iso"]))
            break
        acyclic, late = PL.order_facts(res["tl"])
        if not acyclic or late:
            bad = (R, "dependency order violated: acyclic=%s %s" % (acyclic, late[:2]))
            break
        if len(R) == 1:
            singles[R[0]] = res
        for k in R:
            ref = singles.get(k)
            if ref is None:
                ref, _ = PL.run_pipeline(duck, strain, [k])
                singles[k] = ref
            for which in ("iso", "adi"):
                for (idx, a), (_, b) in zip(entries(res[which][k]), entries(ref[which][k])):
                    if not a.same(b):
                        v, _e = Z.prove_zero(a - b, name="request-independence:%s" % k, timeout_ms=20000)
                        if v != "unsat":
                            bad = (R, "value of %s depends on the request" % k)
            if bad:
                break
        if bad:
            break
        n_ok += 1
    chk.obligation("completeness,dependency-order,request-independence[%d request sets: 21 singletons, %d ordered pairs, full x3, system sets]"
                   % (len(sets), sum(1 for s_ in sets if len(s_) == 2)), "unsat" if bad is None else "sat",
                   seconds=round(time.time() - t0, 1), kind="identity+structural")
    chk.sample(dict(request=sets[25], tasks=None))
    if bad is not None:
        replay_request(chk, rng, bad[0], bad[1])


def replay_request(chk, rng, R, what, strain=None):
    d = PL.float_duck(2, 6, 2, 2, rng)
    strain = numpy.array([[0.25, 0.35, 0.40], [0.22, 0.36, 0.42]]) if strain is None else strain
    try:
        with numpy.errstate(all="ignore"):
            iso, adi, tl = PL.real_pipeline(d, strain, R)
    except Exception as e:
        chk.violation("request:raises", "real pipeline raises %s: %s for request %s" % (type(e).__name__, str(e)[:150], R), dict(request=R))
        return
    if set(iso) != set(R):
        chk.violation("request:incomplete", "request %s yields values for %s" % (R, sorted(iso)), dict(request=R))
        return
    import networkx as nx
    if not nx.is_directed_acyclic_graph(tl._graph):
        chk.violation("request:cyclic", "dependency graph of request %s has a cycle" % R, dict(request=R))
        return
    pos = {id(t): i for i, t in enumerate(tl.data)}
    tk = PL.modules()[0]
    for t in tl.data:
        for s_, key in t.get_dependencies():
            params = tk.PhononContributionTaskParams.create(s_, key)
            dep = next((u for u in tl.data if u.task_params == params), None)
            if dep is None or pos[id(dep)] >= pos[id(t)]:
                chk.violation("request:order", "task %r is evaluated before its dependency %r (request %s)" % (t.key, key, R), dict(request=R))
                return
    for k in R:
        with numpy.errstate(all="ignore"):
            iso1, adi1, _ = PL.real_pipeline(d, strain, [k])
        sc = max(numpy.abs(iso1[k]).max(), 1e-6 * max(numpy.abs(v).max() for v in iso.values())) + 1e-300
        dev = max(numpy.abs(iso[k][1:] - iso1[k][1:]).max(), numpy.abs(adi[k][1:] - adi1[k][1:]).max()) / sc
        if dev > 1e-9:
            chk.violation("request:dependence", "value of %s under request %s differs from its value requested alone by %.3g relative"
                          % (k, R, dev), dict(request=R, key=k, strain=strain.tolist()))
            return
    chk.harness_error("request: '%s' did not reproduce on the real code" % what)


def merge_tolerance(chk, tier, rng):
    """De-duplication by approximate equality: explore the real allclose decisions with the solver.  On every path on
    which two structurally different parameter sets are merged, the path condition must entail that they agree to
    1e-9 relative (+1e-12); otherwise one task's value is handed to another and the result depends on the request."""
    nq, np_, nv = 2, 3, 1
    TOL_R, TOL_A = Fraction(1, 10 ** 9), Fraction(1, 10 ** 12)
    # mixed shear keys (c14 ... c56) use three different rotated axes: their off-diagonal dependencies are where a merge meets a
    # structurally different (and differently hashed) parameter set
    cases = [["c22", "c44"], ["c44", "c22"], ["c14"], ["c12", "c46"]]
    if tier != "quick":
        cases += [["c11", "c55"], ["c33", "c66", "c12"], ["c15"], ["c56"], ["c13", "c25"], ["c36", "c23"]]
    for R in cases:
        name = "merge-tolerance%s" % R
        ctx, duck, strain = make_problem(nq, np_, nv, "sym")
        for x in strain.ravel():
            ctx.vars[list(x.variables())[0]]["lo"] = Fraction(1, 20)
            ctx.vars[list(x.variables())[0]]["hi"] = Fraction(9, 10)
        ex = X.Explorer(max_paths=64 if tier == "quick" else 256, name=name, decision_timeout_ms=4000)
        t0 = time.time()
        try:
            # the whole pipeline runs on every path: a merge must neither hand over a loose value nor make the calculation fail
            paths, proxy = PL.run_pipeline(duck, strain, R, close_mode="solver", explorer=ex, calculate=True)
        except X.PathBudgetExceeded as e:
            chk.inconclusive(name, str(e))
            continue
        except SymError as e:
            chk.inconclusive(name, str(e))
            continue
        loose = None
        n_merge = 0
        failing = [p for p in paths if p.exception is not None]
        if failing:
            p = failing[0]
            v, env = Z.satisfiable([], name=name + ":failing-path-model", conds=p.path_condition())
            chk.obligation(name + "[paths=%d]: the calculation completes on every path of the de-duplication" % len(paths), "sat",
                           seconds=round(time.time() - t0, 1), kind="all-paths",
                           detail="%s: %s under %s" % (type(p.exception).__name__, str(p.exception)[:80], [X.cond_str(c)[:80] for c in p.path_condition()][:2]))
            e = [(env or {}).get("e_0_%d" % i, 1.0 / 3) for i in range(3)]
            replay_request(chk, rng, R, "pipeline raises on a merge path", strain=numpy.array([e, e]))
            continue
        for p in paths:
            pc = p.path_condition()
            for cond, outcome, forked in p.decisions:
                if not (forked and outcome) or cond[0] != "and":
                    continue
                n_merge += 1
                # cond is the real allclose condition of the code; require the tight tolerance to be entailed
                tight = tighten(cond, TOL_R, TOL_A)
                enc = Z.Encoder()
                cons = [X._cond_z3(c, enc) for c in pc] + [X._cond_z3(X.cond_not(tight), enc)]
                cons += enc.assumptions() + enc.side_conditions()
                v, env = Z.check(cons, name=name + ":merged=>equal-to-1e-9", enc=enc, timeout_ms=10000)
                if v != "unsat":
                    loose = (v, env, cond)
                    break
            if loose:
                break
        chk.obligation(name + "[paths=%d,merge decisions=%d]:merged-parameters-agree-to-1e-9" % (len(paths), n_merge),
                       "unsat" if loose is None else loose[0], seconds=round(time.time() - t0, 1), kind="entailment",
                       detail=dict(feasibility_unknown=any(p.feasibility_unknown for p in paths)))
        if n_merge:
            chk.witness(name + ":merge-branch-reachable", "sat")
        if loose is not None:
            v, env, cond = loose
            if v == "unknown":
                chk.inconclusive(name, "tolerance entailment unknown")
                continue
            e = [env.get("e_0_%d" % i, 1.0 / 3) for i in range(3)]
            replay_request(chk, rng, R, "approximately equal strains merged", strain=numpy.array([e, e]))
            return


def reuse_obligation(chk, tier, rng):
    """History: one task list object resolved and calculated for axial strains A, then again for strains B (another symbolic triple) --
    the values read after the second calculation are those of a fresh list given B."""
    nq, np_, nv = 2, 3, 1
    ctx, duck, strain = make_problem(nq, np_, nv, "sym")
    strain_b = symvars("f", (nv, 3), positive=True)
    keys = ["c11", "c12", "c44", "c14"] if tier == "quick" else ["c11", "c22", "c12", "c23", "c44", "c55", "c14", "c25", "c46"]
    t0 = time.time()
    fails = []
    try:
        again, _ = PL.run_pipeline_reused(duck, strain, strain_b, keys)
        fresh, _ = PL.run_pipeline(duck, strain_b, keys)
        for which in ("iso", "adi"):
            if set(again[which]) != set(keys):
                fails.append("keys with a value after the second calculation: %s" % sorted(again[which]))
                continue
            for k in keys:
                for (idx, a), (_, b) in zip(entries(again[which][k]), entries(fresh[which][k])):
                    if not a.same(b) and Z.prove_zero(a - b, name="reuse:%s" % k, timeout_ms=20000)[0] != "unsat":
                        fails.append("%s %s after re-use differs from a fresh list" % (which, k))
                        break
    except SymError as e:
        chk.inconclusive("reuse", str(e))
        return
    except Exception as e:
        fails.append("raises %s: %s" % (type(e).__name__, e))
    chk.obligation("history: a task list resolved and calculated a second time with other strains returns the values of a fresh list [%d keys]" % len(keys),
                   "unsat" if not fails else "sat", seconds=round(time.time() - t0, 1), kind="history(2 calculations)", detail=sorted(set(fails))[:3])
    if fails:
        d = PL.float_duck(2, 6, 2, 2, rng)
        ea = numpy.array([[0.25, 0.35, 0.40], [0.22, 0.36, 0.42]])
        eb = numpy.array([[0.40, 0.25, 0.35], [0.42, 0.22, 0.36]])
        try:
            with numpy.errstate(all="ignore"):
                iso2, adi2 = PL.real_pipeline_reused(d, ea, eb, keys)
                iso1, adi1, _ = PL.real_pipeline(d, eb, keys)
        except Exception as e:
            chk.violation("history:reuse-raises", "a task list used for a second calculation raises %s: %s" % (type(e).__name__, str(e)[:120]), dict(keys=keys))
            return
        for k in keys:
            sc = max(numpy.abs(iso1[k]).max(), 1e-6 * max(numpy.abs(v).max() for v in iso1.values())) + 1e-300
            dev = max(numpy.abs(iso2[k][1:] - iso1[k][1:]).max(), numpy.abs(adi2[k][1:] - adi1[k][1:]).max()) / sc
            if dev > 1e-9:
                chk.violation("history:reuse", "a task list first used with strains %s returns %s differing by %.3g relative from a fresh list when used "
                              "again with strains %s" % (ea[0].tolist(), k, dev, eb[0].tolist()), dict(keys=keys))
                return
        chk.harness_error("reuse: '%s' did not reproduce on the real code" % fails[0])


def iterable_request_obligation(chk, tier, rng):
    """The request may be any iterable of keys (the signature says Iterable[C_]): a one-shot iterator must give the same values as a list."""
    tk, sh, ns, c_ = PL.modules()
    ctx, duck, strain = make_problem(2, 3, 1, "sym")
    keys = ["c11", "c12", "c44", "c15"]
    proxy = NumpyProxy()
    proxy.close_mode = "structural"
    fails = []
    try:
        def fn():
            with patched((tk, {"numpy": proxy}), (sh, {"numpy": proxy}), (ns, {"numpy": proxy})):
                tl = tk.PhononContributionTaskList(duck)
                tl.resolve(strain, iter([c_(k[1:]) for k in keys]))
                tl.calculate()
                return {"c%d%d" % k.v: v for k, v in tl.get_isothermal_results().items()}, {"c%d%d" % k.v: v for k, v in tl.get_adiabatic_results().items()}
        iso, adi = X.run_single_path(fn, name="C04:iterable", generic=True)
        ref, _ = PL.run_pipeline(duck, strain, keys)
        for got, want, which in ((iso, ref["iso"], "isothermal"), (adi, ref["adi"], "adiabatic")):
            if set(got) != set(keys):
                fails.append("%s values for %s instead of %s" % (which, sorted(got), keys))
                continue
            for k in keys:
                if not all(a.same(b) for (_, a), (_, b) in zip(entries(got[k]), entries(want[k]))):
                    fails.append("%s %s differs from the list request" % (which, k))
    except SymError as e:
        chk.inconclusive("iterable request", str(e))
        return
    except Exception as e:
        fails.append("raises %s: %s" % (type(e).__name__, e))
    chk.obligation("request given as a one-shot iterator: every requested component receives its value", "unsat" if not fails else "sat",
                   kind="completeness", detail=fails[:3])
    if fails:
        d = PL.float_duck(2, 6, 2, 2, rng)
        tl = tk.PhononContributionTaskList(d)
        try:
            with numpy.errstate(all="ignore"):
                tl.resolve(numpy.array([[0.25, 0.35, 0.40], [0.22, 0.36, 0.42]]), iter([c_(k[1:]) for k in keys]))
                tl.calculate()
                got = tl.get_isothermal_results()
            if len(got) != len(keys):
                chk.violation("request:one-shot-iterable", "resolve(strain, <iterator over %s>) + calculate(): get_isothermal_results() returns %d values "
                              "(the tasks are evaluated, the stored request is an exhausted iterator)" % (keys, len(got)), dict(keys=keys))
            else:
                chk.harness_error("iterable request: '%s' did not reproduce" % fails[0])
        except Exception as e:
            chk.violation("request:one-shot-iterable:raises", "%s: %s" % (type(e).__name__, e), dict(keys=keys))


def triple_strain_obligation(chk, tier, rng):
    """The strain may be one triple (e1, e2, e3) -- the form the signature (`strain: tuple`), the docstring and the shipped tutorial use --
    meaning the same fractions at every volume: same values as the (volumes x 3) table that repeats it."""
    tk, sh, ns, c_ = PL.modules()
    nv = 2
    ctx, duck, _ = make_problem(2, 3, nv, "sym")
    e = [ctx.var("tri_%d" % i, positive=True) for i in range(3)]
    table = symarray([list(e) for _ in range(nv)])
    keys = ["c11", "c12", "c44", "c15"]
    fails = []
    try:
        ref, _ = PL.run_pipeline(duck, table, keys)
        for label, form in (("tuple", tuple(e)), ("list", list(e)), ("1-D array", symarray(list(e)))):
            proxy = NumpyProxy()
            proxy.close_mode = "structural"

            def fn():
                with patched((tk, {"numpy": proxy}), (sh, {"numpy": proxy}), (ns, {"numpy": proxy})):
                    tl = tk.PhononContributionTaskList(duck)
                    tl.resolve(form, [c_(k[1:]) for k in keys])
                    tl.calculate()
                    return {"c%d%d" % k.v: v for k, v in tl.get_isothermal_results().items()}
            try:
                iso = X.run_single_path(fn, name="C04:triple", generic=True)
            except SymError:
                raise
            except Exception as ex_:
                fails.append("%s: raises %s: %s" % (label, type(ex_).__name__, str(ex_)[:80]))
                continue
            for k in keys:
                got = numpy.broadcast_to(numpy.asarray(iso[k], dtype=object), numpy.asarray(ref["iso"][k], dtype=object).shape)
                if not all(Sym.of(a).same(Sym.of(b)) or Z.prove_equal(Sym.of(a), Sym.of(b), name="C04:triple", timeout_ms=10000)[0] == "unsat"
                           for a, b in zip(got.ravel().tolist(), numpy.asarray(ref["iso"][k], dtype=object).ravel().tolist())):
                    fails.append("%s: %s differs from the repeated table" % (label, k))
    except SymError as e_:
        chk.inconclusive("strain triple", str(e_))
        return
    chk.obligation("strain given as one triple (tuple / list / 1-D array): the values of the table that repeats it at every volume", "unsat" if not fails else "sat",
                   kind="identity", detail=fails[:3])
    if fails:
        d = PL.float_duck(2, 3, 3, 2, rng)
        trip = (0.3, 0.33, 0.37)
        with numpy.errstate(all="ignore"):
            want, _, _ = PL.real_pipeline(d, numpy.tile(numpy.array(trip), (3, 1)), keys)
            for label, form in (("tuple", trip), ("list", list(trip)), ("1-D array", numpy.array(trip))):
                try:
                    tl = tk.PhononContributionTaskList(d)
                    tl.resolve(form, [c_(k[1:]) for k in keys])
                    tl.calculate()
                    got = {"c%d%d" % k.v: numpy.asarray(v) for k, v in tl.get_isothermal_results().items()}
                    dev = max(float(numpy.nanmax(numpy.abs(numpy.broadcast_to(got[k], want[k].shape)[1:] - want[k][1:]))) for k in keys)
                    if not dev <= 1e-12 * max(float(numpy.nanmax(numpy.abs(want[k][1:]))) for k in keys):
                        chk.violation("strain:triple:%s" % label, "resolve(%s, keys) gives other values than the table repeating the triple (max deviation %.3g)" % (label, dev), dict(keys=keys))
                        return
                except Exception as ex_:
                    chk.violation("strain:triple", "resolve((e1, e2, e3) given as a %s, keys) raises %s: %s -- the form the signature, the docstring and the shipped "
                                  "tutorial (task_list.resolve((1/3, 1/3, 1/3), [...])) use" % (label, type(ex_).__name__, str(ex_)[:80]), dict(keys=keys, strain=list(trip)))
                    return
        chk.harness_error("strain triple: '%s' did not reproduce" % fails[0])


def tighten(cond, rt, at):
    """Rebuild an allclose condition tree |a-b| <= at' + rt'|b| with the tight tolerances (same a, b)."""
    # the tree built by npproxy._close_cond:  or( and(y>=0, |d|<=at+rt*y), and(y<0, |d|<=at-rt*y) ) per element
    if cond[0] == "and" and len(cond) > 1 and cond[1][0] in ("or",):
        return ("and",) + tuple(tighten(c, rt, at) for c in cond[1:])
    if cond[0] == "or" and len(cond) == 3 and cond[1][0] == "and":
        ypos = cond[1][1]            # rel >= y
        y = ypos[2]
        absle = cond[1][2]           # and( d - (at+rt*y) <= 0 , -d - (at+rt*y) <= 0 )
        e1, e2 = absle[1][2], absle[2][2]
        d = (e1 - e2) / 2            # (d - t) - (-d - t) = 2d
        return X.cond_or(X.cond_and(X.cond_rel(">=", y), X.cond_abs_le(d, Sym.of(at) + y * rt)),
                         X.cond_and(X.cond_rel("<", y), X.cond_abs_le(d, Sym.of(at) - y * rt)))
    if cond[0] == "and" and len(cond) == 3 and cond[1][0] == "rel":
        return cond
    return cond


def validation(chk, rng):
    """Stage R(b): the symbolic pipeline result evaluated at a concrete point must reproduce the real float pipeline."""
    nq, np_, nv = 2, 3, 1
    ctx, duck, strain = make_problem(nq, np_, nv, "sym")
    keys = ["c11", "c12", "c44", "c15", "c36"]
    try:
        res, _ = PL.run_pipeline(duck, strain, keys)
    except Exception as e:
        chk.harness_error("validation symbolic run failed: %s" % e)
        return
    point = PC.random_env(ctx, rng)
    c = PC.concretise_duck(duck, point)
    fs = numpy.array([[Sym.of(x).evalf(dict(point)) for x in row] for row in strain])
    try:
        with numpy.errstate(all="ignore"):
            iso, adi, _ = PL.real_pipeline(c, fs, keys)
    except Exception as e:
        chk.violation("pipeline:raises", "real task pipeline raises %s: %s" % (type(e).__name__, str(e)[:150]), dict(keys=keys))
        return
    worst = 0.0
    for k in keys:
        for idx, s in entries(res["iso"][k]):
            if idx[0] == 0:
                continue
            worst = max(worst, PC.rel_diff(float(iso[k][idx]), s.evalf(dict(point)), floor=1e-12))
    chk.validation_points += 1
    if worst > 1e-6:
        chk.harness_error("symbolic pipeline does not reproduce the real float pipeline (rel %.3g)" % worst)


def main():
    tier = os.environ.get("VERIF_TIER", "quick")
    if len(sys.argv) > 1:
        tier = sys.argv[1]
    chk = Check("C04", tier, "symbolic execution of the real tasks.py + shear.py + nonshear.py pipeline on a symbolic duck calculator; "
                             "z3 identities (isotropy, axis covariance, request independence), forking exploration of the real "
                             "allclose de-duplication with solver-decided merge tolerance")
    tk, sh, ns, c_ = PL.modules()
    chk.encode(tk.PhononContributionTaskParams, tk.PhononContributionTaskResults, tk.PhononContributionTask, tk.PhononContributionTaskList)
    Z.reset_log()
    rng = random.Random(seed() + 4)
    validation(chk, rng)
    isotropy(chk, tier, rng)
    covariance(chk, tier, rng)
    completeness_and_independence(chk, tier, rng)
    merge_tolerance(chk, tier, rng)
    reuse_obligation(chk, tier, rng)
    iterable_request_obligation(chk, tier, rng)
    triple_strain_obligation(chk, tier, rng)
    chk.bound(shape="nq=2, np=3 (isotropy thorough: np=6, nv=2), nT=2 (T=0 and symbolic T)", request_sets="21 singletons, %s ordered pairs, "
              "full set in 3 orders, 9 crystal-system sets" % ("30 seeded" if tier == "quick" else "all 420"), path_budget=64)
    chk.stub("numpy.allclose in tasks.py: 'structural' cut (close iff structurally identical polynomials) for the identity obligations; "
             "real tolerance semantics decided by the solver in the merge-tolerance obligations")
    chk.stub("numpy.linalg.eigh -> real routine + exact algebraic lift")
    chk.assume("strain fractions generic (structurally different fractions are not within the allclose tolerance) except in merge-tolerance")
    chk.out_of_claim("request sets of size 3..20 other than those listed; array sizes beyond the bounds; rounding")
    return chk.finish(
        "The whole scheduler (queue, de-duplication, DiGraph, topological order, result lookup) runs for real on symbolic strains "
        "and spectra; every assembled component is a polynomial and z3 decides the isotropy relations, axis covariance and "
        "independence of the request; the approximate-equality de-duplication is explored path by path.")


if __name__ == "__main__":
    run_main(main)
