"""C03 -- shear components obtained by strain-energy rotation are exact tensor algebra."""
from __future__ import annotations

import itertools
import os
import random
import sys
import time

import numpy

from harness.common import Check, run_main, seed
from harness.fill_common import KEYS, key_of
from symnum import sym as S, solver as Z, executor as X
from symnum.sym import Sym, SymError, new_context, symvars
from symnum.npproxy import NumpyProxy, patched

SHEAR_KEYS = [k for k in KEYS if int(k[1]) >= 4 or int(k[2]) >= 4]


def rotated_component(T, C, a, b):
    """Oracle: C'_{aabb} = sum T_ia T_ja T_kb T_lb C_ijkl (harness's own 4-index expansion)."""
    acc = Sym({}) if isinstance(next(iter(C.values())), Sym) else 0.0
    for i, j, k, l in itertools.product(range(3), repeat=4):
        co = T[i, a] * T[j, a] * T[k, b] * T[l, b]
        if isinstance(co, Sym):
            if co.is_zero():
                continue
        elif co == 0:
            continue
        acc = acc + co * C[key_of(i + 1, j + 1, k + 1, l + 1)]
    return acc


def targets(t):
    return [Sym.of(x) for x in numpy.asarray(t, dtype=object).reshape(-1).tolist()]


def run_symbolic(sh, c_, ks, nv, frame=None, all_paths=False):
    """Real ShearElasticModulusPhononContribution for key ks on a symbolic tensor; frame = None (computed by the code)
    or (perm, signs, rot) applied to the computed exact frame and injected through the LazyProperty cache."""
    ctx = S.current()
    proxy = NumpyProxy()
    C = {k: ctx.var("C" + k[1:]) for k in KEYS}
    D = {k: ctx.var("D" + k[1:]) for k in KEYS}
    strain = symvars("e", (nv, 3), positive=True)
    key = c_(ks[1:])

    def fn():
        with patched((sh, {"numpy": proxy})):
            o = sh.ShearElasticModulusPhononContribution(strain, key)
            T = o.transformation_matrix
            lam = numpy.diagonal(o.fictitious_strain_rotated)
            if frame is not None:
                perm, signs, rot = frame
                T2 = numpy.empty((3, 3), dtype=object)
                lam2 = numpy.empty(3, dtype=object)
                for col, src in enumerate(perm):
                    T2[:, col] = T[:, src] * signs[col]
                    lam2[col] = lam[src]
                if rot is not None:
                    (a, b), c, s = rot   # rotate columns a, b (same eigenvalue) by (c, s)
                    ca, cb = T2[:, a].copy(), T2[:, b].copy()
                    T2[:, a] = ca * c + cb * s
                    T2[:, b] = cb * c - ca * s
                o2 = sh.ShearElasticModulusPhononContribution(strain, key)
                o2._transformation_matrix = T2
                d = numpy.empty((3, 3), dtype=object)
                d.fill(Sym({}))
                for i in range(3):
                    d[i, i] = lam2[i]
                o2._fictitious_strain_rotated = d
                o, T, lam = o2, T2, lam2
            sr = o.strain_rotated
            mk = o.get_modulus_keys()
            mkr = o.get_modulus_keys_rotated()
            o.modulus = {k: C["c%d%d" % k.v] for k in mk}
            o.modulus_rotated = {}
            bad_rot = [k for k in mkr if not (k.standard[0] == k.standard[1] and k.standard[2] == k.standard[3])]
            for k in mkr:
                i, j, kk, l = k.standard
                o.modulus_rotated[k] = rotated_component(T, C, i - 1, kk - 1)
            first = o.get_target_elastic_modulus()
            # the same solver object handed a second tensor (its inputs are plain attributes the caller assigns before each evaluation)
            o.modulus = {k: D["c%d%d" % k.v] for k in mk}
            o.modulus_rotated = {}
            for k in mkr:
                i, j, kk, l = k.standard
                o.modulus_rotated[k] = rotated_component(T, D, i - 1, kk - 1)
            second = o.get_target_elastic_modulus()
            return dict(target=first, target_again=second, sr=sr, mk=mk, mkr=mkr, T=T, lam=lam, bad_rot=bad_rot,
                        fs=o.fictitious_strain)

    paths = X.explore(fn, name="C03:" + ks, max_paths=8)
    out = []
    for p in paths:
        if p.exception is not None:
            if len(paths) == 1:
                raise p.exception
            out.append((p, None))
            continue
        res = p.result
        res["C"] = C
        res["D"] = D
        res["strain"] = strain
        res["proxy"] = proxy
        out.append((p, res))
    if all_paths:
        return out
    if len(out) != 1:
        raise SymError("C03:%s: a guard was not decided by the assumptions (unexpected fork)" % ks)
    return out[0][1]


def real_run(sh, c_, ks, rng, nv=2, given=None):
    """Stage R: the real class with real numpy on a random float tensor (or on the tensor / strains of a solver model)."""
    C = {k: rng.uniform(-50, 300) for k in KEYS}
    strain = numpy.array([[rng.uniform(0.1, 0.6) for _ in range(3)] for _ in range(nv)])
    if given:
        C = {k: float(given.get("C" + k[1:], C[k])) for k in KEYS}
        strain = numpy.array([[float(given.get("e_%d_%d" % (iv, a), strain[iv, a])) for a in range(3)] for iv in range(nv)])
    key = c_(ks[1:])
    o = sh.ShearElasticModulusPhononContribution(strain, key)
    T = numpy.asarray(o.transformation_matrix)
    mk = o.get_modulus_keys()
    mkr = o.get_modulus_keys_rotated()
    ones = numpy.ones(nv)
    o.modulus = {k: C["c%d%d" % k.v] * ones for k in mk}
    o.modulus_rotated = {}
    Tr = T.real if numpy.iscomplexobj(T) else T
    for k in mkr:
        i, j, kk, l = k.standard
        o.modulus_rotated[k] = rotated_component(Tr, C, i - 1, kk - 1) * ones
    got = o.get_target_elastic_modulus()
    sr = numpy.asarray(o.strain_rotated)
    return C, strain, got, sr, T, mk


def check_key(chk, sh, c_, ks, tier, rng):
    nv = 2
    ctx = new_context()
    t0 = time.time()
    try:
        all_ = run_symbolic(sh, c_, ks, nv, all_paths=True)
        if len(all_) > 1:
            # the code evaluates a guard on the data: the target identity must hold on both sides of it
            for pi, (p, r) in enumerate(all_):
                with X.path_assumptions(p):
                    if r is None:
                        v, env = Z.satisfiable([], name="%s:raising-path" % ks)
                        chk.obligation("%s:target==C_key[path %d of %d]" % (ks, pi, len(all_)), "sat", kind="identity",
                                       detail="raises %s" % type(p.exception).__name__)
                        replay(chk, sh, c_, ks, rng, "raises on a data-dependent path", env=env)
                        return
                    for iv, tgt in enumerate(targets(r["target"])):
                        v, env = Z.prove_zero(tgt - r["C"][ks], name="%s:target==C[path %d,v%d]" % (ks, pi, iv), timeout_ms=20000)
                        if v != "unsat":
                            chk.obligation("%s:target==C_key[path %d of %d: %s]" % (ks, pi, len(all_), [X.cond_str(c)[:60] for c in p.path_condition()][:1]),
                                           v, kind="identity")
                            if v == "sat":
                                replay(chk, sh, c_, ks, rng, "target differs from C_%s on a data-dependent path" % ks[1:], env=env)
                            else:
                                chk.inconclusive(ks, "target identity unknown on path %d" % pi)
                            return
            chk.note("%s: %d data-dependent paths, target identity holds on each" % (ks, len(all_)))
            chk.inconclusive(ks, "the code forks on the data (%d paths); frame-variant obligations are written for a single path" % len(all_))
            return
        base = all_[0][1]
    except SymError as e:
        chk.inconclusive(ks, "symbolic run: %s" % e)
        return
    except Exception as e:
        chk.note("%s: symbolic run raised %s: %s" % (ks, type(e).__name__, e))
        replay(chk, sh, c_, ks, rng, "symbolic run raised %s" % type(e).__name__)
        return
    C = base["C"]
    strain = base["strain"]
    ok = True
    # (1) target == C_key for every volume
    for iv, tgt in enumerate(targets(base["target"])):
        v, env = Z.prove_zero(tgt - C[ks], name="%s:target==C[F1,v%d]" % (ks, iv), timeout_ms=20000)
        chk.obligation("%s:target==C_key[computed frame,%d]" % (ks, iv), v, kind="identity")
        if v != "unsat":
            ok = False
            if v == "sat":
                replay(chk, sh, c_, ks, rng, "target differs from C_%s" % ks[1:], env=env)
            else:
                chk.inconclusive(ks, "target identity unknown")
            break
    # (1b) the same object evaluated again with a second tensor D: the value is D's component (nothing of the first evaluation is kept)
    if ok and base.get("target_again") is not None:
        again_ok = True
        for iv, tgt in enumerate(targets(base["target_again"])):
            v, env = Z.prove_zero(tgt - base["D"][ks], name="%s:target==D[again,v%d]" % (ks, iv), timeout_ms=20000)
            again_ok = again_ok and v == "unsat"
        chk.obligation("%s:solver object re-used with a second tensor: target == that tensor's component" % ks, "unsat" if again_ok else "sat", kind="history(reuse)")
        if not again_ok:
            try:
                C1, st1, got1, _, T1, mk1 = real_run(sh, c_, ks, rng)
                o = sh.ShearElasticModulusPhononContribution(st1, c_(ks[1:]))
                ones = numpy.ones(len(st1))
                vals = []
                for scale in (1.0, -0.37):
                    Cx = {k: scale * v + (0.0 if scale == 1.0 else 11.0) for k, v in C1.items()}
                    o.modulus = {k: Cx["c%d%d" % k.v] * ones for k in o.get_modulus_keys()}
                    Tr = numpy.real(numpy.asarray(o.transformation_matrix))
                    o.modulus_rotated = {k: rotated_component(Tr, Cx, k.standard[0] - 1, k.standard[2] - 1) * ones for k in o.get_modulus_keys_rotated()}
                    vals.append((float(numpy.asarray(o.get_target_elastic_modulus()).ravel()[0]), Cx[ks]))
                if abs(vals[1][0] - vals[1][1]) > 1e-8 * (1 + abs(vals[1][1])):
                    chk.violation("%s:reuse" % ks, "one ShearElasticModulusPhononContribution evaluated for a second tensor returns %.8g for %s, that tensor's component is %.8g "
                                  "(the first tensor's was %.8g)" % (vals[1][0], ks, vals[1][1], vals[0][1]), dict(key=ks))
                else:
                    chk.harness_error("%s: re-use mismatch did not reproduce on the real code" % ks)
            except Exception as e:
                chk.harness_error("%s: re-use replay failed: %s" % (ks, e))
    # (2) requested components
    key = c_(ks[1:])
    if key in base["mk"]:
        chk.obligation("%s:target-not-requested" % ks, "sat", kind="structural")
        chk.violation("%s:asks-for-target" % ks, "get_modulus_keys() of %s contains the target itself" % ks, dict(key=ks))
    elif base["bad_rot"]:
        chk.obligation("%s:rotated-keys-nonshear" % ks, "sat", kind="structural")
        chk.violation("%s:rotated-asks-shear" % ks, "get_modulus_keys_rotated() of %s contains shear-type keys %s" % (ks, base["bad_rot"]),
                      dict(key=ks))
    else:
        chk.obligation("%s:requested-keys[target excluded; rotated keys longitudinal/off-diagonal]" % ks, "unsat", kind="structural",
                       detail=dict(keys=[repr(k) for k in base["mk"]], rotated=[repr(k) for k in base["mkr"]]))
    # (3) rotated axial strains = diag(T^T diag(e) T), trace preserved
    T = base["T"]
    sr = numpy.asarray(base["sr"], dtype=object)
    good = True
    for iv in range(nv):
        tot = Sym({})
        for a in range(3):
            want = Sym({})
            for i in range(3):
                want = want + T[i, a] * T[i, a] * strain[iv, i]
            v, env = Z.prove_zero(Sym.of(sr[iv, a]) - want, name="%s:strain_rotated[%d,%d]" % (ks, iv, a), timeout_ms=10000)
            good = good and v == "unsat"
            tot = tot + Sym.of(sr[iv, a])
        v, env = Z.prove_zero(tot - (strain[iv, 0] + strain[iv, 1] + strain[iv, 2]), name="%s:trace[%d]" % (ks, iv), timeout_ms=10000)
        good = good and v == "unsat"
    chk.obligation("%s:strain_rotated==diag(T^T diag(e) T),trace-preserved" % ks, "unsat" if good else "sat", kind="identity")
    if not good:
        replay(chk, sh, c_, ks, rng, "rotated strains wrong", strain_only=True)
    # (3b) the same for a single strain triple (1-D array of three fractions, the form the constructor documents)
    if tier != "quick" or ks in ("c44", "c15", "c26", "c36"):
        e1 = symvars("s", (3,), positive=True)
        proxy1 = NumpyProxy()
        try:
            def fn1():
                with patched((sh, {"numpy": proxy1})):
                    o1 = sh.ShearElasticModulusPhononContribution(e1, key)
                    return numpy.asarray(o1.strain_rotated, dtype=object), o1.transformation_matrix
            sr1, T1 = X.run_single_path(fn1, name="C03:%s:1d" % ks)
            good1 = sr1.shape == (3,)
            if good1:
                for a in range(3):
                    want = Sym({})
                    for i in range(3):
                        want = want + T1[i, a] * T1[i, a] * e1[i]
                    good1 = good1 and Z.prove_zero(Sym.of(sr1[a]) - want, name="%s:strain_rotated-1d[%d]" % (ks, a), timeout_ms=10000)[0] == "unsat"
        except SymError as e:
            good1 = None
            chk.inconclusive(ks, "1-D strain run: %s" % e)
        except Exception as e:
            good1 = False
        if good1 is not None:
            # the same triple as a plain tuple (the constructor is annotated Tuple[float, float, float])
            try:
                def fn2():
                    with patched((sh, {"numpy": proxy1})):
                        return numpy.asarray(sh.ShearElasticModulusPhononContribution(tuple(e1), key).strain_rotated, dtype=object)
                sr2 = X.run_single_path(fn2, name="C03:%s:tuple" % ks)
                good1 = good1 and sr2.shape == (3,) and all(Sym.of(a).same(b) for a, b in zip(sr2, sr1))
            except SymError:
                pass
            except Exception:
                good1 = False
            chk.obligation("%s:strain_rotated==diag(T^T diag(e) T) for a single strain triple (1-D input)" % ks, "unsat" if good1 else "sat", kind="identity")
            if not good1:
                try:
                    ef = numpy.array([0.2, 0.3, 0.5])
                    o2 = sh.ShearElasticModulusPhononContribution(ef, key)
                    Tf = numpy.real(numpy.asarray(o2.transformation_matrix))
                    got = numpy.real(numpy.asarray(o2.strain_rotated))
                    wantf = numpy.einsum("ia,i,ia->a", Tf, ef, Tf)
                    try:
                        got_t = numpy.real(numpy.asarray(sh.ShearElasticModulusPhononContribution((0.2, 0.3, 0.5), key).strain_rotated))
                        tuple_ok = got_t.shape == (3,) and numpy.abs(got_t - wantf).max() < 1e-12
                    except Exception as e_t:
                        chk.violation("strain-triple-as-tuple", "ShearElasticModulusPhononContribution((0.2, 0.3, 0.5), %s).strain_rotated raises %s: %s -- the strain "
                                      "triple given as a plain tuple, as the constructor's annotation says" % (ks, type(e_t).__name__, e_t), dict(key=ks))
                        tuple_ok = True
                    if tuple_ok and got.shape == (3,) and numpy.abs(got - wantf).max() <= 1e-12:
                        pass
                    elif got.shape != (3,) or numpy.abs(got - wantf).max() > 1e-12:
                        chk.violation("%s:strain-rotated-1d" % ks, "strain_rotated of %s for the single strain triple [0.2, 0.3, 0.5] is %s, diag(T^T diag(e) T) is %s"
                                      % (ks, got.tolist(), wantf.tolist()), dict(key=ks))
                    else:
                        chk.harness_error("%s: 1-D strain_rotated mismatch did not reproduce" % ks)
                except Exception as e:
                    chk.violation("%s:strain-rotated-1d:raises" % ks, "strain_rotated raises %s: %s for a single strain triple" % (type(e).__name__, e), dict(key=ks))
    # (4) other diagonalising frames: sign patterns and column orders; symbolic rotation in a degenerate eigenspace
    lam_f = [float(S._try_numeric(Sym.of(x))) for x in base["lam"]]
    perms = list(itertools.permutations(range(3)))
    signsets = list(itertools.product((1, -1), repeat=3))
    variants = [(p, s_, None) for p in perms for s_ in signsets]
    if tier == "quick":
        rng2 = random.Random(seed() + hash(ks) % 1000)
        variants = rng2.sample(variants[1:], 5)
    base_multiset = sorted((round(lam_f[a], 9), tuple(Sym.of(sr[iv, a]).key() for iv in range(nv))) for a in range(3))
    nvar = 0
    good = True
    t1 = time.time()
    for fr in variants:
        try:
            alt = run_symbolic(sh, c_, ks, nv, frame=fr)
        except Exception as e:
            chk.inconclusive(ks, "frame variant run failed: %s" % e)
            good = False
            break
        nvar += 1
        for tgt in targets(alt["target"]):
            v, env = Z.prove_zero(tgt - C[ks], name="%s:target==C[F2]" % ks, timeout_ms=20000)
            if v != "unsat":
                good = False
        lam2 = [float(S._try_numeric(Sym.of(x))) for x in alt["lam"]]
        sr2 = numpy.asarray(alt["sr"], dtype=object)
        ms = []
        for a in range(3):
            # strain_rotated entries compared through the solver-normalised form: use exact polynomial keys after reduction
            ms.append((round(lam2[a], 9), tuple(Sym.of(sr2[iv, a]).key() for iv in range(nv))))
        if sorted(ms) != base_multiset:
            # fall back to solver equality per matching eigenvalue
            for a in range(3):
                cands = [b for b in range(3) if abs(lam_f[b] - lam2[a]) < 1e-9]
                hit = False
                for b in cands:
                    if all(Z.prove_zero(Sym.of(sr2[iv, a]) - Sym.of(sr[iv, b]), name="%s:frame-multiset" % ks)[0] == "unsat" for iv in range(nv)):
                        hit = True
                if not hit and len(cands) == 1:
                    good = False
        if not good:
            break
    chk.obligation("%s:all-sign/order-frames[%d variants]:target==C_key,rotated-strain-multiset-invariant" % (ks, nvar),
                   "unsat" if good else "sat", seconds=round(time.time() - t1, 2), kind="identity")
    if not good:
        replay(chk, sh, c_, ks, rng, "result depends on eigenvector sign/order")
    # degenerate eigenvalue: symbolic rotation inside the eigenspace
    deg = [(a, b) for a in range(3) for b in range(a + 1, 3) if abs(lam_f[a] - lam_f[b]) < 1e-9]
    if deg:
        ctx2 = S.current()
        c = ctx2.var("rot_c", lo=-2, hi=2)
        s_ = ctx2.var("rot_s", lo=-2, hi=2)
        ctx2.assume("==", c * c + s_ * s_ - 1)
        t1 = time.time()
        try:
            alt = run_symbolic(sh, c_, ks, nv, frame=((0, 1, 2), (1, 1, 1), (deg[0], c, s_)))
            good = True
            for tgt in targets(alt["target"]):
                v, env = Z.prove_zero(tgt - C[ks], name="%s:target==C[rotation family]" % ks, timeout_ms=30000)
                if v != "unsat":
                    good = False
                    verdict = v
            chk.obligation("%s:degenerate-eigenspace-rotation-family(c,s;c^2+s^2=1):target==C_key" % ks, "unsat" if good else verdict,
                           seconds=round(time.time() - t1, 2), kind="identity", logic="QF_NRA")
            if not good and verdict == "unknown":
                chk.inconclusive(ks, "rotation family unknown")
            elif not good:
                replay(chk, sh, c_, ks, rng, "result depends on the basis chosen in a degenerate eigenspace")
            w, _ = Z.witness([("!=", c), ("!=", s_)], name=ks + ":rotation-witness")
            chk.witness(ks + ":rotation-family-nontrivial", w)
        except Exception as e:
            chk.inconclusive(ks, "rotation family run failed: %s" % e)
        del ctx2.assumptions[:]
    if ks in ("c15", "c44"):
        chk.sample(dict(key=ks, frame=[[str(x) for x in row] for row in T], eigenvalues=[str(x) for x in base["lam"]],
                        asked=[repr(k) for k in base["mk"]], asked_rotated=[repr(k) for k in base["mkr"]]))


_replayed = set()


def replay(chk, sh, c_, ks, rng, what, env=None, strain_only=False):
    if ks in _replayed:
        return
    for attempt in range(5):
        if attempt == 0 and not env:
            continue
        try:
            with numpy.errstate(all="ignore"):
                C, strain, got, sr, T, mk = real_run(sh, c_, ks, rng, given=env if attempt == 0 else None)
        except Exception as e:
            _replayed.add(ks)
            chk.violation("%s:raises" % ks, "real ShearElasticModulusPhononContribution(%s) raises %s: %s" % (ks, type(e).__name__, str(e)[:150]),
                          dict(key=ks))
            return
        got = numpy.asarray(got)
        if numpy.iscomplexobj(got) and numpy.abs(got.imag).max() > 0:
            _replayed.add(ks)
            chk.violation("%s:complex" % ks, "target of %s has a non-zero imaginary part" % ks, dict(key=ks, tensor=C))
            return
        gotr = numpy.real(got).reshape(-1)
        scale = max(abs(x) for x in C.values())
        if numpy.abs(gotr - C[ks]).max() > 1e-10 * scale + 1e-300:
            _replayed.add(ks)
            chk.violation("%s:deviates" % ks, "real shear solver returns %s for %s of a tensor whose component is %.10g"
                          % (gotr.tolist(), ks, C[ks]), dict(key=ks, tensor=C, strain=strain.tolist()))
            return
        Tr = numpy.real(T)
        want = numpy.einsum("ia,vi,ia->va", Tr, strain, Tr)
        if numpy.abs(numpy.real(sr) - want).max() > 1e-9 or abs(numpy.real(sr).sum() - strain.sum()) > 1e-9:
            _replayed.add(ks)
            chk.violation("%s:strain-rotated" % ks, "strain_rotated of %s is not diag(T^T diag(e) T)" % ks,
                          dict(key=ks, strain=strain.tolist(), got=numpy.real(sr).tolist(), want=want.tolist()))
            return
        if c_(ks[1:]) in mk:
            _replayed.add(ks)
            chk.violation("%s:asks-for-target" % ks, "get_modulus_keys() contains the target", dict(key=ks))
            return
    chk.harness_error("%s: '%s' did not reproduce on the real code" % (ks, what))


def validation(chk, sh, c_, rng):
    """Stage R(b): every key once through the real class with real numpy."""
    for ks in SHEAR_KEYS:
        try:
            with numpy.errstate(all="ignore"):
                C, strain, got, sr, T, mk = real_run(sh, c_, ks, rng)
            got = numpy.asarray(got)
            bad = numpy.abs(numpy.real(got).reshape(-1) - C[ks]).max() > 1e-7 * 300
            if bad or (numpy.iscomplexobj(got) and numpy.abs(got.imag).max() > 0):
                replay(chk, sh, c_, ks, rng, "validation deviates")
            chk.validation_points += 1
        except Exception as e:
            replay(chk, sh, c_, ks, rng, "validation raises")


def main():
    tier = os.environ.get("VERIF_TIER", "quick")
    if len(sys.argv) > 1:
        tier = sys.argv[1]
    chk = Check("C03", tier, "symbolic execution of the real shear.py class on a symbolic 21-component tensor with the eigen-frame lifted "
                             "to exact algebraic numbers (rt2, rt5, nested radicals); z3 (QF_NRA, linear in C) decides target == C_key")
    import cij.core.phonon_contribution.shear as sh
    from cij.util import c_
    chk.encode(sh.ShearElasticModulusPhononContribution, sh.calculate_fictitious_strain_energy, sh.get_fictitious_strain_energy_keys)
    Z.reset_log()
    rng = random.Random(seed() + 3)
    for ks in SHEAR_KEYS:
        check_key(chk, sh, c_, ks, tier, rng)
    validation(chk, sh, c_, rng)
    chk.bound(keys=SHEAR_KEYS, volumes=2, frames="computed frame + %s sign/order variants per key + symbolic rotation family for degenerate keys"
              % ("5 seeded" if tier == "quick" else "all 48"))
    chk.stub("numpy.linalg.eig/eigh -> the real routine on the concrete fictitious strain, output matched column by column to the exact "
             "sympy eigen-system and lifted to algebraic atoms (exactly verified: M v = lambda v, orthonormality)")
    chk.assume("modulus_rotated holds the oracle-rotated components C'_aabb computed by the harness's own 4-index contraction")
    chk.out_of_claim("floating-point non-orthogonality of the computed frame (1e-16); frames that do not diagonalise the strain")
    return chk.finish(
        "All 21 tensor components are symbolic at once, so each unsat verdict covers every real symmetric fourth-rank tensor; per key "
        "z3 decides target - C_key == 0 modulo the defining equations of the algebraic frame entries, for the frame the code computes, "
        "for sign/order variants and for the rotation family in degenerate eigenspaces.")


if __name__ == "__main__":
    run_main(main)
