"""C05 -- total modulus = interpolated static table + phonon part (wiring of the real orchestration, kernels uninterpreted)."""
from __future__ import annotations

import os
import random
import sys
import time
from fractions import Fraction

import numpy
import cij.core.phonon_contribution.nonshear as NS

from harness.common import Check, run_main, seed
from harness import phonon_common as PC
from harness import pipeline as PL
from harness.c15 import unit_constants
from symnum import sym as S, solver as Z, executor as X
from symnum.sym import Sym, SymError, new_context, symvars, symarray
from symnum.npproxy import NumpyProxy, patched


class FitHandle:
    """What the uninterpreted numpy.polyfit returns: remembers (nodes, values, degree)."""

    def __init__(self, x, y, deg):
        self.x, self.y, self.deg = numpy.asarray(x, dtype=object), numpy.asarray(y, dtype=object), deg


def make_stubs(ctx):
    rec = dict(interp=[], plsq=[])

    def eps(v0, v):
        v = numpy.asarray(v, dtype=object)
        out = numpy.empty(v.shape, dtype=object)
        for idx in numpy.ndindex(*v.shape):
            out[idx] = ctx.uf("eps", [Sym.of(v0), Sym.of(v[idx])])
        return out

    def polyfit(x, y, deg, *a, **kw):
        if a or kw:
            raise SymError("polyfit stub: unexpected extra arguments %s %s" % (a, kw))
        return FitHandle(x, y, deg)

    def polyval(p, x):
        if not isinstance(p, FitHandle):
            return numpy.polyval(p, x)
        x = numpy.asarray(x, dtype=object)
        out = numpy.empty(x.shape, dtype=object)
        for idx in numpy.ndindex(*x.shape):
            out[idx] = ctx.uf("LSQ", [p.x, p.y, p.deg, Sym.of(x[idx])])
        return out

    def plsq(xs, ys, new_xs, order=3):
        # contract of the installed qha.fitting.polynomial_least_square_fitting: returns the fitted values at new_xs
        rec["plsq"].append((xs, ys, new_xs, order))
        new_xs = numpy.asarray(new_xs, dtype=object)
        out = numpy.empty(new_xs.shape, dtype=object)
        for idx in numpy.ndindex(*new_xs.shape):
            out[idx] = ctx.uf("LSQE", [numpy.asarray(xs, dtype=object), numpy.asarray(ys, dtype=object), order, Sym.of(new_xs[idx])])
        return out

    return eps, polyfit, polyval, plsq, rec


def build(ctx, cc, lattice, nvol, ntv, nt, nq, np_, keys, system="triclinic"):
    """Calculator with symbolic data objects, created without file parsing or the QHA run."""
    import cij.io.traditional.models as md
    import cij.io.traditional.elast_dat as ed
    from cij.util import c_
    calc = object.__new__(cc.Calculator)
    vols = [ctx.var("Vin_%d" % i, positive=True) for i in range(nvol)]
    ener = [ctx.var("Ein_%d" % i) for i in range(nvol)]
    wts = [ctx.var("wq_%d" % i, positive=True) for i in range(nq)]
    volumes = []
    for i in range(nvol):
        qps = [md.QPointData((0.0, 0.0, float(j)), [ctx.var("win_%d_%d_%d" % (i, j, k), positive=True) for k in range(np_)]) for j in range(nq)]
        volumes.append(md.VolumeData(ctx.var("Pin_%d" % i), vols[i], ener[i], qps))
    qin = md.QHAInputData(nvol, nq, np_, 1, np_ // 3, [((0.0, 0.0, float(j)), wts[j]) for j in range(nq)], volumes)
    evols = [ctx.var("Vel_%d" % i, positive=True) for i in range(nvol)]
    tab = {k: [ctx.var("tab_%s_%d" % (k, i)) for i in range(nvol)] for k in keys}
    lat = [[ctx.var("lat_%d_%d" % (i, a), positive=True) for a in range(3)] for i in range(nvol)] if lattice else []
    edata = ed.ElastData(evols[0], nvol, ctx.var("mcell", positive=True),
                         [ed.ElastVolumeData(evols[i], {c_(k[1:]): tab[k][i] for k in keys}) for i in range(nvol)],
                         [tuple(r) for r in lat])
    q = PC.Obj()
    q.t_array = symarray([0] + [ctx.var("T%d" % i, positive=True) for i in range(1, nt)])
    q.v_array = symvars("Vg", (ntv,), positive=True)
    q.volume_base = PC.Obj()
    q.volume_base.v_array, q.volume_base.t_array = q.v_array, q.t_array
    q.volume_base.pressures = symvars("Ptv", (nt, ntv))
    q.volume_base.heat_capacity = symvars("CV", (nt, ntv), positive=True)
    calc.__dict__.update(dict(
        config={"elast": {"settings": {"symmetry": {"system": system}, "mode_gamma": {"interpolator": "lsq_poly", "order": 3}}},
                "qha": {"settings": {}}, "output": {}},
        qha_input=qin, elast_data=edata, qha_calculator=q))
    return calc, dict(vols=vols, ener=ener, wts=wts, evols=evols, tab=tab, lat=lat, q=q, qin=qin)


CUBIC_EQUIV = {"c22": "c11", "c33": "c11", "c13": "c12", "c23": "c12", "c55": "c44", "c66": "c44"}


def run_case(chk, cc, fm, lattice, tier, rng, system=None, nvol=5):
    name = ("lattice-block" if lattice else "no-lattice-block") + (", system=%s" % system if system else "") + (", %d volumes" % nvol if nvol != 5 else "")
    ntv, nt, nq, np_ = 4, 2, 2, 3
    keys = ["c11", "c12", "c44", "c14"] if tier == "quick" else ["c11", "c22", "c33", "c12", "c13", "c23", "c44", "c55", "c66", "c15", "c46"]
    if system == "cubic":
        keys = ["c11", "c12", "c44"]
    ctx = new_context()
    H, K, _ = PC.declare_constants(ctx)
    gpa, ang3 = unit_constants()
    FROMGPA = ctx.var("FROMGPA", positive=True, kind="const")
    ctx.vars["FROMGPA"]["value_hint"] = 1 / gpa
    ctx.name_float(1 / gpa, FROMGPA, rtol=1e-8, max_den=64)
    calc, D = build(ctx, cc, lattice, nvol, ntv, nt, nq, np_, keys, system=system or "triclinic")
    import cij.util.fill as FILL
    proxy_fill = NumpyProxy()
    proxy_fill.close_mode = "structural"
    q = D["q"]
    eps, polyfit, polyval, plsq, rec = make_stubs(ctx)
    OM = symvars("OM", (ntv, nq, np_), positive=True)
    GA = symvars("GA", (ntv, nq, np_))
    DE = symvars("DE", (ntv, nq, np_))
    for a in (OM, GA, DE):
        a[:, 0, 0:3] = Sym({})

    def interp_stub(qha_input, v_array, method="spline", order=None):
        rec["interp"].append((qha_input, v_array, method, order))
        return OM, GA, DE

    proxy_fm = NumpyProxy()
    proxy_fm.close_mode = "structural"
    proxy_fm.polyfit_impl = polyfit
    proxy_fm.extra["polyval"] = polyval
    proxy_cc = NumpyProxy()
    proxy_cc.close_mode = "structural"
    tk, sh, ns, c_ = PL.modules()
    proxy_pl = NumpyProxy()
    proxy_pl.close_mode = "structural"

    real_axial = fm.FullThermalElasticModulus.get_axial_strains
    FR = symvars("frac", (ntv, 3), positive=True)
    captured = {}

    def axial_wrapper(self):
        # the real method runs (its value is obligation (2)); downstream it is abstracted by fresh positive symbols so that the
        # composition identity is decided for every value of the fractions (cut: keeps the polynomials small)
        captured["strains"] = real_axial(self)
        return FR if lattice else captured["strains"]

    def fn():
        with patched((cc, {"numpy": proxy_cc, "interpolate_modes": interp_stub, "calculate_eulerian_strain": eps,
                           "polynomial_least_square_fitting": plsq}),
                     (fm, {"numpy": proxy_fm, "calculate_eulerian_strain": eps}),
                     (fm.FullThermalElasticModulus, {"get_axial_strains": axial_wrapper}),
                     (FILL, {"numpy": proxy_fill}),
                     (tk, {"numpy": proxy_pl}), (sh, {"numpy": proxy_pl}), (NS, {"numpy": proxy_pl})):
            calc._apply_elastic_constants_symmetry()
            calc._interpolate_modes()
            calc.nv, calc.np, calc.nq, calc.na = calc.qha_input.nv, calc.qha_input.np, calc.qha_input.nq, calc.qha_input.na
            calc.volume_based_result = cc.CijVolumeBaseInterface(calc)
            calc.pressure_based_result = cc.CijPressureBaseInterface(calc)
            calc._calculate_pressure_static()
            calc._process_cij()
            return dict(iso=dict(calc.modulus_isothermal), adi=dict(calc.modulus_adiabatic), pst=calc.static_p_array,
                        strains=captured["strains"])

    t0 = time.time()
    try:
        res = X.run_single_path(fn, name="C05:" + name, generic=True)
    except SymError as e:
        # an undecided guard stops the symbolic run: look at the real code on concrete data before calling it inconclusive
        replay_end_to_end(chk, rng, "symbolic run stopped: %s" % e, static_rows=nvol if nvol != 5 else None)
        chk.inconclusive(name, str(e))
        return
    except Exception as e:
        chk.note("%s: orchestration raised %s: %s on symbolic data" % (name, type(e).__name__, e))
        chk.obligation("%s: constructor sequence runs" % name, "sat", kind="wiring", detail=str(e))
        replay_end_to_end(chk, rng, "orchestration raises %s: %s" % (type(e).__name__, e))
        return
    fails = []
    # interpolation call wiring
    if len(rec["interp"]) != 1 or rec["interp"][0][0] is not D["qin"] or rec["interp"][0][1] is not q.v_array \
            or rec["interp"][0][2] != "lsq_poly" or rec["interp"][0][3] != 3:
        fails.append("interpolate_modes is not called once with (the phonon data, the QHA volume grid, configured method, configured order)")
    # static pressure
    E = numpy.empty(ntv, dtype=object)
    xs = eps(D["vols"][0], numpy.array(D["vols"], dtype=object))
    for i in range(ntv):
        E[i] = ctx.uf("LSQE", [xs, numpy.array(D["ener"], dtype=object), 3, eps(D["vols"][0], numpy.array([q.v_array[i]], dtype=object))[0]])
    want_p = -proxy_cc.gradient(E) / proxy_cc.gradient(q.v_array)
    pst = numpy.asarray(res["pst"], dtype=object)
    if pst.shape != (ntv,) or not all(Z.prove_equal(Sym.of(a), Sym.of(b), name="C05:pst")[0] == "unsat" for a, b in zip(pst, want_p)):
        fails.append("static pressure is not -gradient(LSQ(E over eulerian strain of the input volumes, order 3))/gradient(v)")
    # strain fractions
    ev = D["evols"]
    exs = eps(ev[0], numpy.array(ev, dtype=object))
    gx = eps(ev[0], q.v_array)
    if lattice:
        want_s = numpy.empty((ntv, 3), dtype=object)
        for a in range(3):
            yy = numpy.array([ev[i] * D["lat"][i][a] for i in range(nvol)], dtype=object)
            p = numpy.array([ctx.uf("LSQ", [exs, yy, 3, gx[j]]) / q.v_array[j] for j in range(ntv)], dtype=object)
            ext = [p[0]] + list(p) + [p[-1]]
            for j in range(ntv):
                want_s[j, a] = (ext[j + 2] - ext[j]) / (ext[j + 2] + ext[j])
        tot = want_s.sum(axis=1)
        want_frac = want_s / tot[:, None]
        got_s = numpy.asarray(res["strains"], dtype=object)
        okf = got_s.shape == (ntv, 3) and all(
            Z.prove_equal(Sym.of(a), Sym.of(b), name="C05:strain")[0] == "unsat" for a, b in zip(got_s.ravel(), want_frac.ravel()))
        if not okf:
            fails.append("axial strain fractions are not the normalised centred log-derivatives of the fitted axis lengths")
        strain_for_pipeline = FR
    else:
        got_s = numpy.asarray(res["strains"], dtype=object)
        if got_s.shape != (ntv, 3) or not all(Sym.of(x).same(1) for x in got_s.ravel()):
            fails.append("without lattice block the axial strains are not all equal")
        strain_for_pipeline = symarray(numpy.ones((ntv, 3)))
    # expected phonon part: the C01-C04 pipeline on exactly the data the files would supply
    duck = PC.Obj()
    duck.nq, duck.np, duck.nv, duck.na = nq, np_, nvol, np_ // 3
    duck.t_array, duck.v_array = q.t_array, q.v_array
    duck.freq_array = OM
    duck.mode_gamma = [DE, GA, GA ** 2]
    duck.qha_input = D["qin"]
    duck.static_p_array = want_p
    duck.qha_calculator = q
    try:
        ph, _ = PL.run_pipeline(duck, strain_for_pipeline, keys)
    except Exception as e:
        chk.inconclusive(name, "expected-phonon run failed: %s" % e)
        return
    if system == "cubic":
        # the filling must have been applied first: nine components, dependent ones equal to their symmetry partners
        got_keys = sorted("c%d%d" % k.v for k in res["iso"])
        if got_keys != sorted(keys + list(CUBIC_EQUIV)):
            fails.append("after cubic filling the tensor has components %s" % got_keys)
        for kk, src in CUBIC_EQUIV.items():
            D["tab"][kk] = D["tab"][src]
        keys = keys + [k for k in CUBIC_EQUIV if "c%s" % k[1:] in got_keys]
        try:
            ph, _ = PL.run_pipeline(duck, strain_for_pipeline, keys)
        except Exception as e:
            chk.inconclusive(name, "expected-phonon run (filled keys) failed: %s" % e)
            return
    static_syms = {n for n in ctx.vars if n.startswith("tab_")}
    t_syms = {n for n in ctx.vars if n.startswith("T") and n[1:].isdigit()}
    for which in ("iso", "adi"):
        for k in keys:
            got = numpy.asarray(res[which][c_(k[1:])], dtype=object)
            yy = numpy.array([ev[i] * (D["tab"][k][i] * FROMGPA) for i in range(nvol)], dtype=object)
            st = numpy.array([ctx.uf("LSQ", [exs, yy, 3, gx[j]]) / q.v_array[j] for j in range(ntv)], dtype=object)
            want = st[None, :] + numpy.asarray(ph[which][k], dtype=object)
            if got.shape != want.shape:
                fails.append("%s modulus %s has shape %s" % (which, k, got.shape))
                continue
            for idx in numpy.ndindex(*want.shape):
                v, env = Z.prove_equal(Sym.of(got[idx]), Sym.of(want[idx]), name="C05:%s:%s" % (which, k), timeout_ms=20000)
                if v != "unsat":
                    fails.append("%s modulus %s != cubic-in-strain fit of V*c(V) (GPa->au) / v + phonon contribution" % (which, k))
                    break
            # independence: static part carries no temperature symbol, phonon part no static-table symbol
            for j in range(ntv):
                if Z._closure_vars(Sym.of(st[j])) & t_syms:
                    fails.append("static part depends on temperature")
            phv = numpy.asarray(ph[which][k], dtype=object)
            if any(Z._closure_vars(Sym.of(x)) & static_syms for x in phv.ravel()):
                fails.append("phonon part depends on the static table")
    chk.obligation("%s: modulus = LSQ3(eps(V0,V), V*c*(GPa->au))(eps(V0,v))/v + phonon pipeline on (interpolated spectrum, [dgamma, gamma, gamma^2], "
                   "weights, atom count, strain fractions); static P; strain fractions; supports [%d keys x iso/adi]" % (name, len(keys)),
                   "unsat" if not fails else "sat", seconds=round(time.time() - t0, 1), kind="wiring(uninterpreted kernels)", detail=fails[:4])
    chk.witness(name + ":reached", "sat")
    chk.sample(dict(case=name, keys=keys, isothermal_c11=Sym.of(numpy.asarray(res["iso"][c_("11")], dtype=object)[1, 1]).short(3)))
    if fails:
        replay_end_to_end(chk, rng, fails[0], static_rows=nvol if nvol != 5 else None)


_done = set()


def reduced_example(rows):
    """The akimotoite example with the static table thinned to `rows` volumes (lower end of the 4-12 volumes the statement quantifies over)."""
    import shutil
    import tempfile
    src = os.path.join(os.environ.get("CIJ_REPO", "/repo"), "examples", "akimotoite")
    tmp = tempfile.mkdtemp(prefix="c05ex_")
    for f in ("settings.yaml", "input01"):
        shutil.copy(os.path.join(src, f), tmp)
    lines = open(os.path.join(src, "input02")).read().split("\n")
    n = int(lines[1].split()[1])
    keep = sorted(set(int(round(i * (n - 1) / (rows - 1))) for i in range(rows)))
    head = lines[1].split()
    head[1] = str(len(keep))
    out = [lines[0], " ".join(head), lines[2]] + [lines[3 + i] for i in keep]
    rest = lines[3 + n:]
    lat_at = next((i for i, l in enumerate(rest) if l.strip() and not l.strip()[0].isdigit()), None)
    if lat_at is not None:
        lat_rows = [l for l in rest[lat_at + 1:] if l.strip()]
        out += rest[:lat_at + 1] + [lat_rows[i] for i in keep if i < len(lat_rows)]
    with open(os.path.join(tmp, "input02"), "w") as fp:
        fp.write("\n".join(out) + "\n")
    return tmp


def replay_end_to_end(chk, rng, what, static_rows=None):
    """Stage R: the real Calculator on a shipped example, compared with an independent float reference built from the
    same files (own parser-free route: the data objects the real readers return, numpy polyfit, the real phonon classes)."""
    if static_rows in _done:
        return
    _done.add(static_rows)
    import warnings
    import cij.core.calculator as cc
    from cij.util import c_
    ex = os.path.join(os.environ.get("CIJ_REPO", "/repo"), "examples", "akimotoite", "settings.yaml")
    tmp_ex = None
    if static_rows:
        tmp_ex = reduced_example(static_rows)
        ex = os.path.join(tmp_ex, "settings.yaml")
    try:
        _replay_end_to_end(chk, rng, what, ex, cc, c_, warnings, static_rows)
    finally:
        if tmp_ex:
            import shutil
            shutil.rmtree(tmp_ex, ignore_errors=True)


def _replay_end_to_end(chk, rng, what, ex, cc, c_, warnings, static_rows):
    label = "examples/akimotoite/settings.yaml" + (" (static table thinned to %d volumes)" % static_rows if static_rows else "")
    try:
        with warnings.catch_warnings():
            warnings.simplefilter("ignore")
            import logging
            logging.disable(logging.CRITICAL)
            calc = cc.Calculator(ex)
            logging.disable(logging.NOTSET)
    except Exception as e:
        import logging
        logging.disable(logging.NOTSET)
        chk.violation("end-to-end:raises", "Calculator(%s) raises %s: %s" % (label, type(e).__name__, str(e)[:160]),
                      dict(settings=label))
        return
    try:
        gpa, ang3 = unit_constants()
        vols = numpy.array([v.volume for v in calc.elast_data.volumes])
        v = calc.v_array
        strain = lambda v0, x: 0.5 * ((v0 / x) ** (2.0 / 3) - 1)
        worst = None
        for key in calc.modulus_keys:
            tab = numpy.array([vol.static_elastic_modulus[key] for vol in calc.elast_data.volumes]) / gpa
            p = numpy.polyfit(strain(vols[0], vols), vols * tab, 3)
            st = numpy.polyval(p, strain(vols[0], v)) / v
            ph = calc._full_modulus._isothermal_phonon_contribution[key]
            dev = numpy.abs(calc.modulus_isothermal[key] - (st[None, :] + ph)).max() / numpy.abs(st).max()
            if dev > 1e-9:
                worst = (key, dev)
        if worst:
            chk.violation("end-to-end:static-part", "%s: isothermal %r minus its phonon part is not the cubic finite-strain fit of V*c(V) (rel %.3g)" % ((label,) + worst),
                          dict(settings=label))
            return
        # static P
        vin = numpy.array([x.volume for x in calc.qha_input.volumes])
        ein = numpy.array([x.energy for x in calc.qha_input.volumes])
        pe = numpy.polyfit(strain(vin[0], vin), ein, 3)
        eg = numpy.polyval(pe, strain(vin[0], v))
        ps = -numpy.gradient(eg) / numpy.gradient(v)
        if numpy.abs(ps - calc.static_p_array).max() > 1e-7 * numpy.abs(ps).max():
            chk.violation("end-to-end:static-pressure", "static pressure differs from -dE/dV of the cubic fit of the input energies", {})
            return
        # crystal-system filling applied first: the components are those of the symmetry-filled table
        sysname = calc.config["elast"]["settings"]["symmetry"].get("system")
        if sysname and sysname != "triclinic":
            import pandas
            import cij.io.traditional as trd
            from cij.util.fill import fill_cij
            raw = trd.read_elast_data(os.path.join(os.path.dirname(ex), calc.config["elast"]["input"]))
            tabdf = pandas.DataFrame([{("c%d%d" % k.v): val for k, val in vol.static_elastic_modulus.items()} for vol in raw.volumes])
            with warnings.catch_warnings():
                warnings.simplefilter("ignore")
                filled = fill_cij(tabdf, sysname)
            if sorted("c%d%d" % k.v for k in calc.modulus_keys) != sorted(filled.columns):
                chk.violation("end-to-end:symmetry-fill", "requested crystal system %s: the calculation uses components %s, the filled table has %s" % (
                    sysname, sorted("c%d%d" % k.v for k in calc.modulus_keys), sorted(filled.columns)), dict(system=sysname))
                return
        # phonon part: the real phonon classes fed with what the files supply, wired as the property states
        import cij.core.mode_gamma as mg
        cfg = calc.config["elast"]["settings"]["mode_gamma"]
        fr, ga, vd = mg.interpolate_modes(calc.qha_input, v, method=cfg["interpolator"], order=cfg["order"])
        duck = PC.Obj()
        duck.nq, duck.np, duck.nv, duck.na = calc.qha_input.nq, calc.qha_input.np, calc.qha_input.nv, calc.qha_input.na
        duck.t_array, duck.v_array = calc.t_array, v
        duck.freq_array = fr
        duck.mode_gamma = [vd, ga, ga ** 2]
        duck.qha_input = calc.qha_input
        duck.static_p_array = ps
        duck.qha_calculator = calc.qha_calculator
        lat = numpy.array(calc.elast_data.lattice_parmeters)
        if len(lat):
            fr_s = numpy.zeros((len(v), 3))
            for a in range(3):
                pa = numpy.polyval(numpy.polyfit(strain(vols[0], vols), vols * lat[:, a], 3), strain(vols[0], v)) / v
                ext = numpy.concatenate(([pa[0]], pa, [pa[-1]]))
                fr_s[:, a] = (ext[2:] - ext[:-2]) / (ext[2:] + ext[:-2])
            fr_s = fr_s / fr_s.sum(axis=1, keepdims=True)
        else:
            fr_s = numpy.ones((len(v), 3))
        keys = ["c%d%d" % k.v for k in calc.modulus_keys]
        with numpy.errstate(all="ignore"):
            iso_ref = {k: PL.reference_phonon(duck, fr_s, k, "iso") for k in keys}     # direct recursion, independent of tasks.py
            adi_ref = {k: PL.reference_phonon(duck, fr_s, k, "adi") for k in keys}
        for key in calc.modulus_keys:
            k = "c%d%d" % key.v
            for nm, got, ref in (("isothermal", calc._full_modulus._isothermal_phonon_contribution[key], iso_ref[k]),
                                 ("adiabatic", calc._full_modulus._adiabatic_phonon_contribution[key], adi_ref[k])):
                sc = max(numpy.abs(ref[1:-4]).max(), 1e-6 * numpy.abs(iso_ref[keys[0]][1:-4]).max()) + 1e-300
                dev = numpy.abs(numpy.asarray(got)[1:-4] - ref[1:-4]).max() / sc
                if not dev < 1e-7:
                    chk.violation("end-to-end:phonon-part", "%s phonon part of %s differs from the phonon pipeline evaluated on the data the files "
                                  "supply (spectrum, [dgamma, gamma, gamma^2], weights, atom count, lattice-derived strain fractions): rel %.3g"
                                  % (nm, k, dev), dict(settings="examples/akimotoite/settings.yaml", key=k))
                    return
    except Exception as e:
        chk.harness_error("end-to-end reference failed: %s: %s" % (type(e).__name__, e))
        return
    chk.harness_error("C05: '%s' did not reproduce on the shipped example" % what)


def config_history_twin(chk, cc):
    """Stage R(c), history twin: two Calculator loads in one process.  The real Calculator._load (real read_config /
    apply_default_config, file readers and QHA adapter replaced by recorders) is run for settings file A and then for settings file B;
    the grid / interpolation settings B's calculation receives must be 'B over the packaged defaults' -- nothing of A."""
    import tempfile
    import shutil
    import yaml
    import copy
    import cij.data
    tmp = tempfile.mkdtemp(prefix="c05cfg_")
    try:
        A = {"qha": {"input": "input01", "settings": {"NT": 7, "DT": 33.0, "NTV": 13, "volume_ratio": 1.37, "order": 4}},
             "elast": {"input": "input02", "settings": {"mode_gamma": {"interpolator": "krogh", "order": 2}, "symmetry": {"system": "cubic"}}}}
        B = {"qha": {"input": "input01", "settings": {"DT": 50.0}}, "elast": {"input": "input02"}}
        for nm, cfg in (("a.yaml", A), ("b.yaml", B)):
            with open(os.path.join(tmp, nm), "w") as fp:
                yaml.safe_dump(cfg, fp)
        with open(cij.data.get_data_fname("default/settings.yaml")) as fp:
            defaults = yaml.load(fp, Loader=yaml.FullLoader)

        def merge(u, d):
            out = copy.deepcopy(d)
            for k, v in u.items():
                out[k] = merge(v, d[k]) if isinstance(v, dict) and isinstance(d.get(k), dict) else copy.deepcopy(v)
            return out
        seen = []
        fake_trad = PC.Obj()
        fake_trad.read_energy = lambda fn: PC.Obj()
        fake_trad.read_elast_data = lambda fn: "elast"
        real_io = cc.cij.io

        class IO:
            read_config = staticmethod(real_io.read_config)
            apply_default_config = staticmethod(real_io.apply_default_config)
            traditional = fake_trad

        class FakeCij:
            io = IO

        def adapter(settings, qha_input):
            seen.append(copy.deepcopy(settings))
            return "adapter"

        def replace_stub(self, **kw):
            return self
        PC.Obj._replace = replace_stub
        PC.Obj.volumes = []
        got = {}
        with patched((cc, {"cij": FakeCij, "QHACalculatorAdapter": adapter})):
            for nm in ("a.yaml", "b.yaml"):
                calc = object.__new__(cc.Calculator)
                calc._load(os.path.join(tmp, nm))
                got[nm] = copy.deepcopy(calc.config)
        want = merge(B, defaults)
        bad = []
        for sect, sub in (("qha", "settings"), ("elast", "settings")):
            if got["b.yaml"][sect][sub] != want[sect][sub]:
                diff = {k: (got["b.yaml"][sect][sub].get(k), want[sect][sub].get(k)) for k in set(got["b.yaml"][sect][sub]) | set(want[sect][sub])
                        if got["b.yaml"][sect][sub].get(k) != want[sect][sub].get(k)}
                bad.append("%s.%s: %s" % (sect, sub, diff))
        if seen and seen[-1] != want["qha"]["settings"]:
            bad.append("QHA adapter received %s" % {k: v for k, v in seen[-1].items() if want["qha"]["settings"].get(k) != v})
        if bad:
            chk.violation("history:configuration-leak", "a second Calculator load in the same process does not get 'its settings over the packaged "
                          "defaults' (got, expected): %s" % "; ".join(bad)[:300], dict(first=A, second=B))
        else:
            chk.side_check("history twin: settings of a second Calculator load are its own file over the packaged defaults", True)
    except Exception as e:
        chk.note("config history twin not executed: %s: %s" % (type(e).__name__, e))
    finally:
        for attr in ("_replace", "volumes"):
            if hasattr(PC.Obj, attr):
                delattr(PC.Obj, attr)
        shutil.rmtree(tmp, ignore_errors=True)


def qha_layer_wiring(chk, rng):
    """What reaches the QHA layer: (a) the real QHACalculatorAdapter._load_qha_calculator hands every grid setting of the settings file
    to the QHA calculator unchanged (identical objects) on top of qha's own defaults, and the phonon data object unchanged to read_input;
    (b) the real QHACalculator.read_input places volumes, static energies, frequencies [volume, q, mode], weights and the formula-unit
    number from the right fields of the data object (symbolic contents)."""
    import cij.core.qha_adapter as qa
    import cij.io.traditional.models as md
    from qha.settings import DEFAULT_SETTINGS
    chk.encode(qa.QHACalculatorAdapter._load_qha_calculator, qa.QHACalculator.read_input)
    keys = ["NT", "DT", "T_MIN", "NTV", "DELTA_P", "P_MIN", "volume_ratio", "order", "static_only", "DT_SAMPLE", "DELTA_P_SAMPLE"]
    sentinels = {k: 9000.125 + 17 * i for i, k in enumerate(keys)}       # pairwise distinct, unlike any default
    seen = {}

    class Rec:
        def __init__(self, settings):
            seen["settings"] = dict(settings)
            self.settings = dict(settings)
            self.temperature_array = numpy.arange(10.0)
            self.desired_pressures_gpa = numpy.arange(3.0)
            self.temperature_sample_array = numpy.arange(3.0)
            self.pressure_sample_array = numpy.arange(3.0)
            self.where_negative_frequencies = None
            self.v_ratio = 1.2

        def read_input(self, x):
            seen["input"] = x

        def refine_grid(self):
            pass

        def desired_pressure_status(self):
            pass
    marker = object()
    fails = []
    try:
        import logging
        logging.disable(logging.CRITICAL)
        with patched((qa, {"QHACalculator": Rec})):
            qa.QHACalculatorAdapter._load_qha_calculator(dict(sentinels), marker)
    except Exception as e:
        fails.append("raises %s: %s" % (type(e).__name__, e))
    finally:
        logging.disable(logging.NOTSET)
    if not fails:
        got = seen.get("settings", {})
        for k in keys:
            if got.get(k) != sentinels[k]:
                fails.append("setting %s does not reach the QHA calculator as given" % k)
        for k, v in DEFAULT_SETTINGS.items():
            if k not in keys and got.get(k) != v:
                fails.append("qha default %s is altered to %r" % (k, got.get(k)))
        if set(got) - set(DEFAULT_SETTINGS) - set(keys):
            fails.append("extra settings %s" % sorted(set(got) - set(DEFAULT_SETTINGS) - set(keys)))
        if seen.get("input") is not marker:
            fails.append("read_input does not receive the phonon data object of the calculation")
    chk.obligation("QHA layer: every grid setting reaches the QHA calculator unchanged on top of qha's defaults; read_input receives the data object",
                   "unsat" if not fails else "sat", kind="wiring", detail=fails[:3])
    if fails:
        chk.violation("qha-layer:settings", "settings / data do not reach the QHA calculator as given: %s" % "; ".join(fails[:3]), {})
    # (b) read_input on symbolic data
    ctx = new_context()
    nv, nq, np_ = 3, 2, 3
    Vv = symvars("Vq", (nv,), positive=True)
    Ev = symvars("Eq", (nv,))
    Pv = symvars("Pq", (nv,))
    W = symvars("wq", (nv, nq, np_))
    wt = symvars("wtq", (nq,), positive=True)
    vols = [md.VolumeData(Pv[i], Vv[i], Ev[i], [md.QPointData((0.0, 0.0, 0.1 * j), list(W[i, j])) for j in range(nq)]) for i in range(nv)]
    qin = md.QHAInputData(nv, nq, np_, 7, np_ // 3, [md.QPointWeight((0.0, 0.0, 0.1 * j), wt[j]) for j in range(nq)], vols)
    f2 = []
    try:
        calc = object.__new__(qa.QHACalculator)
        qa.QHACalculator.read_input(calc, qin)
        order = [next(i for i in range(nv) if Sym.of(v).same(Vv[i])) for v in calc._volumes]      # whatever order the layer keeps
        if sorted(order) != list(range(nv)):
            f2.append("volumes are not the file's volumes")
        for pos, i in enumerate(order):
            if not Sym.of(calc._static_energies[pos]).same(Ev[i]):
                f2.append("static energy at position %d is not the energy of that volume block" % pos)
            fr = numpy.asarray(calc._frequencies, dtype=object)
            if fr.shape != (nv, nq, np_) or not all(Sym.of(fr[pos, j, k]).same(W[i, j, k]) for j in range(nq) for k in range(np_)):
                f2.append("frequencies at position %d are not indexed [volume, q, mode] of that block" % pos)
        if not all(Sym.of(a).same(b) for a, b in zip(numpy.asarray(calc._q_weights, dtype=object), wt)):
            f2.append("q-point weights")
        if calc._formula_unit_number != 7:
            f2.append("formula unit number is %r instead of nm" % (calc._formula_unit_number,))
    except Exception as e:
        f2.append("raises %s: %s" % (type(e).__name__, e))
    chk.obligation("QHA layer: read_input places volumes, energies, frequencies[volume, q, mode], weights and nm from the right fields (symbolic data)",
                   "unsat" if not f2 else "sat", kind="wiring", detail=f2[:3])
    if f2:
        chk.violation("qha-layer:read-input", "QHACalculator.read_input mis-places the phonon data: %s" % "; ".join(f2[:3]), {})


def main():
    tier = os.environ.get("VERIF_TIER", "quick")
    if len(sys.argv) > 1:
        tier = sys.argv[1]
    chk = Check("C05", tier, "symbolic execution of the real orchestration (calculator.py, full_modulus.py, tasks.py and below) with the numeric "
                             "kernels (mode interpolation, Eulerian strain, least-squares fits) as uninterpreted functions; z3 equality of "
                             "each modulus with the stated composition; variable-support checks")
    import cij.core.calculator as cc
    import cij.core.full_modulus as fm
    chk.encode(cc.Calculator._interpolate_modes, cc.Calculator._calculate_pressure_static, cc.Calculator._process_cij,
               cc.Calculator._apply_elastic_constants_symmetry, fm.FullThermalElasticModulus)
    Z.reset_log()
    rng = random.Random(seed() + 5)
    run_case(chk, cc, fm, False, tier, rng)
    run_case(chk, cc, fm, True, tier, rng)
    run_case(chk, cc, fm, False, tier, rng, system="cubic")
    run_case(chk, cc, fm, False, tier, rng, nvol=4)      # lower end of the quantifier: 4 volumes (cubic fit exactly determined)
    if tier != "quick":
        run_case(chk, cc, fm, True, tier, rng, nvol=4)
        run_case(chk, cc, fm, False, tier, rng, nvol=7)
    config_history_twin(chk, cc)
    qha_layer_wiring(chk, rng)
    # stage R(b): one real end-to-end run (catches constructor-level failures the stubs cannot see)
    if None not in _done:
        import warnings
        import logging
        ex = os.path.join(os.environ.get("CIJ_REPO", "/repo"), "examples", "akimotoite", "settings.yaml")
        try:
            with warnings.catch_warnings():
                warnings.simplefilter("ignore")
                logging.disable(logging.CRITICAL)
                calc = cc.Calculator(ex)
            chk.validation_points += 1
            chk.side_check("Calculator(examples/akimotoite/settings.yaml) constructs", True)
        except Exception as e:
            _done.add(None)
            chk.violation("end-to-end:raises", "Calculator(examples/akimotoite/settings.yaml) raises %s: %s" % (type(e).__name__, str(e)[:160]),
                          dict(settings="examples/akimotoite/settings.yaml"))
        finally:
            logging.disable(logging.NOTSET)
    chk.bound(input_volumes=5, grid_volumes=4, temperatures=2, q_points=2, modes=3, cases=["no lattice block", "lattice block"])
    chk.stub("interpolate_modes -> fresh (omega, gamma, dgamma) symbol arrays (its own behaviour is C11)")
    chk.stub("calculate_eulerian_strain -> eps(v0, v); numpy.polyfit/polyval -> LSQ(nodes, values, degree)(x); "
             "polynomial_least_square_fitting -> LSQE(nodes, values, order)(x) with the installed qha's return contract")
    chk.out_of_claim("text parsing of the three files; that the kernels compute what their names say (qha, LAPACK, scipy); crystal-system "
                     "filling is C08/C09; grid settings")
    return chk.finish("With congruent uninterpreted kernels a wiring slip (wrong column, unit direction, c vs V*c, axis pairing, order of "
                      "[dgamma, gamma, gamma^2], reference volume) changes an argument of some kernel application and the z3 equality "
                      "fails for every implementation of the kernels.")


if __name__ == "__main__":
    run_main(main)
