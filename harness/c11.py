"""C11 -- every interpolation method returns a consistent (omega, gamma, V dgamma/dV) triple."""
from __future__ import annotations

import inspect
import os
import random
import sys
import time
import warnings
from fractions import Fraction

import numpy

from harness.common import Check, run_main, seed
from harness import phonon_common as PC
from symnum import sym as S, solver as Z, executor as X
from symnum.sym import Sym, SymError, new_context, symvars, symarray
from symnum.npproxy import NumpyProxy, patched

METHODS = {"spline": [2, 3, 4, 5], "lagrange": [2, 3, 4, 6], "krogh": [2, 3, 6], "pchip": [2, 3, 6], "akima": [2, 3, 6], "hermite": [2, 3, 6],
           "lsq_poly": [1, 2, 3, 4, 5]}


class Interp:
    """Uninterpreted smooth interpolant built from (kind, nodes, values, keyword arguments)."""

    def __init__(self, kind, x, y, kwargs, nu=0, extrapolates=True):
        self.kind, self.x, self.y, self.kwargs, self.nu = kind, numpy.asarray(x, dtype=object), numpy.asarray(y, dtype=object), kwargs, nu
        self.extrapolates = extrapolates      # contract of the installed library class (probed), unless the caller asks for extrapolation

    def ident(self):
        return (self.kind, tuple(Sym.of(a).key() for a in self.x), tuple(Sym.of(a).key() for a in self.y), tuple(sorted(self.kwargs.items())))

    def _eval(self, xs, nu, extrapolate=None):
        ctx = S.current()
        extrapolates = self.extrapolates if extrapolate is None else bool(extrapolate)
        xs = numpy.asarray(xs, dtype=object)
        out = numpy.empty(xs.shape, dtype=object)
        nodes = [S._try_numeric(Sym.of(a)) for a in self.x.ravel()]
        for idx in numpy.ndindex(*xs.shape):
            xv = S._try_numeric(Sym.of(xs[idx]))
            if not extrapolates and xv is not None and all(n is not None for n in nodes) and not (min(nodes) <= xv <= max(nodes)):
                out[idx] = ctx.fresh_undef()        # the library returns NaN outside the node range
                continue
            out[idx] = ctx.uf("F", [self.kind, self.x, self.y, repr(sorted(self.kwargs.items())), self.nu + nu, Sym.of(xs[idx])])
        return out

    def __call__(self, xs, nu=0, extrapolate=None, **kw):
        if kw:
            raise SymError("interpolant stub: unexpected call arguments %s" % kw)
        return self._eval(xs, nu, extrapolate)

    def derivative(self, *args, **kw):
        """scipy's two meanings of `derivative`: UnivariateSpline / PPoly classes return the n-th derivative as a new callable,
        KroghInterpolator / BarycentricInterpolator evaluate the der-th derivative at xs."""
        if self.kind in ("UnivariateSpline", "InterpolatedUnivariateSpline", "PchipInterpolator", "Akima1DInterpolator", "CubicHermiteSpline", "CubicSpline") \
                and (not args or numpy.ndim(args[0]) == 0):
            n = int(args[0]) if args else int(kw.get("n", kw.get("nu", 1)))
            return Interp(self.kind, self.x, self.y, self.kwargs, nu=self.nu + n, extrapolates=self.extrapolates)
        xs = args[0]
        der = args[1] if len(args) > 1 else kw.get("der", 1)
        return self._eval(xs, der)

    def derivatives(self, xs, der=None):
        """KroghInterpolator.derivatives: rows 0 .. der-1 are the derivatives of that order at xs."""
        if der is None:
            raise SymError("interpolant stub: derivatives() without an order is not modelled")
        rows = [self._eval(xs, k) for k in range(int(der))]
        out = numpy.empty((int(der),) + numpy.asarray(xs, dtype=object).shape, dtype=object)
        for k, r in enumerate(rows):
            out[k] = r
        return out

    def deriv(self, m=1):
        """numpy.poly1d API (scipy.interpolate.lagrange returns a poly1d): the m-th derivative as a callable of the same kind."""
        return Interp(self.kind, self.x, self.y, self.kwargs, nu=self.nu + int(m), extrapolates=self.extrapolates)


def make_scipy_stub(real_interpolate, created):
    """A stand-in for scipy.interpolate whose classes mirror the real constructors' signatures."""
    ns = PC.Obj()

    def mk(kind):
        real = getattr(real_interpolate, kind)
        sig = inspect.signature(real.__init__ if inspect.isclass(real) else real)
        # contract probe: does the installed class return NaN outside its node range by default?
        try:
            with numpy.errstate(all="ignore"):
                probe = real(numpy.arange(6.0), numpy.arange(6.0) ** 2)
                nan_outside = bool(numpy.isnan(numpy.asarray(probe(7.5), dtype=float)).any())
        except Exception:
            nan_outside = False

        def ctor(*a, **kw):
            if inspect.isclass(real):
                bound = sig.bind(None, *a, **kw)     # raises TypeError exactly when the real constructor would (arity)
            else:
                bound = sig.bind(*a, **kw)
            args = dict(bound.arguments)      # only what the caller passed (defaults are not part of the identity)
            args.pop("self", None)
            x = args.pop("x", None)
            y = args.pop("y", args.pop("w", None))
            if "xi" in args:
                x = args.pop("xi")
                y = args.pop("yi")
            extra = {k: repr(v) for k, v in args.items() if v is not None and k not in ("axis", "extrapolate", "check_finite", "ext", "bbox", "s", "w")}
            obj = Interp(kind, x, y, extra, extrapolates=(bool(args["extrapolate"]) if args.get("extrapolate") is not None else not nan_outside))
            created.append(obj)
            return obj
        return ctor

    for kind in ("UnivariateSpline", "KroghInterpolator", "PchipInterpolator", "Akima1DInterpolator", "CubicHermiteSpline", "lagrange"):
        setattr(ns, kind, mk(kind))
    return ns


def expected_nodes(method, order, volumes, freqs):
    v = numpy.asarray(volumes, dtype=object)
    f = numpy.asarray(freqs, dtype=object)
    if method != "spline":
        interval = int(numpy.ceil(len(v) / order))
        v, f = v[::interval], f[::interval]
    lx = numpy.array([Sym.of(a).log() for a in v[::-1]], dtype=object)
    ly = numpy.array([Sym.of(a).log() for a in f[::-1]], dtype=object)
    return lx, ly


def triple_obligations(chk, mg, tier, rng):
    import scipy.interpolate as real_si
    nvol, ntv = 7, 3
    for method, orders in METHODS.items():
        if method == "lsq_poly":
            continue
        for order in (orders if tier != "quick" else orders[:2]):
            name = "%s[order=%d]" % (method, order)
            ctx = new_context()
            vols = symvars("V", (nvol,), positive=True)
            freqs = symvars("w", (nvol,), positive=True)
            v_array = symvars("v", (ntv,), positive=True)
            created = []
            stub = make_scipy_stub(real_si, created)
            proxy = NumpyProxy()

            def polyder(p, m=1):
                if isinstance(p, Interp):
                    return Interp(p.kind, p.x, p.y, p.kwargs, nu=p.nu + m)
                return numpy.polyder(p, m)
            proxy.extra["polyder"] = polyder
            scipy_stub = PC.Obj()
            scipy_stub.interpolate = stub

            def fn():
                with patched((mg, {"numpy": proxy, "scipy": scipy_stub})):
                    if method == "spline":
                        return mg.interpolate_mode_spline(vols, freqs, v_array, order=order)
                    if method == "lagrange":
                        return mg.interpolate_mode_lagrange(vols, freqs, v_array, order=order)
                    if method == "krogh":
                        return mg.interpolate_mode_krogh(vols, freqs, v_array, order=order)
                    return mg.interpolate_mode_ppoly(vols, freqs, v_array, method=method, order=order)
            t0 = time.time()
            try:
                out = X.run_single_path(fn, name="C11:" + name)
            except SymError as e:
            # an undecided guard stops the symbolic run: look at the real code on concrete data before calling it inconclusive
                replay_method(chk, mg, method, order, rng, "symbolic run stopped: %s" % e)
                chk.inconclusive(name, str(e))
                continue
            except Exception as e:
                chk.obligation(name + ": triple from one interpolant", "sat", kind="identity", detail="raises %s: %s" % (type(e).__name__, e))
                replay_method(chk, mg, method, order, rng, "raises %s: %s" % (type(e).__name__, e))
                continue
            fails = []
            if len(created) != 1:
                fails.append("%d interpolants constructed" % len(created))
            else:
                it = created[0]
                lx, ly = expected_nodes(method, order, vols, freqs)
                kind = {"spline": "UnivariateSpline", "lagrange": "lagrange", "krogh": "KroghInterpolator", "pchip": "PchipInterpolator",
                        "akima": "Akima1DInterpolator", "hermite": "CubicHermiteSpline"}[method]
                kw = {"k": repr(order)} if method == "spline" else {}
                ref = Interp(kind, lx, ly, kw)
                if it.ident() != ref.ident():
                    fails.append("interpolant is not built from (flip(ln V), flip(ln omega)) with the documented node selection")
                lnv = numpy.array([Sym.of(a).log() for a in v_array], dtype=object)
                want = (numpy.array([x.exp() for x in ref._eval(lnv, 0)], dtype=object), -ref._eval(lnv, 1), -ref._eval(lnv, 2))
                for i, nm in enumerate(("omega", "gamma", "V dgamma/dV")):
                    got = numpy.asarray(out[i], dtype=object)
                    if got.shape != want[i].shape or not all(
                            Z.prove_equal(Sym.of(a), Sym.of(b), name="C11:%s:%s" % (name, nm))[0] == "unsat" for a, b in zip(got, want[i])):
                        fails.append("%s is not %s of the interpolant" % (nm, ("exp(F)", "-F'", "-F''")[i]))
            chk.obligation(name + ": (omega, gamma, V dgamma/dV) == (exp F, -F', -F'') of ONE interpolant on (flip ln V, flip ln omega)",
                           "unsat" if not fails else "sat", seconds=round(time.time() - t0, 2), kind="identity(uninterpreted interpolant)", detail=fails)
            if fails:
                replay_method(chk, mg, method, order, rng, fails[0])
    chk.sample(dict(method="spline", order=3, nodes="flip(ln V_1..7)", triple="(exp F(ln v), -F'(ln v), -F''(ln v))"))


def extrapolation_obligations(chk, mg, tier, rng):
    """Defined on the whole extrapolated grid: concrete sampled volumes, a concrete volume grid reaching beyond both ends by the usual
    expansion ratio, symbolic frequencies.  The interpolant stubs carry the extrapolation contract of the installed library classes
    (probed): a class that returns NaN outside its node range poisons those grid points unless the code asks it to extrapolate."""
    import scipy.interpolate as real_si
    vols = numpy.array([420.0, 400.0, 380.0, 360.0, 340.0, 320.0, 300.0, 280.0])
    v_array = numpy.array([420.0 * 1.2, 430.0, 419.0, 350.0, 281.0, 275.0, 280.0 / 1.2])
    for method, orders in METHODS.items():
        if method in ("lsq_poly", "hermite"):
            continue
        for order in (orders[:2] if tier == "quick" else orders):
            name = "%s[order=%d]: defined on the extrapolated volume grid" % (method, order)
            ctx = new_context()
            freqs = symvars("w", (len(vols),), positive=True)
            created = []
            stub = make_scipy_stub(real_si, created)
            proxy = NumpyProxy()
            proxy.extra["polyder"] = lambda p_, m=1: Interp(p_.kind, p_.x, p_.y, p_.kwargs, nu=p_.nu + m, extrapolates=p_.extrapolates) if isinstance(p_, Interp) else numpy.polyder(p_, m)
            sstub = PC.Obj()
            sstub.interpolate = stub

            def fn():
                with patched((mg, {"numpy": proxy, "scipy": sstub})):
                    if method == "spline":
                        return mg.interpolate_mode_spline(vols, freqs, v_array, order=order)
                    if method == "lagrange":
                        return mg.interpolate_mode_lagrange(vols, freqs, v_array, order=order)
                    if method == "krogh":
                        return mg.interpolate_mode_krogh(vols, freqs, v_array, order=order)
                    return mg.interpolate_mode_ppoly(vols, freqs, v_array, method=method, order=order)
            try:
                out = X.run_single_path(fn, name="C11:" + name)
            except SymError as e:
                chk.inconclusive(name, str(e))
                continue
            except Exception as e:
                chk.obligation(name, "sat", kind="definedness", detail="raises %s: %s" % (type(e).__name__, e))
                replay_method(chk, mg, method, order, rng, "raises %s: %s" % (type(e).__name__, e))
                continue
            undefined = [(i, j) for i in range(3) for j, x in enumerate(numpy.asarray(out[i], dtype=object)) if Sym.of(x).poison]
            chk.obligation(name, "unsat" if not undefined else "sat", kind="definedness",
                           detail=dict(undefined_grid_points=sorted(set(float(v_array[j]) for _, j in undefined))) if undefined else None)
            if undefined:
                replay_method(chk, mg, method, order, rng, "undefined (NaN) values on the extrapolated grid")


def lsq_obligations(chk, mg, tier, rng):
    """lsq_poly with concrete volumes: for ln omega = sum_d a_d (ln V)^d (d <= order) the triple is (exp p, -p', -p'') exactly."""
    from symnum.exactlift import exact_lstsq
    cases = []
    for order in (METHODS["lsq_poly"] if tier != "quick" else [1, 3]):
        # the number of sampled volumes matters: order = nv - 1 is the exactly determined (interpolating) fit, which is admissible
        for nvol in ([order + 1, 7] if tier == "quick" else [order + 1, order + 2, 7, 9]):
            if (order, nvol) not in cases and nvol >= 2:
                cases.append((order, nvol))
    # history: other orders on the SAME sampled volumes one after the other in one process (a fit that remembers anything of an earlier call
    # on these volumes -- e.g. its design matrix -- fails the later ones)
    n_plain = len(cases)
    cases += [(1, 8), (3, 8), (2, 8), (3, 8)]       # 8 volumes: a volume set no earlier case has used
    for ci, (order, nvol) in enumerate(cases):
        vols_f = numpy.array([400.0 - 25.0 * i for i in range(nvol)])
        earlier = [o for o, n in cases[n_plain:ci] if n == nvol] if ci >= n_plain else []
        name = "lsq_poly[order=%d, nv=%d%s]" % (order, nvol, ", after orders %s on the same volumes" % earlier if ci >= n_plain else "")
        ctx = new_context()
        freqs = symvars("w", (nvol,), positive=True)
        v_array = symvars("v", (2,), positive=True)
        proxy = NumpyProxy()

        dyadic = numpy.array([6.0 - i / 8.0 for i in range(nvol)])

        def log_stub(x):
            # ln of the concrete sampled volumes is taken to be exactly these dyadic numbers (their powers up to 5 are exact doubles,
            # so the Vandermonde matrix the code builds in floats is the exact one); symbolic arguments become log atoms
            if isinstance(x, numpy.ndarray) and x.dtype != object and x.shape == vols_f.shape and numpy.array_equal(x, vols_f):
                return dyadic.copy()
            return numpy.log(x)
        proxy.extra["log"] = log_stub
        # the design matrix is concrete (log of concrete volumes); lstsq is the exact least-squares specification
        def fn():
            with patched((mg, {"numpy": proxy})):
                return mg.interpolate_mode_lsq_poly(vols_f, freqs, v_array, order=order)
        t0 = time.time()
        try:
            ex = X.Explorer(max_paths=4, name="C11:" + name)
            # numpy.poly1d trims leading zero coefficients with `!=`: explore the generic side only (recorded cut)
            ex.prefer = lambda cond: (True if cond[1] == "!=" else (False if cond[1] == "==" else None)) if cond[0] == "rel" else None
            paths = ex.run(fn)
            if len(paths) != 1 or paths[0].exception is not None:
                raise paths[0].exception or SymError("unexpected fork")
            out = paths[0].result
        except SymError as e:
        # an undecided guard stops the symbolic run: look at the real code on concrete data before calling it inconclusive
            replay_method(chk, mg, "lsq_poly", order, rng, "symbolic run stopped: %s" % e, nvol=nvol, earlier=earlier)
            chk.inconclusive(name, str(e))
            continue
        except Exception as e:
            chk.obligation(name, "sat", kind="identity", detail="raises %s: %s" % (type(e).__name__, e))
            replay_method(chk, mg, "lsq_poly", order, rng, "raises %s" % e, nvol=nvol, earlier=earlier)
            continue
        a = [ctx.var("a%d" % d) for d in range(order + 1)]
        lx = dyadic
        sub = {}
        for i in range(nvol):
            li = Sym.of(freqs[i]).log()
            nm = list(li.variables())[0]
            xi = Sym.of(Fraction(float(lx[i])))
            sub[nm] = sum((a[d] * xi ** d for d in range(order + 1)), Sym({}))
        fails = []
        for j in range(2):
            Xv = Sym.of(v_array[j]).log()
            p0 = sum((a[d] * Xv ** d for d in range(order + 1)), Sym({}))
            p1 = sum((a[d] * d * Xv ** (d - 1) for d in range(1, order + 1)), Sym({}))
            p2 = sum((a[d] * d * (d - 1) * Xv ** (d - 2) for d in range(2, order + 1)), Sym({}))
            got0 = Sym.of(out[0][j])
            # omega = exp(fitted(ln v)): substitute the polynomial data into the exponent (atoms are rebuilt by Sym.subs) and compare
            # with exp(p(ln v)); both sides go through the same exp normal form
            if Z.prove_equal(got0.subs(sub), p0.exp(), name="C11:lsq:omega")[0] != "unsat":
                fails.append("omega(v) != exp(p(ln v)) for polynomial data")
            if Z.prove_equal(Sym.of(out[1][j]).subs(sub), -p1, name="C11:lsq:gamma")[0] != "unsat":
                fails.append("gamma != -p'(ln v)")
            if Z.prove_equal(Sym.of(out[2][j]).subs(sub), -p2, name="C11:lsq:vdr")[0] != "unsat":
                fails.append("V dgamma/dV != -p''(ln v)")
        chk.obligation(name + ": exact for ln omega polynomial in ln V up to the order (contains the power law)", "unsat" if not fails else "sat",
                       seconds=round(time.time() - t0, 2), kind="identity(exact least squares)", detail=fails[:3])
        if fails:
            replay_method(chk, mg, "lsq_poly", order, rng, fails[0], nvol=nvol, earlier=earlier)


def replay_method(chk, mg, method, order, rng, what, nvol=8, earlier=()):
    """Concrete: power-law data omega = A V^-g; every method must return (A v^-g, g, 0) on an extrapolated grid.
    lsq_poly additionally: ln omega polynomial in ln V of degree = order."""
    if method == "lsq_poly" and order >= 1:
        vols = numpy.linspace(420.0, 280.0, nvol)
        v = numpy.linspace(440.0, 260.0, 9)
        x0 = numpy.log(350.0)
        co = [6.0, -1.3, 0.4, -0.2, 0.1, 0.05][:order + 1]
        px = lambda x, d=0: sum(c * numpy.prod([k - j for j in range(d)]) * (x - x0) ** (k - d) for k, c in enumerate(co) if k >= d)
        try:
            from harness.common import fresh_copy
            mg = fresh_copy(mg)          # only the replayed call sequence determines the outcome
            for o_prev in earlier:
                mg.interpolate_mode_lsq_poly(vols, numpy.exp(px(numpy.log(vols))), v, order=o_prev)
            w, gm, vd = (numpy.asarray(a, dtype=float) for a in mg.interpolate_mode_lsq_poly(vols, numpy.exp(px(numpy.log(vols))), v, order=order))
            lv = numpy.log(v)
            if numpy.abs(w / numpy.exp(px(lv)) - 1).max() > 1e-7 or numpy.abs(gm + px(lv, 1)).max() > 1e-6 or numpy.abs(vd + px(lv, 2)).max() > 1e-5:
                chk.violation("lsq_poly:polynomial-data", "lsq_poly (order %d%s) is not exact for ln omega polynomial in ln V of that degree: "
                              "gamma=%s expected %s" % (order, ", called after orders %s on the same volumes in the same process" % list(earlier) if earlier else "",
                                                        gm[:3].tolist(), (-px(lv, 1))[:3].tolist()), dict(order=order, nv=nvol, earlier=list(earlier)))
                return
        except Exception as e:
            chk.violation("lsq_poly:raises", "lsq_poly raises %s: %s" % (type(e).__name__, e), dict(order=order, nv=nvol))
            return
    vols = numpy.linspace(420.0, 280.0, 8)
    g, A = 1.37, 5.0e4
    freqs = A * vols ** (-g)
    v = numpy.linspace(440.0, 260.0, 9)
    try:
        with numpy.errstate(all="ignore"):
            if method == "spline":
                out = mg.interpolate_mode_spline(vols, freqs, v, order=order)
            elif method == "lagrange":
                out = mg.interpolate_mode_lagrange(vols, freqs, v, order=order)
            elif method == "krogh":
                out = mg.interpolate_mode_krogh(vols, freqs, v, order=order)
            elif method == "lsq_poly":
                out = mg.interpolate_mode_lsq_poly(vols, freqs, v, order=order)
            else:
                out = mg.interpolate_mode_ppoly(vols, freqs, v, method=method, order=order)
    except Exception as e:
        chk.violation("%s:raises" % method, "interpolation method %r (order %d) raises %s: %s for every input" % (method, order, type(e).__name__, str(e)[:120]),
                      dict(method=method, order=order))
        return
    w, gm, vd = (numpy.asarray(x, dtype=float) for x in out)
    if not (numpy.all(numpy.isfinite(w)) and numpy.all(numpy.isfinite(gm)) and numpy.all(numpy.isfinite(vd))):
        bad_v = v[~(numpy.isfinite(w) & numpy.isfinite(gm) & numpy.isfinite(vd))]
        chk.violation("%s:not-finite" % method, "method %r (order %d) returns NaN at the grid volumes %s (sampled volumes %g..%g, grid extended by the usual "
                      "ratio): the interpolant is not defined on the whole extrapolated volume grid" % (method, order, bad_v.tolist()[:5], vols.min(), vols.max()),
                      dict(method=method, order=order))
        return
    inner = (v <= vols.max()) & (v >= vols.min())
    tol = 1e-6
    if numpy.abs(w[inner] / (A * v[inner] ** (-g)) - 1).max() > tol or numpy.abs(gm[inner] - g).max() > 1e-5 or numpy.abs(vd[inner]).max() > 1e-3:
        chk.violation("%s:power-law" % method, "method %r (order %d) does not return (A v^-g, g, 0) for power-law data: gamma=%s" % (
            method, order, gm[inner][:3].tolist()), dict(method=method, order=order))
        return
    chk.harness_error("C11 %s[%d]: '%s' did not reproduce concretely" % (method, order, what))


def modes_loop(chk, mg, tier, rng):
    """interpolate_modes: slot [:, j, k] is built from volumes[i].q_points[j].modes[k] only; Gamma acoustic slots stay 0."""
    import cij.io.traditional.models as md
    nvol, nq, np_, ntv = 4, 2, 6, 2
    for method in (["lsq_poly", "spline"] if tier == "quick" else list(METHODS)):
        if method == "hermite":
            continue
        name = "interpolate_modes[%s]" % method
        ctx = new_context()
        vols = [ctx.var("V%d" % i, positive=True) for i in range(nvol)]
        W = symvars("w", (nvol, nq, np_), positive=True)
        volumes = [md.VolumeData(0.0, vols[i], 0.0, [md.QPointData((0, 0, j), list(W[i, j])) for j in range(nq)]) for i in range(nvol)]
        # weights: arbitrary non-negative numbers; the last q-point carries weight 0 (legitimate: it only drops out of the averages,
        # its slots must still hold its own interpolant)
        qin = md.QHAInputData(nvol, nq, np_, 1, np_ // 3, [((0, 0, j), 0.0 if j == nq - 1 else 2.5) for j in range(nq)], volumes)
        v_array = symvars("v", (ntv,), positive=True)
        calls = []

        def one_mode(mode_volumes, mode_freqs, v_arr, **kw):
            calls.append((mode_volumes, mode_freqs, v_arr, kw))
            tag = [ctx.uf("M", [numpy.asarray(mode_volumes, dtype=object), numpy.asarray(mode_freqs, dtype=object), Sym.of(x), repr(sorted(kw.items())), i])
                   for i in range(3) for x in v_arr]
            n = len(v_arr)
            return (numpy.array(tag[:n], dtype=object), numpy.array(tag[n:2 * n], dtype=object), numpy.array(tag[2 * n:], dtype=object))
        proxy = NumpyProxy()
        fnname = {"lagrange": "interpolate_mode_lagrange", "krogh": "interpolate_mode_krogh", "spline": "interpolate_mode_spline",
                  "lsq_poly": "interpolate_mode_lsq_poly"}.get(method, "interpolate_mode_ppoly")

        def fn():
            with patched((mg, {"numpy": proxy, fnname: one_mode})):
                return mg.interpolate_modes(qin, v_array, method=method, order=3)
        try:
            fr, ga, vd = X.run_single_path(fn, name="C11:" + name)
        except Exception as e:
            chk.obligation(name, "sat", kind="wiring", detail="raises %s: %s" % (type(e).__name__, e))
            continue
        fails = []
        for j in range(nq):
            for k in range(np_):
                if j == 0 and k < 3:
                    if not all(Sym.of(x).is_zero() for arr in (fr, ga, vd) for x in numpy.asarray(arr, dtype=object)[:, j, k]):
                        fails.append("Gamma acoustic slot (%d,%d) is not zero" % (j, k))
                    continue
                kw = {"order": 3}
                if fnname == "interpolate_mode_ppoly":
                    kw["method"] = method
                exp = one_mode(numpy.array(vols, dtype=object), W[:, j, k], v_array, **kw)
                for arr, e in zip((fr, ga, vd), exp):
                    got = numpy.asarray(arr, dtype=object)[:, j, k]
                    if not all(Sym.of(a).same(b) for a, b in zip(got, e)):
                        fails.append("slot (q=%d, m=%d) is not built from that mode's own frequencies" % (j, k))
        chk.obligation(name + ": per-(q,m) slots, Gamma acoustic zeros, (freq, gamma, vdr) order of the returned arrays", "unsat" if not fails else "sat",
                       kind="wiring", detail=fails[:3])
        if fails:
            replay_modes(chk, mg, rng, method, fails[0])


def replay_modes(chk, mg, rng, method, what):
    import cij.io.traditional.models as md
    nvol, nq, np_ = 6, 2, 6
    vols = numpy.linspace(420, 300, nvol)
    gam = numpy.array([[0.8 + 0.3 * k + 0.7 * j for k in range(np_)] for j in range(nq)])
    A = numpy.array([[1e4 * (1 + k + 3 * j) for k in range(np_)] for j in range(nq)])
    volumes = [md.VolumeData(0.0, vols[i], 0.0, [md.QPointData((0, 0, j), list(A[j] * vols[i] ** (-gam[j]))) for j in range(nq)]) for i in range(nvol)]
    qin = md.QHAInputData(nvol, nq, np_, 1, 2, [((0, 0, j), 0.0 if j == nq - 1 else 2.5) for j in range(nq)], volumes)
    v = numpy.linspace(410, 310, 5)
    try:
        fr, ga, vd = mg.interpolate_modes(qin, v, method=method, order=3)
    except Exception as e:
        chk.violation("interpolate_modes:raises", "interpolate_modes(method=%r) raises %s: %s" % (method, type(e).__name__, str(e)[:100]), {})
        return
    for j in range(nq):
        for k in range(np_):
            if j == 0 and k < 3:
                if numpy.abs(fr[:, j, k]).max() or numpy.abs(ga[:, j, k]).max() or numpy.abs(vd[:, j, k]).max():
                    chk.violation("interpolate_modes:gamma-acoustic", "Gamma acoustic slot (%d,%d) is not left at zero" % (j, k), {})
                    return
                continue
            if numpy.abs(ga[:, j, k] - gam[j, k]).max() > 1e-4 or numpy.abs(fr[:, j, k] / (A[j, k] * v ** (-gam[j, k])) - 1).max() > 1e-5:
                chk.violation("interpolate_modes:mixing", "slot (q=%d, m=%d) does not carry that mode's own Grueneisen parameter (%.3f vs %.3f)" % (
                    j, k, ga[0, j, k], gam[j, k]), dict(method=method))
                return
    chk.harness_error("C11 interpolate_modes: '%s' did not reproduce" % what)


def default_order_twin(chk, mg, rng):
    """Configuration twin: interpolate_modes(..., method) without an order (its signature says order=None) must behave like the call with the
    default order of that method's own function; and every value of `cij modes -n` the option parser admits must be drawable."""
    import cij.io.traditional.models as md
    per_method = {"spline": mg.interpolate_mode_spline, "lagrange": mg.interpolate_mode_lagrange, "krogh": mg.interpolate_mode_krogh,
                  "pchip": mg.interpolate_mode_ppoly, "akima": mg.interpolate_mode_ppoly, "lsq_poly": mg.interpolate_mode_lsq_poly}
    nvol, nq, np_ = 12, 2, 6
    vols = numpy.linspace(420, 300, nvol)
    gam = numpy.array([[0.8 + 0.3 * k + 0.7 * j for k in range(np_)] for j in range(nq)])
    A = numpy.array([[1e4 * (1 + k + 3 * j) for k in range(np_)] for j in range(nq)])
    volumes = [md.VolumeData(0.0, vols[i], 0.0, [md.QPointData((0, 0, j), list(A[j] * vols[i] ** (-gam[j]))) for j in range(nq)]) for i in range(nvol)]
    qin = md.QHAInputData(nvol, nq, np_, 1, 2, [((0, 0, j), 1.0) for j in range(nq)], volumes)
    v = numpy.linspace(410, 310, 5)
    bad = []
    n = 0
    for method, f in per_method.items():
        default = inspect.signature(f).parameters["order"].default
        try:
            with warnings.catch_warnings():
                warnings.simplefilter("ignore")
                want = mg.interpolate_modes(qin, v, method=method, order=default)
        except Exception:
            continue
        n += 1
        try:
            with warnings.catch_warnings():
                warnings.simplefilter("ignore")
                got = mg.interpolate_modes(qin, v, method=method)
            if any(not numpy.array_equal(a, b, equal_nan=True) for a, b in zip(got, want)):
                bad.append("%s: differs from order=%r" % (method, default))
        except Exception as e:
            bad.append("%s: %s: %s" % (method, type(e).__name__, str(e)[:60]))
    if bad:
        chk.violation("interpolate_modes:default-order", "interpolate_modes(qha_input, v_array, method) without an order (the signature's default) does not run like "
                      "the method's own default order: %s" % "; ".join(bad[:3]), {})
    elif n < 4:
        chk.harness_error("default-order twin: only %d methods ran" % n)
    else:
        chk.side_check("default-order twin: %d methods run without an explicit order like with their own default" % n, True)
    # the -n option of `cij modes`
    import click
    import cij.cli.modes as cm
    import cij.plot.modes as pm
    opt = next((o for o in cm.main.params if "-n" in o.opts), None)
    rngopt = getattr(opt, "type", None)
    if isinstance(rngopt, click.IntRange):
        calc = PC.Obj()
        calc.v_array = numpy.linspace(410, 310, 5)
        calc.freq_array = numpy.ones((5, 2, 6))
        calc.mode_gamma = [numpy.ones((5, 2, 6)) * 2, numpy.ones((5, 2, 6)) * 3, numpy.ones((5, 2, 6)) * 9]
        calc.qha_input = qin
        calc.np, calc.nq, calc.nv = np_, nq, nvol

        class Ax:
            def __getattr__(self, name):
                return lambda *a, **k: None
        for nval in range(rngopt.min, rngopt.max + 1):
            try:
                pm.ModePlotter(calc).plot_modes(Ax(), nval, 1)
            except Exception as e:
                chk.violation("plot_modes:admitted-n", "`cij modes -n %d` is admitted by the option parser (IntRange(%s, %s)) but plot_modes fails: %s: %s"
                              % (nval, rngopt.min, rngopt.max, type(e).__name__, str(e)[:80]), dict(n=nval))
                break
        else:
            chk.side_check("every -n value the `cij modes` parser admits (%s..%s) is drawable" % (rngopt.min, rngopt.max), True)


def plot_obligation(chk, rng):
    """plot_modes(ax, n, iq) draws freq, gamma, V dgamma/dV for n = 0, 1, 2."""
    try:
        import matplotlib
        matplotlib.use("Agg")
        import cij.plot.modes as pm
    except Exception as e:
        chk.out_of_claim("plot_modes: matplotlib / cij.plot.modes not importable here (%s)" % type(e).__name__)
        return
    chk.encode(pm.ModePlotter.plot_modes)
    ctx = new_context()
    ntv, nq, np_ = 2, 2, 4
    F = symvars("F", (ntv, nq, np_))
    G = symvars("G", (ntv, nq, np_))
    Dd = symvars("D", (ntv, nq, np_))
    calc = PC.Obj()
    calc.freq_array, calc.mode_gamma, calc.np = F, [Dd, G, G ** 2], np_
    calc.v_array = numpy.array([300.0, 280.0])
    calc.qha_input = PC.Obj()
    vol = PC.Obj()
    vol.volume = 300.0
    qp = PC.Obj()
    qp.modes = [100.0] * np_
    vol.q_points = [qp, qp]
    calc.qha_input.volumes = [vol]

    class Ax:
        def __init__(self):
            self.lines = []

        def plot(self, x, y, *a, **k):
            self.lines.append(numpy.asarray(y, dtype=object))

        def scatter(self, *a, **k):
            pass
    want = {0: F, 1: G, 2: Dd}
    names = {0: "frequency", 1: "gamma", 2: "V dgamma/dV"}
    plotter = pm.ModePlotter(calc)
    for n in (0, 1, 2):
        for iq in (0, 1):
            ax = Ax()
            try:
                plotter.plot_modes(ax, n=n, iq=iq)
            except Exception as e:
                chk.obligation("plot_modes(n=%d, iq=%d)" % (n, iq), "sat", kind="wiring", detail=str(e))
                chk.violation("plot_modes:raises", "plot_modes(n=%d, iq=%d) raises %s: %s" % (n, iq, type(e).__name__, e), {})
                continue
            ks = [k for k in range(np_) if not (iq == 0 and k < 3)]
            ok = len(ax.lines) == len(ks) and all(
                all(Sym.of(a).same(b) for a, b in zip(line, want[n][:, iq, k])) for line, k in zip(ax.lines, ks))
            chk.obligation("plot_modes(n=%d, iq=%d) draws the %s of every non-acoustic mode" % (n, iq, names[n]), "unsat" if ok else "sat", kind="wiring")
            if not ok:
                drawn = [nm for nm, arr in (("frequency", F), ("gamma", G), ("V dgamma/dV", Dd))
                         if ax.lines and all(Sym.of(a).same(b) for a, b in zip(ax.lines[0], arr[:, iq, ks[0]]))]
                # concrete replay with floats
                fcalc = PC.Obj()
                fcalc.__dict__.update(calc.__dict__)
                fcalc.freq_array = numpy.full((ntv, nq, np_), 1.0)
                fcalc.mode_gamma = [numpy.full((ntv, nq, np_), 3.0), numpy.full((ntv, nq, np_), 2.0), numpy.full((ntv, nq, np_), 4.0)]
                ax2 = Ax()
                pm.ModePlotter(fcalc).plot_modes(ax2, n=n, iq=iq)
                val = float(ax2.lines[0][0]) if ax2.lines else None
                if val != {0: 1.0, 1: 2.0, 2: 3.0}[n]:
                    chk.violation("plot_modes:n=%d" % n, "plot_modes(n=%d) draws %s instead of the %s" % (n, drawn or "something else", names[n]),
                                  dict(n=n, iq=iq))
                else:
                    chk.harness_error("plot_modes(n=%d) mismatch did not reproduce" % n)


def main():
    tier = os.environ.get("VERIF_TIER", "quick")
    if len(sys.argv) > 1:
        tier = sys.argv[1]
    chk = Check("C11", tier, "symbolic execution of mode_gamma.py with the scipy interpolator classes as uninterpreted smooth-function factories "
                             "(real constructor signatures), exact least squares for lsq_poly, recording axes for plot_modes; z3 equalities")
    import cij.core.mode_gamma as mg
    chk.encode(mg.interpolate_mode_spline, mg.interpolate_mode_lagrange, mg.interpolate_mode_krogh, mg.interpolate_mode_ppoly,
               mg.interpolate_mode_lsq_poly, mg.lstsq_polyfit, mg.interpolate_modes)
    Z.reset_log()
    rng = random.Random(seed() + 11)
    triple_obligations(chk, mg, tier, rng)
    extrapolation_obligations(chk, mg, tier, rng)
    lsq_obligations(chk, mg, tier, rng)
    modes_loop(chk, mg, tier, rng)
    plot_obligation(chk, rng)
    default_order_twin(chk, mg, rng)
    chk.witness("stubs-reached", "sat" if chk.obligations else "unsat")
    chk.bound(methods=list(METHODS), orders=METHODS if tier != "quick" else {k: v[:2] for k, v in METHODS.items()}, sampled_volumes=7, grid_points=3)
    chk.stub("scipy.interpolate.{UnivariateSpline, lagrange, KroghInterpolator, PchipInterpolator, Akima1DInterpolator, CubicHermiteSpline} -> "
             "uninterpreted interpolant F_id with derivatives F_id^(n); constructors bind arguments with the real signatures")
    chk.stub("numpy.linalg.lstsq -> exact least squares (lsq_poly, concrete sampled volumes); numpy.log / exp -> atoms")
    chk.out_of_claim("that scipy's interpolants reproduce power laws on the extrapolated grid (library numerics; evaluated only in replays)")
    return chk.finish("For each method/order the three returned arrays are shown to be exp(F), -F', -F'' of one and the same interpolant built "
                      "from the flipped (ln V, ln omega) nodes; lsq_poly is exact on polynomial data; interpolate_modes does not mix q-points "
                      "or modes; plot_modes selects the three quantities for n = 0, 1, 2.")


if __name__ == "__main__":
    run_main(main)
