"""C06 -- (T,V)->(T,P) conversion evaluates each quantity at the volume where P(T,V)=P (wiring, kernel, range check)."""
from __future__ import annotations

import itertools
import os
import random
import sys
import time
from fractions import Fraction

import numpy

from harness.common import Check, run_main, seed
from harness import phonon_common as PC
from harness.fill_common import KEYS
from harness import c07 as C7
from symnum import sym as S, solver as Z, executor as X
from symnum.sym import Sym, SymError, new_context, symvars, symarray
from symnum.npproxy import NumpyProxy, patched

QUANTS = ["bulk_modulus_voigt", "bulk_modulus_reuss", "bulk_modulus_voigt_reuss_hill", "shear_modulus_voigt", "shear_modulus_reuss",
          "shear_modulus_voigt_reuss_hill", "primary_velocities", "secondary_velocities"]
SPELLINGS = ["c11", "c_11", "c11s", "c11t", "s11", "c1111", "c44", "c1212", "c23t", "s_44"]


def v2p_stub_factory(ctx, nt, ntp):
    calls = []

    def v2p(f, p_tv, p):
        f = numpy.asarray(f, dtype=object)
        names = ctx.uf("V2P", [f, numpy.asarray(p_tv, dtype=object), numpy.asarray(p, dtype=object)], nout=nt * ntp)
        calls.append((f, p_tv, p))
        return numpy.array(names, dtype=object).reshape(nt, ntp)
    return v2p, calls


def wiring(chk, cc, qa, tier, rng):
    from cij.util import c_
    nt, nv, ntp = 2, 2, 2
    ctx = new_context()
    ryk, na = C7.si_constants()
    ctx.name_float(ryk, ctx.var("RYKM", positive=True, kind="const"), rtol=1e-8, max_den=64)
    ctx.name_float(na, ctx.var("NA", positive=True, kind="const"), rtol=1e-8, max_den=64)
    keys = KEYS if tier != "quick" else C7.ORTHO + ["c14", "c56"]
    calc, C, Ciso = C7.build_calculator(cc, ctx, keys, nt, nv)
    q = calc.qha_calculator
    q.volume_base.pressures = symvars("Ptv", (nt, nv))
    q.pressure_base = PC.Obj()
    q.pressure_base.p_array = symvars("pdes", (ntp,))
    q.pressure_base.t_array = q.t_array
    q.pressure_base.volumes = symvars("Vtp", (nt, ntp), positive=True)
    calc.__dict__["pressure_based_result"] = cc.CijPressureBaseInterface(calc)
    proxy = NumpyProxy()
    proxy.close_mode = "structural"
    v2p, calls = v2p_stub_factory(ctx, nt, ntp)
    vb, pb = calc.volume_based_result, calc.pressure_based_result

    def fn():
        out = {}
        with patched((cc, {"numpy": proxy, "v2p": v2p})):
            calc._calculate_compliances()
            for name in QUANTS:
                out[name] = (getattr(pb, name), getattr(vb, name))
            for sp in SPELLINGS:
                out[sp] = (getattr(pb, sp), getattr(vb, sp))
            for which in ("modulus_adiabatic", "modulus_isothermal"):
                iface = getattr(pb, which)
                src = getattr(vb, which)
                for key in src:
                    out["%s[%r]" % (which, key)] = (iface[key], src[key])
                items = dict(iface.items())
                out["%s.items-keys" % which] = (sorted(repr(k) for k in items), sorted(repr(k) for k in src))
                for key, val in items.items():
                    out["%s.items[%r]" % (which, key)] = (val, src[key])
            out["p_array"] = (pb.p_array, q.pressure_base.p_array)
            out["volumes"] = (pb.volumes, q.pressure_base.volumes)
            out["t_array"] = (pb.t_array, q.t_array)
        return out

    t0 = time.time()
    try:
        res = X.run_single_path(fn, name="C06:wiring", generic=True)
    except SymError as e:
        # an undecided guard stops the symbolic run: look at the real code on concrete data before calling it inconclusive
        replay_wiring(chk, cc, rng, "symbolic run stopped: %s" % e)
        chk.inconclusive("wiring", str(e))
        return
    except Exception as e:
        replay_wiring(chk, cc, rng, "symbolic run raised %s: %s" % (type(e).__name__, e))
        return
    bad = []
    n = 0
    for name, (got, src) in res.items():
        n += 1
        if name in ("p_array", "volumes", "t_array"):
            if got is not src:
                bad.append("%s does not forward the QHA field" % name)
            continue
        if name.endswith("items-keys"):
            if got != src:
                bad.append("%s: keys %s != %s" % (name, got, src))
            continue
        want = ctx.uf("V2P", [numpy.asarray(src, dtype=object), numpy.asarray(q.volume_base.pressures, dtype=object),
                              numpy.asarray(q.pressure_base.p_array, dtype=object)], nout=nt * ntp)
        g = numpy.asarray(got, dtype=object).ravel().tolist()
        if len(g) != len(want) or not all(Sym.of(a).same(b) for a, b in zip(g, want)):
            bad.append("pressure_base.%s is not v2p(volume_base.%s, volume_base.pressures, pressure_base.p_array)" % (name, name))
    chk.obligation("wiring: every pressure-base quantity == V2P(volume-base quantity, QHA P(T,V), requested pressures) [%d quantities]" % n,
                   "unsat" if not bad else "sat", seconds=round(time.time() - t0, 2), kind="wiring(uninterpreted v2p)", detail=bad[:4])
    chk.sample(dict(quantities=list(res)[:12]))
    if bad:
        replay_wiring(chk, cc, rng, bad[0])
    # QHA interface forwarding
    # the stand-in carries opaque objects for the computed fields and, for the requested pressures, what the real qha Calculator builds from
    # its settings (qha.tools.arange(P_MIN, NTV, DELTA_P) converted to Ry/bohr^3) together with those settings, P_MIN != 0 included --
    # the axis qha itself converts to and range-checks against
    import qha.tools
    from qha.unit_conversion import gpa_to_ry_b3
    bad_fw = None

    class _Q:
        pass
    for p_min, dp, ntv in ((0.0, 0.5, 4), (6.0, 0.25, 5), (-2.0, 1.0, 3)):
        qq = _Q()
        qq.settings = dict(P_MIN=p_min, DELTA_P=dp, NTV=ntv, DELTA_P_SAMPLE=dp, T_MIN=0.0, DT=100.0, NT=3, DT_SAMPLE=100.0)
        qq.desired_pressures_gpa = qha.tools.arange(p_min, ntv, dp)
        qq.desired_pressures = gpa_to_ry_b3(qq.desired_pressures_gpa)
        for a in ("v_tp_bohr3", "p_tv_au", "temperature_array", "finer_volumes_bohr3"):
            setattr(qq, a, object())
        try:
            want_p = numpy.asarray(qq.desired_pressures, dtype=float)
            got_p = numpy.asarray(qa.QHAPressureBaseInterface(qq).p_array, dtype=float)
            if got_p.shape != want_p.shape or not numpy.allclose(got_p, want_p, rtol=1e-12, atol=0):
                bad_fw = "pressure_base.p_array is %s (Ry/bohr^3) for P_MIN=%g GPa, DELTA_P=%g, NTV=%d; the pressures qha converts to are %s" % (
                    got_p.tolist(), p_min, dp, ntv, want_p.tolist())
            elif not (qa.QHAPressureBaseInterface(qq).volumes is qq.v_tp_bohr3 and qa.QHAVolumeBaseInterface(qq).pressures is qq.p_tv_au
                      and qa.QHAVolumeBaseInterface(qq).v_array is qq.finer_volumes_bohr3):
                bad_fw = "QHA pressure/volume base interface forwards the wrong field"
        except AttributeError as e:
            if "_Q" in str(e):
                chk.harness_error("C06 forwarding twin: the stand-in lacks an attribute the adapter reads (%s)" % e)
                break
            bad_fw = "QHA base interfaces with P_MIN=%g raise %s: %s" % (p_min, type(e).__name__, e)
        except Exception as e:
            bad_fw = "QHA base interfaces with P_MIN=%g raise %s: %s" % (p_min, type(e).__name__, e)
        if bad_fw:
            break
    chk.obligation("QHA adapters forward desired_pressures (P_MIN = 0, 6, -2 GPa) / v_tp_bohr3 / p_tv_au / finer_volumes_bohr3", "unsat" if not bad_fw else "sat",
                   kind="wiring")
    if bad_fw:
        chk.violation("qha-adapter:forwarding", bad_fw, {})


def replay_wiring(chk, cc, rng, what):
    """Concrete: real qha v2p, random monotone pressure field; each pressure-base quantity vs an independent call of v2p."""
    from cij.util import c_
    from qha.v2p import v2p
    nt, nv = 2, 8
    keys = C7.ORTHO
    calc = object.__new__(cc.Calculator)
    q = PC.Obj()
    q.t_array = numpy.array([0.0, 300.0])
    q.v_array = numpy.linspace(400, 250, nv)
    q.volume_base = PC.Obj()
    q.volume_base.v_array, q.volume_base.t_array = q.v_array, q.t_array
    q.volume_base.pressures = numpy.array([numpy.linspace(-0.001, 0.01, nv), numpy.linspace(0.0, 0.011, nv)])
    q.pressure_base = PC.Obj()
    q.pressure_base.p_array = numpy.array([0.001, 0.004, 0.007])
    q.pressure_base.t_array = q.t_array
    q.pressure_base.volumes = numpy.ones((2, 3))
    calc.__dict__["qha_calculator"] = q
    ed = PC.Obj()
    ed.cellmass = 100.0
    vol0 = PC.Obj()
    vol0.static_elastic_modulus = {c_(k[1:]): None for k in keys}
    ed.volumes = [vol0]
    calc.__dict__["elast_data"] = ed
    A = numpy.diag([3.0, 3.2, 3.4, 1.0, 1.1, 1.2]) * 0.01
    A[0, 1] = A[1, 0] = 0.011
    A[0, 2] = A[2, 0] = 0.012
    A[1, 2] = A[2, 1] = 0.013
    grid = 1 + 0.1 * numpy.arange(nt * nv).reshape(nt, nv) / (nt * nv)
    calc.__dict__["modulus_adiabatic"] = {c_(k[1:]): A[int(k[1]) - 1, int(k[2]) - 1] * grid for k in keys}
    calc.__dict__["modulus_isothermal"] = {c_(k[1:]): 0.95 * A[int(k[1]) - 1, int(k[2]) - 1] * grid ** 2 for k in keys}
    calc.__dict__["volume_based_result"] = cc.CijVolumeBaseInterface(calc)
    calc.__dict__["pressure_based_result"] = cc.CijPressureBaseInterface(calc)
    vb, pb = calc.volume_based_result, calc.pressure_based_result
    try:
        calc._calculate_compliances()
        for name in QUANTS + ["c11", "c11t", "s11", "c1212"]:
            got = numpy.asarray(getattr(pb, name))
            want = v2p(numpy.asarray(getattr(vb, name), dtype=float), q.volume_base.pressures, q.pressure_base.p_array)
            if got.shape != want.shape or numpy.abs(got - want).max() > 1e-9 * numpy.abs(want).max():
                chk.violation("wiring:%s" % name, "pressure_base.%s differs from volume_base.%s interpolated to the requested pressures" % (name, name),
                              dict(quantity=name))
                return
        for which in ("modulus_adiabatic", "modulus_isothermal"):
            for key, val in getattr(pb, which).items():
                want = v2p(numpy.asarray(getattr(vb, which)[key], dtype=float), q.volume_base.pressures, q.pressure_base.p_array)
                if numpy.abs(numpy.asarray(val) - want).max() > 1e-9 * numpy.abs(want).max():
                    chk.violation("wiring:%s" % which, "pressure_base.%s[%r] differs from the interpolated volume-base tensor" % (which, key),
                                  dict(quantity=which))
                    return
    except Exception as e:
        chk.violation("wiring:raises", "pressure-base evaluation raises %s: %s" % (type(e).__name__, str(e)[:140]), {})
        return
    chk.harness_error("C06 wiring: '%s' did not reproduce" % what)


def kernel(chk, tier, rng):
    """qha.v2p.v2p executed symbolically (Python body + _lagrange4.py_func), bracket index enumerated:
    interpolating the pressure field itself returns the requested pressure, for four pairwise-distinct nodes."""
    import qha.v2p as qv
    chk.encode(qv.v2p)
    nv = 6
    py_l4 = getattr(qv._lagrange4, "py_func", None)
    if py_l4 is None:
        chk.inconclusive("kernel", "qha._lagrange4 has no py_func")
        return
    bad = []
    t0 = time.time()
    nq = 0
    for k in range(1, nv):   # bracket start index in the extended arrays
        ctx = new_context()
        P = symvars("P", (1, nv))
        F = symvars("F", (1, nv))
        p = symvars("p", (1,))
        proxy = NumpyProxy()

        def find_nearest(array, values, result, _k=k):
            for i in range(len(result)):
                result[i] = _k

        def fn():
            with patched((qv, {"np": proxy, "_lagrange4": py_l4, "vectorized_find_nearest": find_nearest})):
                return qv.v2p(P, P, p), qv.v2p(F, P, p)

        try:
            rp, rf = X.run_single_path(fn, name="C06:kernel")
        except Exception as e:
            bad.append("bracket %d: %s: %s" % (k, type(e).__name__, e))
            continue
        ext = [P[0, 3]] + list(P[0]) + [P[0, -4]]
        nodes = ext[k - 1:k + 3]
        distinct = all(not (Sym.of(a) - Sym.of(b)).is_zero() for a, b in itertools.combinations(nodes, 2))
        if not distinct:
            continue   # the edge brackets reuse a node (extended ends): outside "four pairwise-distinct nodes"
        extra = [("!=", Sym.of(a) - Sym.of(b)) for a, b in itertools.combinations(nodes, 2)]
        v, env = Z.prove_zero(Sym.of(rp[0, 0]) - p[0], name="kernel:V2P(P,P,p)==p[k=%d]" % k, extra=extra, timeout_ms=30000)
        nq += 1
        if v != "unsat":
            bad.append("bracket %d: V2P(P,P,p)==p %s" % (k, v))
        # exactness on the nodes' own cubic: F = a+bP+cP^2+dP^3 is reproduced
        a = [ctx.var("a%d" % i) for i in range(4)]
        cubic = lambda x: a[0] + a[1] * x + a[2] * x * x + a[3] * x * x * x
        sub = {list(Sym.of(F[0, j]).variables())[0]: cubic(Sym.of(P[0, j])) for j in range(nv)}
        cleared, dens = S.clear_inverses(Sym.of(rf[0, 0]).subs(sub) - cubic(p[0]))
        v2, env = Z.prove_zero(cleared, name="kernel:cubic-exact[k=%d,denominators cleared]" % k, extra=extra, timeout_ms=30000)
        nq += 1
        if v2 != "unsat":
            bad.append("bracket %d: cubic exactness %s" % (k, v2))
        # node exactness: at a requested pressure equal to a bracket node's pressure every quantity is returned with that node's value
        # (in particular V(T, P_node) = V_node, i.e. P(T, V(T,P)) = P holds exactly on the grid nodes)
        extF = [F[0, 3]] + list(F[0]) + [F[0, -4]]
        pname = list(Sym.of(p[0]).variables())[0]
        for jn, node in enumerate(nodes):
            val = Sym.of(rf[0, 0]).subs({pname: Sym.of(node)})
            cleared, dens = S.clear_inverses(val - Sym.of(extF[k - 1 + jn]))
            v3, env = Z.prove_zero(cleared, name="kernel:node-exact[k=%d,node %d]" % (k, jn), extra=extra, timeout_ms=30000)
            nq += 1
            if v3 != "unsat":
                bad.append("bracket %d: value at node %d is not the node's value (%s)" % (k, jn, v3))
    chk.obligation("kernel: qha.v2p on its own pressure field returns the requested pressure; cubic data reproduced exactly; at a node pressure every "
                   "quantity takes the node's value [%d queries]" % nq,
                   "unsat" if not bad else ("unknown" if all("unknown" in b for b in bad) else "sat"), seconds=round(time.time() - t0, 2),
                   kind="identity", detail=bad[:3])
    if bad:
        if all("unknown" in b for b in bad):
            chk.inconclusive("kernel", str(bad[:2]))
        else:
            chk.harness_error("qha v2p kernel identity failed (library code): %s" % bad[:2])


def range_check(chk, qa, tier, rng):
    """Real QHACalculator.desired_pressure_status with symbolic P(T,V) and requested pressures: raises <=> min_T P[T,-1] < max_j p_j."""
    chk.encode(qa.QHACalculator.desired_pressure_status)
    import logging
    shapes = [(2, 3, 2), (1, 2, 1)] if tier == "quick" else [(1, 2, 1), (2, 3, 2), (2, 2, 3), (3, 3, 2), (1, 1, 4)]
    for nt, nv, npd in shapes:
        name = "range-check[nT=%d,nV=%d,np=%d]" % (nt, nv, npd)
        ctx = new_context()
        obj = object.__new__(qa.QHACalculator)
        P = symvars("P", (nt, nv))
        # the requested grid as the QHA layer builds it: P_MIN + j * DELTA_P, j < NTV (all settings the adapter may consult are there)
        dP = ctx.var("DELTA_P", positive=True)
        pmin = ctx.var("P_MIN")
        pd = symarray([pmin + dP * j for j in range(npd)])
        obj._p_tv_gpa = P
        obj._desired_pressures_gpa = pd
        obj.__dict__["_settings"] = None
        settings = {"DELTA_P": dP, "P_MIN": pmin, "NTV": npd, "DELTA_P_SAMPLE": dP, "NT": nt, "volume_ratio": 1.2}
        try:
            type(obj).settings
            has_prop = isinstance(getattr(type(obj), "settings", None), property)
        except Exception:
            has_prop = False

        def fn():
            o = object.__new__(qa.QHACalculator)
            o._p_tv_gpa = P
            o._desired_pressures_gpa = pd
            try:
                o.settings = settings
            except AttributeError:
                o._settings = settings
            lg = logging.getLogger(qa.__name__)
            old = lg.disabled
            lg.disabled = True
            try:
                o.desired_pressure_status()
            finally:
                lg.disabled = old
            return "ok"

        ex = X.Explorer(max_paths=256, name=name)
        t0 = time.time()
        try:
            paths = ex.run(fn)
        except (SymError, X.PathBudgetExceeded) as e:
            chk.inconclusive(name, str(e))
            continue
        spec = X.cond_or(*[X.cond_rel("<", P[t, nv - 1] - Sym.of(pd[j])) for t in range(nt) for j in range(npd)])
        ok = True
        outcomes = set()
        for p in paths:
            pc = p.path_condition()
            if p.exception is not None and not isinstance(p.exception, ValueError):
                ok = False
                replay_range(chk, qa, rng, "raises %s: %s" % (type(p.exception).__name__, p.exception))
                break
            raised = p.exception is not None
            outcomes.add(raised)
            enc = Z.Encoder()
            cons = [X._cond_z3(c, enc) for c in pc] + [X._cond_z3(X.cond_not(spec) if raised else spec, enc)]
            cons += enc.assumptions() + enc.side_conditions()
            v, env = Z.check(cons, name=name + ":outcome<=>spec", enc=enc, timeout_ms=10000)
            if v != "unsat":
                ok = False
                if v == "sat":
                    replay_range(chk, qa, rng, "%s although min_T P[T,-1] %s max p" % ("raises" if raised else "returns", ">=" if raised else "<"),
                                 env=env, shape=(nt, nv, npd))
                else:
                    chk.inconclusive(name, "unknown")
                break
        chk.obligation(name + ": ValueError <=> min_T P[T,last V] < max_j requested p_j [%d paths]" % len(paths), "unsat" if ok else "sat",
                       seconds=round(time.time() - t0, 2), kind="raises-iff", detail=dict(realisations=len(ctx.realisations)))
        chk.witness(name + ":both-outcomes-reachable", "sat" if outcomes == {True, False} else "unsat")
    # call order inside _load_qha_calculator
    order = []

    class Rec:
        def __init__(self, settings):
            self.settings = dict(settings)
            self.temperature_array = numpy.arange(10.0)
            self.desired_pressures_gpa = numpy.arange(3.0)
            self.temperature_sample_array = numpy.arange(3.0)
            self.pressure_sample_array = numpy.arange(3.0)
            self.where_negative_frequencies = None
            self.v_ratio = 1.2
            order.append("init")

        def read_input(self, x):
            order.append("read_input")

        def refine_grid(self):
            order.append("refine_grid")

        def desired_pressure_status(self):
            order.append("desired_pressure_status")
            raise ValueError("range")

    with patched((qa, {"QHACalculator": Rec})):
        try:
            qa.QHACalculatorAdapter._load_qha_calculator({}, None)
            propagated = False
        except ValueError:
            propagated = True
        except Exception as e:
            propagated = False
            order.append("other:%s" % type(e).__name__)
    good = propagated and order[-3:] == ["read_input", "refine_grid", "desired_pressure_status"]
    chk.obligation("_load_qha_calculator: range check runs after refine_grid and its ValueError propagates", "unsat" if good else "sat",
                   kind="call-order", detail=order)
    if not good:
        chk.violation("range-check:not-called", "_load_qha_calculator does not run / propagate the pressure range check (calls: %s)" % order, {})


def replay_range(chk, qa, rng, what, env=None, shape=(2, 3, 2)):
    nt, nv, npd = shape
    for attempt in range(10):
        P = numpy.array([[rng.uniform(0, 50) for _ in range(nv)] for _ in range(nt)])
        p_min, d_p = rng.uniform(-2, 5), rng.uniform(0.3, 3)
        if attempt % 2 == 1:
            # boundary grids: the top of the grid lies within one step below (or above) what every isotherm reaches
            top = P[:, -1].min() + rng.choice((-0.4, -0.9, 0.3)) * d_p
            p_min = top - d_p * (npd - 1)
        if env and attempt == 0:
            P = numpy.array([[env.get("P_%d_%d" % (t, v), P[t, v]) for v in range(nv)] for t in range(nt)])
            p_min, d_p = env.get("P_MIN", p_min), env.get("DELTA_P", d_p)
        pd = p_min + d_p * numpy.arange(npd)
        o = object.__new__(qa.QHACalculator)
        o._p_tv_gpa = P
        o._desired_pressures_gpa = pd
        st_ = {"DELTA_P": d_p, "P_MIN": p_min, "NTV": npd, "DELTA_P_SAMPLE": d_p, "NT": nt, "volume_ratio": 1.2}
        try:
            o.settings = st_
        except AttributeError:
            o._settings = st_
        want = P[:, -1].min() < pd.max()
        try:
            o.desired_pressure_status()
            raised = False
        except ValueError:
            raised = True
        except Exception as e:
            chk.violation("range-check:crash", "desired_pressure_status raises %s: %s" % (type(e).__name__, str(e)[:100]), dict(P=P.tolist(), p=pd.tolist()))
            return
        if raised != want:
            chk.violation("range-check:%s" % ("spurious" if raised else "missed"),
                          "desired_pressure_status %s for P[:, -1]=%s and requested pressures %s" % (
                              "raises" if raised else "accepts an overshooting grid", P[:, -1].tolist(), pd.tolist()),
                          dict(P=P.tolist(), p=pd.tolist()))
            return
    chk.harness_error("C06 range check: '%s' did not reproduce" % what)


def real_calculator_twin(chk):
    """Configuration twin on shipped data: a calculation whose reachable pressure range starts above zero (volume_ratio 1.0) with a requested
    grid inside it.  Every pressure-base tensor component, compliance and the volume are compared with an independent monotone
    interpolation of the volume-base quantity at the volume where the QHA pressure equals the requested one (to interpolation accuracy)."""
    import shutil
    import tempfile
    import yaml
    import logging
    import warnings
    from scipy.interpolate import PchipInterpolator
    from cij.core.calculator import Calculator
    src = os.path.join(os.environ.get("CIJ_REPO", "/repo"), "examples", "diopside")
    d = tempfile.mkdtemp(prefix="c06tw_")
    bad = None
    try:
        for f in ("input01", "input02"):
            shutil.copy(os.path.join(src, f), d)
        cfg = yaml.safe_load(open(os.path.join(src, "settings.yaml")))
        cfg["qha"]["settings"].update(NT=3, DT=400, DT_SAMPLE=400, volume_ratio=1.0, NTV=21, P_MIN=0, DELTA_P=0.5, DELTA_P_SAMPLE=0.5)
        logging.disable(logging.CRITICAL)
        with warnings.catch_warnings(), numpy.errstate(all="ignore"):
            warnings.simplefilter("ignore")
            with open(os.path.join(d, "settings.yaml"), "w") as fp:
                yaml.safe_dump(cfg, fp)
            probe = Calculator(os.path.join(d, "settings.yaml"))
            from cij.util.units import _to_gpa
            P = _to_gpa(numpy.asarray(probe.qha_calculator.volume_base.pressures))
            lo, hi = float(P[:, 0].max()), float(P[:, -1].min())
            if not (lo > 0.5 and hi - lo > 6):
                chk.note("pressure-base twin: reachable range [%.2f, %.2f] GPa does not start above zero; twin skipped" % (lo, hi))
                return
            p_min = float(numpy.ceil(lo + 1.0))
            n = int((hi - 1.0 - p_min) // 1.0) + 1
            cfg["qha"]["settings"].update(P_MIN=p_min, DELTA_P=1.0, DELTA_P_SAMPLE=1.0, NTV=max(4, n))
            with open(os.path.join(d, "settings.yaml"), "w") as fp:
                yaml.safe_dump(cfg, fp)
            calc = Calculator(os.path.join(d, "settings.yaml"))
            Pv = numpy.asarray(calc.qha_calculator.volume_base.pressures)
            pgrid = numpy.asarray(calc.pressure_base.p_array)
            nt_ = len(calc.t_array) - 4
            cases = [("V(T,P)", numpy.asarray(calc.volume_base.v_array)[None, :] * numpy.ones((len(calc.t_array), 1)), numpy.asarray(calc.pressure_base.volumes))]
            for key in list(calc.modulus_keys)[:6]:
                cases.append(("adiabatic c%d%d" % key.v, numpy.asarray(calc.volume_base.modulus_adiabatic[key]), numpy.asarray(calc.pressure_base.modulus_adiabatic[key])))
                cases.append(("isothermal c%d%d" % key.v, numpy.asarray(calc.volume_base.modulus_isothermal[key]), numpy.asarray(calc.pressure_base.modulus_isothermal[key])))
            for name, ftv, ftp in cases:
                for it in range(nt_):
                    order = numpy.argsort(Pv[it])
                    want = PchipInterpolator(Pv[it][order], ftv[it][order])(pgrid)
                    scale = numpy.abs(ftv[it]).max()
                    dev = float(numpy.abs(ftp[it] - want).max() / scale)
                    if not dev <= 5e-3:
                        bad = bad or (name, float(calc.t_array[it]), dev, p_min, lo, hi)
    except Exception as e:
        chk.note("pressure-base twin: run failed (%s: %s)" % (type(e).__name__, str(e)[:100]))
        return
    finally:
        logging.disable(logging.NOTSET)
        shutil.rmtree(d, ignore_errors=True)
    if bad:
        chk.violation("pressure-base:real-calculator", "examples/diopside with volume_ratio 1.0 (reachable pressures %.1f .. %.1f GPa) and a requested grid from %.0f GPa inside "
                      "that range: the pressure-base %s at T = %.0f K differs from the volume-base quantity interpolated to the requested pressures by %.2g of its scale"
                      % (bad[4], bad[5], bad[3], bad[0], bad[1], bad[2]), dict(quantity=bad[0]))
    else:
        chk.side_check("pressure-base twin on shipped data (range starting above zero): V(T,P) and 12 tensor views equal the volume-base quantities at P to 5e-3", True)


def main():
    tier = os.environ.get("VERIF_TIER", "quick")
    if len(sys.argv) > 1:
        tier = sys.argv[1]
    chk = Check("C06", tier, "symbolic execution of CijPressureBase* with v2p as an uninterpreted function (wiring by congruence); qha's v2p "
                             "body + _lagrange4 executed symbolically per bracket (z3 identity with inverse atoms); forking execution of the "
                             "real desired_pressure_status with per-path solver obligations")
    import cij.core.calculator as cc
    import cij.core.qha_adapter as qa
    chk.encode(cc.CijPressureBaseInterface, cc.CijPressureBaseModulusInterface, qa.QHAPressureBaseInterface, qa.QHAVolumeBaseInterface,
               qa.QHACalculatorAdapter._load_qha_calculator)
    Z.reset_log()
    rng = random.Random(seed() + 6)
    wiring(chk, cc, qa, tier, rng)
    kernel(chk, tier, rng)
    range_check(chk, qa, tier, rng)
    real_calculator_twin(chk)
    chk.bound(wiring="nT=2, nV=2, 2 requested pressures, %d quantities" % (len(QUANTS) + len(SPELLINGS)), kernel="one isotherm, 6 volumes, all brackets",
              range_check="nT<=3, nV<=3, <=3 requested pressures, 256 paths")
    chk.stub("cij.core.calculator.v2p -> uninterpreted function V2P(f, P_tv, p) (equal arguments <=> equal results)")
    chk.stub("qha.tools.vectorized_find_nearest -> bracket index enumerated; numba _lagrange4 -> its py_func")
    chk.stub("logging in desired_pressure_status disabled; int()/format() of symbols in messages are placeholders")
    chk.out_of_claim("'P(T,V(T,P)) = P to interpolation accuracy' and 'V decreases with P' for arbitrary data (numerical analysis of a cubic "
                     "interpolant, no bounded algebraic form); the bracket search itself (numba)")
    return chk.finish("Congruence of the uninterpreted V2P shows every pressure-base quantity is the conversion of exactly the matching "
                      "volume-base quantity with the QHA pressure field and the requested grid; the interpolation kernel is an identity on "
                      "its own pressure field; the range check raises exactly when the grid overshoots, on every explored path.")


if __name__ == "__main__":
    run_main(main)
