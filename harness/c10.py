"""C10 -- Voigt/standard index algebra is a canonical 21-class quotient of the 81 tuples.

The real constructors of cij/util/voigt.py are executed on finite-domain symbolic integers by the forking
executor (every comparison / hash / dict lookup asks z3 which outcomes are feasible under the path condition;
hashing concretises a variable by forking over its domain).  The executor returns a partition of the whole box
(-3..12)^n into paths; per path, solver queries decide 'raised  <=>  some index out of range'; on accepting
paths the canonical form, equality classes, multiplicity, classification and spellings are checked against an
oracle that knows nothing of voigt.py (orbits of the minor/major symmetries).  A second engine, CrossHair, re-checks
the two-index conditions in the thorough tier."""
from __future__ import annotations

import itertools
import os
import subprocess
import sys
import tempfile
import time

from harness.common import Check, run_main, seed, REPO, VERIF
from symnum import sym as S, solver as Z, executor as X
from symnum.sym import Sym, SymError, new_context

V2S = {1: (1, 1), 2: (2, 2), 3: (3, 3), 4: (2, 3), 5: (1, 3), 6: (1, 2)}   # from the statement of the property
DOM = list(range(-3, 13))


def images(i, j, k, l):
    return {(i, j, k, l), (j, i, k, l), (i, j, l, k), (j, i, l, k), (k, l, i, j), (l, k, i, j), (k, l, j, i), (l, k, j, i)}


def s2v(i, j):
    for v, p in V2S.items():
        if p == (min(i, j), max(i, j)):
            return v
    raise KeyError((i, j))


def in_range_cond(vars_, lo, hi):
    return X.cond_and(*[X.cond_and(X.cond_rel(">=", v - lo), X.cond_rel("<=", v - hi)) for v in vars_])


def explore(chk, name, nvars, call, lo, hi, budget, record, dom=None):
    """Explore `call(*vars)` over DOM^nvars.  `record(vals, obj)` is evaluated inside accepting paths."""
    ctx = new_context()
    ctx.concretise_enabled = True
    dom = list(dom) if dom is not None else DOM
    vs = [ctx.var("x%d" % i, domain=dom) for i in range(nvars)]

    def fn():
        try:
            obj = call(*vs)
        except RuntimeError as e:
            return ("raised", None, None)
        vals = tuple(int(v) for v in vs)
        return ("ok", vals, record(vals, obj))

    ex = X.Explorer(max_paths=budget, name=name, decision_timeout_ms=5000)
    t0 = time.time()
    try:
        paths = ex.run(fn)
    except X.PathBudgetExceeded as e:
        chk.inconclusive(name, str(e))
        return None
    dt = time.time() - t0
    ok = {}
    n_raised = 0
    inr = in_range_cond(vs, lo, hi)
    for p in paths:
        if p.feasibility_unknown:
            chk.inconclusive(name, "a branch feasibility query returned unknown")
        if p.exception is not None:
            # an exception other than RuntimeError escaped: find a concrete member of the path and replay
            enc = Z.Encoder()
            cons = [X._cond_z3(c, enc) for c in p.path_condition()] + enc.assumptions() + enc.side_conditions()
            v, env = Z.check(cons, name=name + ":exc-model", enc=enc)
            vals = tuple(int(round(env["x%d" % i])) for i in range(nvars)) if env else None
            replay_call(chk, name, call, vals, "raises %s: %s" % (type(p.exception).__name__, p.exception))
            continue
        kind, vals, rec = p.result
        if kind == "raised":
            n_raised += 1
            # obligation: this path contains no in-range tuple
            enc = Z.Encoder()
            cons = [X._cond_z3(c, enc) for c in p.path_condition()] + [X._cond_z3(inr, enc)]
            cons += enc.assumptions() + enc.side_conditions()
            v, env = Z.check(cons, name=name + ":raised=>out-of-range", enc=enc)
            if v == "sat":
                vals = tuple(int(round(env["x%d" % i])) for i in range(nvars))
                replay_call(chk, name, call, vals, "valid indices %s rejected" % (vals,), expect_ok=True)
            elif v != "unsat":
                chk.inconclusive(name, "raised=>out-of-range unknown")
        else:
            if not all(lo <= x <= hi for x in vals):
                replay_call(chk, name, call, vals, "out-of-range indices %s accepted" % (vals,), expect_raise=True)
            if vals in ok:
                chk.harness_error("%s: tuple %s reached by two paths" % (name, vals))
            ok[vals] = rec
    expect = (hi - lo + 1) ** nvars
    chk.obligation("%s:partition[paths=%d accepted=%d rejected=%d]" % (name, len(paths), len(ok), n_raised),
                   "unsat" if len(ok) == expect else "sat", seconds=round(dt, 2), kind="exploration",
                   logic="QF_LRA(finite domain)",
                   detail=dict(solver_calls=ex.solver_calls, solver_seconds=round(ex.solver_seconds, 2),
                               domain="%d..%d per index" % (dom[0], dom[-1])))
    if len(ok) != expect:
        missing = [t for t in itertools.product(range(lo, hi + 1), repeat=nvars) if t not in ok]
        for t in missing[:3]:
            replay_call(chk, name, call, t, "valid indices %s not accepted" % (t,), expect_ok=True)
    chk.witness(name + ":box-reaches-both-outcomes", "sat" if (ok and n_raised) else "unsat")
    return ok


def replay_call(chk, name, call, vals, what, expect_ok=False, expect_raise=False):
    """Concrete replay with plain ints on the real function."""
    if vals is None:
        chk.harness_error("%s: no concrete member for a failing path (%s)" % (name, what))
        return
    try:
        obj = call(*vals)
        raised = None
    except RuntimeError as e:
        raised = e
    except Exception as e:
        chk.violation("%s:exception" % name, "%s%s raises %s: %s" % (name, vals, type(e).__name__, e),
                      dict(args=list(vals)))
        return
    if expect_ok and raised is not None:
        chk.violation("%s:rejects-valid" % name, "%s%s raises RuntimeError for valid indices" % (name, vals), dict(args=list(vals)))
    elif expect_raise and raised is None:
        chk.violation("%s:accepts-invalid" % name, "%s%s accepts out-of-range indices -> %r" % (name, vals, obj),
                      dict(args=list(vals)))
    elif not expect_ok and not expect_raise:
        chk.harness_error("%s: %s did not reproduce concretely for %s" % (name, what, vals))


def fail(chk, key, what, payload):
    chk.violation(key, what, payload)


def main():
    tier = os.environ.get("VERIF_TIER", "quick")
    if len(sys.argv) > 1:
        tier = sys.argv[1]
    chk = Check("C10", tier, "symbolic execution of the real voigt.py constructors on finite-domain symbolic ints "
                             "(forking executor, z3 feasibility of every branch, per-path solver obligations); CrossHair cross-check")
    import cij.util.voigt as vg
    from cij.util import c_, e_
    import cij.io.traditional.elast_dat as ed
    C_, E_ = vg.ModulusRepresentation, vg.StrainRepresentation
    chk.encode(C_, E_, ed._find_modulus_key)
    Z.reset_log()

    # ---- modulus keys from four standard indices ----------------------------------------------
    def rec_std(vals, a):
        i, j, k, l = vals
        st = tuple(int(x) for x in a.standard)
        vo = tuple(int(x) for x in a.voigt)
        return dict(obj=(st, vo), hash=hash(a), mult=int(a.multiplicity),
                    cls=(bool(a.is_longitudinal), bool(a.is_off_diagonal), bool(a.is_shear)),
                    calc=a.calc_type.name if a.calc_type is not None else None)

    ok4 = explore(chk, "C_.from_standard", 4, C_.from_standard, 1, 3, 4000, rec_std)
    bad = 0
    if ok4 is not None and len(ok4) == 81:
        # group by constructed object
        groups = {}
        for t, r in ok4.items():
            groups.setdefault(r["obj"], []).append(t)
        t0 = time.time()
        for t, r in ok4.items():
            st, vo = r["obj"]
            orbit = images(*t)
            members = set(groups[r["obj"]])
            same_hash = all(ok4[m]["hash"] == r["hash"] for m in orbit)
            if members != orbit or not same_hash:
                fail(chk, "equality-classes", "tuples equal to from_standard%s are %s but its symmetry orbit is %s"
                     % (t, sorted(members), sorted(orbit)), dict(args=list(t)))
                bad += 1
                break
            if st not in orbit:
                fail(chk, "standard-view", "from_standard%s.standard = %s is not a symmetry image" % (t, st), dict(args=list(t)))
                bad += 1
                break
            if vo != tuple(sorted((s2v(st[0], st[1]), s2v(st[2], st[3])))) or V2S[vo[0]] + V2S[vo[1]] != st:
                fail(chk, "voigt-view", "from_standard%s: voigt %s / standard %s do not follow 1->11 2->22 3->33 4->23 5->13 6->12"
                     % (t, vo, st), dict(args=list(t)))
                bad += 1
                break
            if r["mult"] != len(orbit):
                fail(chk, "multiplicity", "multiplicity of %s is %d but its class has %d tuples" % (st, r["mult"], len(orbit)),
                     dict(args=list(t)))
                bad += 1
                break
            is_shear = any(v >= 4 for v in (s2v(t[0], t[1]), s2v(t[2], t[3])))
            is_long = (not is_shear) and s2v(t[0], t[1]) == s2v(t[2], t[3])
            want = (is_long, (not is_shear) and not is_long, is_shear)
            if r["cls"] != want or sum(r["cls"]) != 1 or r["calc"] != ("LONGITUDINAL", "OFF_DIAGONAL", "SHEAR")[want.index(True)]:
                fail(chk, "classification", "classification of %s is %s/%s, expected %s" % (st, r["cls"], r["calc"], want),
                     dict(args=list(t)))
                bad += 1
                break
        ncls = len(groups)
        tot_mult = sum(ok4[g[0]]["mult"] for g in groups.values())
        counts = [sum(1 for g in groups.values() if ok4[g[0]]["cls"][c]) for c in range(3)]
        glob_ok = ncls == 21 and tot_mult == 81 and counts == [3, 3, 15]
        chk.obligation("C_:21-classes/sum-multiplicity-81/partition-3-3-15[tally over the %d accepting paths]" % len(ok4),
                       "unsat" if (glob_ok and not bad) else "sat", seconds=round(time.time() - t0, 3), kind="tally",
                       detail=dict(classes=ncls, sum_multiplicity=tot_mult, long_off_shear=counts))
        if not glob_ok and not bad:
            fail(chk, "global-counts", "classes=%d sum multiplicity=%d partition=%s" % (ncls, tot_mult, counts), {})
        chk.sample(dict(tuple=[1, 3, 3, 2], record=ok4[(1, 3, 3, 2)]))

    # ---- modulus keys from two Voigt indices + all spellings -------------------------------------
    def rec_voigt(vals, a):
        p, q = vals
        st = tuple(int(x) for x in a.standard)
        out = dict(obj=st, hash=hash(a))
        spell = {}
        i, j, k, l = V2S[p] + V2S[q] if (p in V2S and q in V2S) else (0, 0, 0, 0)
        try:
            spell["four"] = C_.create(i, j, k, l) == a and hash(C_.create(i, j, k, l)) == hash(a)
            spell["two"] = C_.create(p, q) == a
            spell["str2"] = C_.create("%d%d" % (p, q)) == a
            spell["str4"] = C_.create("%d%d%d%d" % (i, j, k, l)) == a
            spell["int2"] = C_.create(10 * p + q) == a
            spell["int4"] = C_.create(1000 * i + 100 * j + 10 * k + l) == a
            spell["c_"] = c_(p, q) == a and c_("%d%d" % (q, p)) == a
            spell["roundtrip"] = C_.create(*a.voigt) == a and C_.create(*a.standard) == a
            spell["file-keys"] = all(ed._find_modulus_key(pre + "%d%d" % (p, q)) == a for pre in ("c", "C", "c_", "C_", "s"))
        except Exception as e:
            spell["exception"] = repr(e)
        out["spell"] = spell
        return out

    ok2 = explore(chk, "C_.from_voigt", 2, C_.from_voigt, 1, 6, 1500, rec_voigt)
    if ok2 is not None and len(ok2) == 36:
        t0 = time.time()
        good = True
        for (p, q), r in ok2.items():
            want = min(images(*(V2S[p] + V2S[q])) & {tuple(V2S[a] + V2S[b]) for a in range(1, 7) for b in range(a, 7)})
            if ok4 is not None and (V2S[p] + V2S[q]) in ok4 and ok4[V2S[p] + V2S[q]]["obj"][0] != r["obj"]:
                fail(chk, "voigt-vs-standard", "from_voigt(%d,%d) and from_standard%s construct different keys" % (p, q, V2S[p] + V2S[q]),
                     dict(args=[p, q]))
                good = False
                break
            if ok2[(q, p)]["obj"] != r["obj"] or ok2[(q, p)]["hash"] != r["hash"]:
                fail(chk, "voigt-symmetry", "from_voigt(%d,%d) != from_voigt(%d,%d)" % (p, q, q, p), dict(args=[p, q]))
                good = False
                break
            badsp = [k for k, v in r["spell"].items() if v is not True]
            if badsp:
                fail(chk, "spellings:" + badsp[0], "spelling %s of component (%d,%d) disagrees: %s" % (badsp[0], p, q, r["spell"]),
                     dict(args=[p, q]))
                good = False
                break
        nkeys = len({r["obj"] for r in ok2.values()})
        chk.obligation("C_:36-voigt-pairs->21-keys/spellings-agree[tally over the 36 accepting paths]",
                       "unsat" if (good and nkeys == 21) else "sat", seconds=round(time.time() - t0, 3), kind="tally",
                       detail=dict(keys=nkeys))
        if good and nkeys != 21:
            fail(chk, "voigt-key-count", "36 Voigt pairs map onto %d keys" % nkeys, {})
        chk.sample(dict(voigt=[4, 1], record=ok2[(4, 1)]))

    # ---- strain indices ------------------------------------------------------------------------------
    def rec_e(vals, a):
        i, j = vals
        out = dict(obj=tuple(int(x) for x in a.standard), voigt=int(a.voigt), hash=hash(a))
        sp = {}
        try:
            sp["str"] = E_.create("%d%d" % (i, j)) == a
            sp["int"] = E_.create(10 * i + j) == a
            sp["voigt"] = E_.create(int(a.voigt)) == a and e_(int(a.voigt)) == a
            sp["two"] = E_.create(i, j) == a and e_(j, i) == a
        except Exception as e:
            sp["exception"] = repr(e)
        out["spell"] = sp
        return out

    oke = explore(chk, "E_.from_standard", 2, E_.from_standard, 1, 3, 1500, rec_e)
    if oke is not None and len(oke) == 9:
        good = True
        for (i, j), r in oke.items():
            if r["obj"] != (min(i, j), max(i, j)) or r["voigt"] != s2v(i, j) or oke[(j, i)]["hash"] != r["hash"]:
                fail(chk, "strain-canonical", "E_.from_standard(%d,%d) -> %s voigt %s" % (i, j, r["obj"], r["voigt"]), dict(args=[i, j]))
                good = False
                break
            badsp = [k for k, v in r["spell"].items() if v is not True]
            if badsp:
                fail(chk, "strain-spellings:" + badsp[0], "strain spelling %s of (%d,%d) disagrees: %s" % (badsp[0], i, j, r["spell"]),
                     dict(args=[i, j]))
                good = False
                break
        chk.obligation("E_:9-pairs->6-strain-keys/spellings-agree", "unsat" if good and len({r["obj"] for r in oke.values()}) == 6 else "sat",
                       kind="tally")

    def rec_ev(vals, a):
        return dict(obj=tuple(int(x) for x in a.standard), voigt=int(a.voigt))

    okv = explore(chk, "E_.from_voigt", 1, E_.from_voigt, 1, 6, 200, rec_ev)
    if okv is not None and len(okv) == 6:
        good = all(r["obj"] == V2S[v[0]] and r["voigt"] == v[0] for v, r in okv.items())
        chk.obligation("E_:voigt->standard-table[1->11 2->22 3->33 4->23 5->13 6->12]", "unsat" if good else "sat", kind="tally")
        if not good:
            badv = [v for v, r in okv.items() if r["obj"] != V2S[v[0]] or r["voigt"] != v[0]][0]
            fail(chk, "voigt-table", "E_.from_voigt(%d) = %s" % (badv[0], okv[badv]["obj"]), dict(args=list(badv)))

    # ---- string spellings: every digit string of length 2 (Voigt pair) and 4 (standard tuple), each digit a finite-domain symbol ----
    def rec_s(vals, a):
        return dict(obj=(tuple(int(x) for x in a.standard), tuple(int(x) for x in a.voigt)))
    digits2 = list(range(0, 10))
    digits4 = list(range(0, 5)) if tier == "quick" else list(range(0, 10))
    ok_s2 = explore(chk, "c_(2-digit string)", 2, lambda a, b: c_("%d%d" % (int(a), int(b))), 1, 6, 400, rec_s, dom=digits2)
    ok_s4 = explore(chk, "c_(4-digit string)", 4, lambda a, b, c, d: c_("%d%d%d%d" % (int(a), int(b), int(c), int(d))), 1, 3, 12000, rec_s, dom=digits4)
    for ok_s, ref, nm, top in ((ok_s2, lambda t: c_(*t), "2-digit", 6), (ok_s4, lambda t: c_(*t), "4-digit", 3)):
        if ok_s:
            badk = [t for t, r in ok_s.items() if all(1 <= x <= top for x in t) and r["obj"] != (tuple(ref(t).standard), tuple(ref(t).voigt))]
            chk.obligation("C_:%s string spelling == the index spelling [%d accepted]" % (nm, len(ok_s)), "unsat" if not badk else "sat", kind="tally")
            if badk:
                fail(chk, "string-spelling", "c_('%s') differs from c_%s" % ("".join(map(str, badk[0])), badk[0]), dict(args=list(badk[0])))

    # ---- integer / string type twin: the one-argument spellings given as numpy integers / numpy strings ------------------------------
    import numpy
    bad_t = None
    n_t = 0
    for a in range(1, 7):
        for b in range(1, 7):
            want = c_(a, b)
            s2 = "%d%d" % (a, b)
            for label, arg in (("numpy.int64(%s)" % s2, numpy.int64(int(s2))), ("numpy.int32(%s)" % s2, numpy.int32(int(s2))), ("numpy.str_('%s')" % s2, numpy.str_(s2))):
                n_t += 1
                try:
                    got = c_(arg)
                    if got != want or hash(got) != hash(want):
                        bad_t = bad_t or ("c_(%s) is %r, c_(%d, %d) is %r" % (label, got, a, b, want))
                except Exception as e:
                    bad_t = bad_t or ("c_(%s) raises %s: %s, c_(%s) works" % (label, type(e).__name__, str(e)[:60], s2))
    for v in range(1, 7):
        n_t += 1
        try:
            if e_(numpy.int64(v)) != e_(v):
                bad_t = bad_t or ("e_(numpy.int64(%d)) differs from e_(%d)" % (v, v))
        except Exception as e:
            bad_t = bad_t or ("e_(numpy.int64(%d)) raises %s: %s, e_(%d) works" % (v, type(e).__name__, str(e)[:60], v))
    if bad_t:
        chk.violation("spelling:numpy-scalars", "integer / string spellings given as numpy scalars (what arithmetic on index arrays produces) do not agree "
                      "with the plain ones: %s" % bad_t, {})
    else:
        chk.side_check("type twin: %d one-argument spellings as numpy.int64 / int32 / str_ agree with the plain int / str ones" % n_t, True)

    # ---- CrossHair cross-check (thorough): the two-index conditions -------------------------------------
    if tier == "thorough":
        crosshair_crosscheck(chk)

    chk.bound(index_domain="-3..12 for every index (complete box; accepted region 1..3 / 1..6)",
              path_budgets=dict(from_standard=4000, from_voigt=1500), decision_timeout_ms=5000)
    chk.stub("none")
    chk.assume("hash() / int() / dict lookup on a symbolic index concretise it by forking over its finite domain "
               "(each fork is a z3 feasibility query under the path condition)")
    chk.out_of_claim("indices outside -3..12; non-integer arguments")
    return chk.finish(
        "The forking executor partitions the complete index box into paths of the real constructors; z3 decides branch "
        "feasibility and, per rejecting path, that it contains no valid tuple; accepting paths are tallied against the "
        "symmetry-orbit oracle (21 classes, multiplicities, 3/3/15, spellings, Voigt table).")


CROSSHAIR_SRC = '''
from cij.util.voigt import StrainRepresentation as E_, ModulusRepresentation as C_

def strain_symmetric(i: int, j: int) -> bool:
    """
    pre: 1 <= i <= 3 and 1 <= j <= 3
    post: _
    """
    a = E_.from_standard(i, j)
    b = E_.from_standard(j, i)
    return a == b and hash(a) == hash(b) and a.standard == (min(i, j), max(i, j))

def strain_symmetric_twin(i: int, j: int) -> bool:
    """
    pre: 1 <= i <= 3 and 1 <= j <= 3
    post: False
    """
    return E_.from_standard(i, j) == E_.from_standard(j, i)

def voigt_pair_symmetric(p: int, q: int) -> bool:
    """
    pre: 1 <= p <= 6 and 1 <= q <= 6
    post: _
    """
    a = C_.from_voigt(p, q)
    b = C_.from_voigt(q, p)
    return a == b and a.voigt == (min(p, q), max(p, q))

def strain_rejects(i: int, j: int) -> bool:
    """
    pre: -3 <= i <= 12 and -3 <= j <= 12
    pre: not (1 <= i <= 3 and 1 <= j <= 3)
    raises: RuntimeError
    post: False
    """
    E_.from_standard(i, j)
    return True
'''


def crosshair_crosscheck(chk):
    py = os.path.join(VERIF, ".venv", "bin", "python")
    with tempfile.TemporaryDirectory(prefix="c10ch_") as tmp:
        fn = os.path.join(tmp, "c10_conditions.py")
        with open(fn, "w") as fp:
            fp.write(CROSSHAIR_SRC)
        env = dict(os.environ, PYTHONPATH=REPO)
        t0 = time.time()
        try:
            r = subprocess.run([py, "-m", "crosshair", "check", "--report_all", "--per_condition_timeout", "120", fn],
                               capture_output=True, text=True, env=env, timeout=900)
        except subprocess.TimeoutExpired:
            chk.note("CrossHair cross-check timed out (not part of the deciding claim)")
            return
        out = r.stdout + r.stderr
        res = {}
        lines = CROSSHAIR_SRC.splitlines()
        for ln in out.splitlines():
            if ".py:" in ln:
                try:
                    no = int(ln.split(".py:")[1].split(":")[0])
                except ValueError:
                    continue
                fname = None
                for k in range(no - 1, -1, -1):
                    if k < len(lines) and lines[k].startswith("def "):
                        fname = lines[k][4:].split("(")[0]
                        break
                res.setdefault(fname, []).append(ln.split(": ", 1)[1] if ": " in ln else ln)
        for name in ("strain_symmetric", "voigt_pair_symmetric"):
            msgs = " | ".join(res.get(name, []))
            v = "unsat" if "Confirmed over all paths" in msgs else ("sat" if "error" in msgs.lower() and "false when" in msgs else "unknown")
            if v == "unknown":
                chk.note("CrossHair: %s not confirmed within budget (%s) -- cross-check only" % (name, msgs[:100]))
            else:
                chk.obligation("crosshair:" + name, v, seconds=round(time.time() - t0, 1), solver="crosshair/z3", kind="crosshair")
                if v == "sat":
                    chk.harness_error("CrossHair disagrees with the executor on %s: %s" % (name, msgs[:200]))
        tw = " | ".join(res.get("strain_symmetric_twin", []))
        chk.note("CrossHair twin (must be refuted): %s" % tw[:120])


if __name__ == "__main__":
    run_main(main)
