"""Replay a recorded violation: `python3 run_check.py <id> --replay <replays/file.json>`.

The replay file holds the finding key and the concrete failing input.  Replaying re-runs the property's check (quick
tier, evidence redirected to a scratch directory) against the current tree and reports whether a violation with the
same key is reproduced: exit 1 + VIOLATION line if it is, exit 0 if the tree no longer shows it."""
from __future__ import annotations

import json
import os
import subprocess
import sys
import tempfile


def main():
    prop, path = sys.argv[1], sys.argv[2]
    with open(path) as fp:
        rec = json.load(fp)
    key = rec.get("key")
    print("replaying %s finding %r: %s" % (prop, key, rec.get("what")))
    with tempfile.TemporaryDirectory(prefix="replay_") as tmp:
        env = dict(os.environ, VERIF_EVIDENCE_DIR=tmp, VERIF_REPLAY_DIR=tmp)
        r = subprocess.run([sys.executable, "-m", "harness.%s" % prop.lower(), "quick"], env=env, capture_output=True, text=True)
        hits = []
        try:
            with open(os.path.join(tmp, prop + ".json")) as fp:
                ev = json.load(fp)
            hits = [v for v in ev["coverage"].get("violations", []) if v.get("key") == key]
            known = [v for v in ev["coverage"].get("known_findings_hit", []) if v.get("key") == key]
        except Exception as e:
            print("HARNESS-ERROR could not read the replay run's evidence: %s" % e)
            return 3
        if hits:
            print("VIOLATION property=%s replay=%s" % (prop, path))
            print("  what: %s" % hits[0].get("what"))
            return 1
        if known:
            print("KNOWN-FINDING: property=%s %s" % (prop, known[0].get("what")))
            return 0
        print("not reproduced on the current tree (check exit code %d)" % r.returncode)
        return 0


if __name__ == "__main__":
    sys.exit(main())
