"""C14 -- deterministic and isolated: the fragments that are statements about values the code computes.

Claimed (bounded histories, symbolic data, z3 equality of what is observed):
  H1  phonon contribution objects: every result read twice / in another order is the same array
  H2  task list: results read twice, adiabatic before isothermal or after
  H3  calculator interfaces (volume and pressure base): every quantity read twice and in two orders
  H4  write_output twice / keywords in another order: the same tables reach the table writer
  H5  two calculators interleaved in one process: the first one's results are unchanged by the second
  H6  symmetry filling of an already filled (consistent) table changes nothing
  H7  hash seed, as far as it can reach a value: every iteration order of the sets built in update_config and _calculate_compliances
      (finite-domain symbolic permutations, forking executor) gives the same merged configuration / the same stiffness matrix
Outside (environment, not values): hash-seed effects other than set iteration order, unrelated directory entries, byte-identical files."""
from __future__ import annotations

import os
import random
import sys
import time
import warnings

import numpy
from fractions import Fraction

from harness.common import Check, run_main, seed
from harness import phonon_common as PC
from harness import pipeline as PL
from harness import c07 as C7
from harness import c15 as C15
from harness import fill_common as FC
from harness.c06 import v2p_stub_factory
from symnum import sym as S, solver as Z, executor as X
from symnum.sym import Sym, SymError, new_context, symvars
from symnum.npproxy import NumpyProxy, patched


def arrays_equal(a, b, name):
    a = numpy.asarray(a, dtype=object)
    b = numpy.asarray(b, dtype=object)
    if a.shape != b.shape:
        return False
    for x, y in zip(a.ravel().tolist(), b.ravel().tolist()):
        x, y = Sym.of(x), Sym.of(y)
        if x.same(y):
            continue
        ux = any(n.startswith("undef!") for n in Z._closure_vars(x))
        uy = any(n.startswith("undef!") for n in Z._closure_vars(y))
        if ux and uy:
            continue        # undefined both times (x/0 at the T = 0 row of an unmasked intermediate): nothing to compare
        if Z.prove_equal(x, y, name=name, timeout_ms=10000)[0] != "unsat":
            return False
    return True


# ---------------------------------------------------------------------------------------------------------------------
def flat(x):
    """1-D object array of the scalars of a result (arrays, or lists / tuples of arrays of different shapes)."""
    if isinstance(x, (list, tuple)):
        parts = [flat(y) for y in x]
        return numpy.concatenate(parts) if parts else numpy.empty(0, dtype=object)
    a = numpy.asarray(x, dtype=object)
    if a.dtype == object and a.size and isinstance(a.ravel()[0], (numpy.ndarray, list, tuple)):
        return flat(list(a.ravel()))
    return a.ravel().copy()


def cached_names(cls):
    """Every property / LazyProperty the class (and its bases) defines: the results a caller -- or another property -- may read."""
    from lazy_property import LazyProperty
    out = []
    for klass in reversed(cls.__mro__):
        for n, v in vars(klass).items():
            if isinstance(v, (property, LazyProperty)) and not n.startswith("_") and n not in out:
                out.append(n)
    return out


def h1_orders(names, rng):
    r = random.Random(14)
    shuffled = list(names)
    r.shuffle(shuffled)
    rot = names[len(names) // 2:] + names[:len(names) // 2]
    return [list(names), list(reversed(names)), shuffled, rot]


def h1_phonon_objects(chk, rng):
    import cij.core.phonon_contribution.nonshear as ns
    chk.encode(ns.LongitudinalElasticModulusPhononContribution, ns.OffDiagonalElasticModulusPhononContribution)
    for cls_name in ("LongitudinalElasticModulusPhononContribution", "OffDiagonalElasticModulusPhononContribution"):
        ctx = new_context()
        PC.declare_constants(ctx)
        d = PC.make_duck(ctx, 2, 3, 2, n_sym_T=1)
        ei = symvars("ei", (2,), positive=True, lo=0, hi=1)
        ej = symvars("ej", (2,), positive=True, lo=0, hi=1)
        cls = getattr(ns, cls_name)
        observed = []
        fails = []
        t0 = time.time()
        names = []

        def scenario(order):
            with patched((ns, {"numpy": NumpyProxy()})):
                o = cls(d, (ei, ei) if "Longitudinal" in cls_name else (ei, ej))
                first = {n: flat(getattr(o, n)) for n in order}
                second = {n: flat(getattr(o, n)) for n in reversed(order)}
            return first, second
        try:
            # the results of the object: all its (lazy) properties that evaluate on the duck calculator, the cached intermediates included
            for n in cached_names(cls):
                try:
                    X.run_single_path(lambda: scenario([n]), name="C14:H1:probe", generic=True)
                    names.append(n)
                except SymError:
                    raise
                except Exception:
                    pass
            orders = h1_orders(names, rng)
            for order in orders:
                first, second = X.run_single_path(lambda: scenario(order), name="C14:H1", generic=True)
                observed.append(first)
                for n in order:
                    if not arrays_equal(first[n], second[n], "C14:H1:twice"):
                        fails.append("%s read a second time (after the other results) differs" % n)
            for other in observed[1:]:
                for n in names:
                    if not arrays_equal(observed[0][n], other[n], "C14:H1:order"):
                        fails.append("%s depends on the order in which the results were read" % n)
        except SymError as e:
            chk.inconclusive("H1 " + cls_name, str(e))
            continue
        except Exception as e:
            fails.append("raises %s: %s" % (type(e).__name__, e))
        chk.obligation("H1 %s: %d results (%s) read in %d orders and twice each are the same arrays" % (cls_name, len(names), ", ".join(names), 4),
                       "unsat" if not fails else "sat", seconds=round(time.time() - t0, 2), kind="history(access order)", detail=sorted(set(fails))[:3])
        chk.witness("H1 %s: cached intermediates are among the results read" % cls_name, "sat" if len(names) >= 6 else "unsat")
        if fails:
            replay_h1(chk, ns, cls_name, rng, fails[0], names)


def replay_h1(chk, ns, cls_name, rng, what, names):
    d = PL.float_duck(2, 3, 2, 2, rng)
    e = (numpy.array([0.3, 0.32]), numpy.array([0.3, 0.32])) if "Longitudinal" in cls_name else (numpy.array([0.3, 0.32]), numpy.array([0.36, 0.33]))
    cls = getattr(ns, cls_name)
    try:
        with numpy.errstate(all="ignore"):
            ref = {n: flat(getattr(cls(d, e), n)).astype(float) for n in names}        # a fresh object per quantity
            for order in h1_orders(names, rng):
                o = cls(d, e)
                got1 = {n: flat(getattr(o, n)).astype(float) for n in order}
                got2 = {n: flat(getattr(o, n)).astype(float) for n in reversed(order)}
                for n in names:
                    for g in (got1[n], got2[n]):
                        fin = numpy.isfinite(ref[n]) & numpy.isfinite(g)
                        if (numpy.isfinite(ref[n]) != numpy.isfinite(g)).any() or (fin.any() and numpy.abs(g[fin] - ref[n][fin]).max() > 1e-12 * numpy.abs(ref[n][fin]).max() + 1e-300):
                            chk.violation("history:phonon-object:%s" % n, "%s.%s differs from its value on a fresh object after the results were read "
                                          "in the order %s (and back)" % (cls_name, n, order), dict(order=order))
                            return
    except Exception as ex:
        chk.violation("history:phonon-object:raises", "%s raises %s: %s" % (cls_name, type(ex).__name__, ex), {})
        return
    chk.harness_error("C14 H1: '%s' did not reproduce" % what)


# ---------------------------------------------------------------------------------------------------------------------
def h2_task_list(chk, rng):
    tk, sh, ns, c_ = PL.modules()
    chk.encode(tk.PhononContributionTaskList.get_isothermal_results, tk.PhononContributionTaskList.get_adiabatic_results)
    ctx = new_context()
    PC.declare_constants(ctx)
    duck = PC.make_duck(ctx, 2, 3, 1, n_sym_T=1)
    strain = symvars("e", (1, 3), positive=True)
    keys = ["c11", "c12", "c44", "c15"]
    proxy = NumpyProxy()
    proxy.close_mode = "structural"
    fails = []
    t0 = time.time()

    def scenario(first_kind):
        import cij.core.phonon_contribution.nonshear as ns_
        with patched((tk, {"numpy": proxy}), (sh, {"numpy": proxy}), (ns_, {"numpy": proxy})):
            tl = tk.PhononContributionTaskList(duck)
            tl.resolve(strain, [c_(k[1:]) for k in keys])
            tl.calculate()
            get = {"iso": tl.get_isothermal_results, "adi": tl.get_adiabatic_results}
            order = [first_kind, "adi" if first_kind == "iso" else "iso", first_kind]
            out = []
            for kind in order:
                out.append((kind, {"c%d%d" % k.v: numpy.array(v, dtype=object).copy() for k, v in get[kind]().items()}))
            return out
    try:
        runs = {fk: X.run_single_path(lambda: scenario(fk), name="C14:H2", generic=True) for fk in ("iso", "adi")}
        ref = {kind: res for kind, res in runs["iso"][:2]}
        for fk, seq in runs.items():
            for kind, res in seq:
                for k in keys:
                    if not arrays_equal(res[k], ref[kind][k], "C14:H2"):
                        fails.append("%s results of %s depend on what was read before (first read: %s)" % (kind, k, fk))
    except SymError as e:
        chk.inconclusive("H2", str(e))
        return
    except Exception as e:
        fails.append("raises %s: %s" % (type(e).__name__, e))
    chk.obligation("H2 task list: isothermal / adiabatic results read in both orders and repeatedly are the same arrays [%d keys]" % len(keys),
                   "unsat" if not fails else "sat", seconds=round(time.time() - t0, 2), kind="history(access order)", detail=sorted(set(fails))[:3])
    if fails:
        d = PL.float_duck(2, 3, 1, 2, rng)
        e = numpy.array([[0.3, 0.33, 0.37]])
        try:
            with numpy.errstate(all="ignore"):
                iso, adi, tl = PL.real_pipeline(d, e, keys)
                adi2 = {"c%d%d" % k.v: numpy.asarray(v) for k, v in tl.get_adiabatic_results().items()}
                iso2 = {"c%d%d" % k.v: numpy.asarray(v) for k, v in tl.get_isothermal_results().items()}
            bad = [k for k in keys if numpy.abs(iso2[k] - iso[k]).max() > 0 or numpy.abs(adi2[k] - adi[k]).max() > 0]
            if bad:
                chk.violation("history:task-list", "results of %s change when they are read a second time" % bad, {})
            else:
                chk.harness_error("C14 H2: '%s' did not reproduce" % fails[0])
        except Exception as ex:
            chk.violation("history:task-list:raises", "%s: %s" % (type(ex).__name__, ex), {})


# ---------------------------------------------------------------------------------------------------------------------
QUANT = ["bulk_modulus_voigt", "bulk_modulus_reuss", "bulk_modulus_voigt_reuss_hill", "shear_modulus_voigt", "shear_modulus_reuss",
         "shear_modulus_voigt_reuss_hill", "primary_velocities", "secondary_velocities"]


def h3_h4_interfaces(chk, rng, tier):
    import cij.core.calculator as cc
    import cij.io.output.results_writer as rw
    from cij.util import c_
    chk.encode(cc.CijVolumeBaseInterface, cc.CijPressureBaseInterface, cc.CijPressureBaseModulusInterface, cc.Calculator.write_output)
    ctx, calc, C, Ciso, keys, (nt, nv, ntp), U = C15.make_setup(cc, tier)
    proxy = NumpyProxy()
    proxy.close_mode = "structural"
    v2p, _calls = v2p_stub_factory(ctx, nt, ntp)
    sink = []

    def save_tv(value, t, vgrid, tsample, fname):
        sink.append((fname, numpy.asarray(value, dtype=object).copy()))

    def save_tp(value, t, pgrid, psample, fname):
        sink.append((fname, numpy.asarray(value, dtype=object).copy()))
    vb, pb = calc.volume_based_result, calc.pressure_based_result
    ck = [c_(k[1:]) for k in keys[:4]]
    # a second calculator over the very same symbolic data: read in the opposite order, so that an order dependence cannot hide behind
    # state that the first series of reads has already left in the first object
    calc_b = object.__new__(cc.Calculator)
    calc_b.__dict__.update({k: v for k, v in calc.__dict__.items() if k not in ("volume_based_result", "pressure_based_result", "_compliances")})
    calc_b.__dict__["volume_based_result"] = cc.CijVolumeBaseInterface(calc_b)
    calc_b.__dict__["pressure_based_result"] = cc.CijPressureBaseInterface(calc_b)

    def read_all(order, which=None):
        out = {}
        vb_, pb_ = (which.volume_based_result, which.pressure_based_result) if which is not None else (vb, pb)
        for base, tag in ((vb_, "tv"), (pb_, "tp")):
            seq = []
            for kind in order:
                mod = base.modulus_adiabatic if kind == "adi" else base.modulus_isothermal
                seq += [((tag, kind, repr(k)), lambda m=mod, k=k: m[k]) for k in ck]
            seq += [((tag, n), lambda b=base, n=n: getattr(b, n)) for n in QUANT]
            seq += [((tag, "c11s"), lambda b=base: b.c11s), ((tag, "c11t"), lambda b=base: b.c11t), ((tag, "s11"), lambda b=base: b.s11)]
            if order[0] == "iso":
                seq = seq[len(ck) * 2:] + seq[:len(ck) * 2]      # scalar quantities first, then isothermal before adiabatic
            for key, f in seq + seq:            # everything twice
                val = numpy.array(f(), dtype=object).copy()
                out.setdefault(key, []).append(val)
        return out

    fails = []
    t0 = time.time()
    try:
        def scenario():
            with patched((cc, {"numpy": proxy, "v2p": v2p, "save_x_tv": save_tv, "save_x_tp": save_tp})):
                calc._calculate_compliances()
                calc_b._calculate_compliances()
                r1 = read_all(["adi", "iso"])
                r2 = read_all(["iso", "adi"], which=calc_b)
                # H4: the writer twice and with the keyword list in another order
                writes = []
                # one configuration object for all calls (as in a real Calculator), with entries in dict form carrying file-name and
                # unit overrides; the second call sees the same entries listed in reverse
                ov1 = {"keyword": "bm_VRH", "fname": "my_bm_{base}.txt", "unit": "rydberg / bohr^3"}
                ov2 = {"keyword": "cij_t", "fname": "my_c{ij}t_{base}.txt"}
                ov3 = {"keyword": "p", "fname": "my_p_{base}.txt"}
                cfg1 = {"pressure_base": ["cij", ov2, ov1, "bm_VRH", "v"], "volume_base": ["cij_t", "cij", "G_R", ov3]}
                cfg2 = {"pressure_base": list(reversed(cfg1["pressure_base"])), "volume_base": list(reversed(cfg1["volume_base"]))}
                for cfg in (cfg1, cfg2, cfg1):
                    del sink[:]
                    calc.__dict__["config"] = {"output": cfg}
                    calc.write_output()
                    writes.append(list(sink))
                return r1, r2, writes
        r1, r2, writes = X.run_single_path(scenario, name="C14:H3", generic=True)
    except SymError as e:
        chk.inconclusive("H3/H4", str(e))
        return
    except Exception as e:
        fails.append("raises %s: %s" % (type(e).__name__, e))
        r1 = r2 = writes = None
    n_cmp = 0
    if r1 is not None:
        for key, vals in r1.items():
            for v in vals[1:] + r2.get(key, []):
                n_cmp += 1
                if not arrays_equal(vals[0], v, "C14:H3"):
                    fails.append("%s depends on what was read before / how often" % (key,))
                    break
    chk.obligation("H3 interfaces: %d quantities of both bases read twice each and in two orders (adiabatic first / isothermal first) are the "
                   "same arrays [%d comparisons]" % (len(r1) if r1 else 0, n_cmp), "unsat" if not fails else "sat",
                   seconds=round(time.time() - t0, 2), kind="history(access order)", detail=sorted(set(map(str, fails)))[:3])
    wf = []
    if writes is not None:
        ref = {}
        for fname, val in writes[0]:
            if fname in ref:
                wf.append("%s written twice by one write_output" % fname)
            ref[fname] = val
        for wi, w in enumerate(writes[1:], 1):
            got = dict(w)
            if set(got) != set(ref):
                wf.append("write_output #%d writes another set of files" % (wi + 1))
                continue
            for fname in ref:
                if not arrays_equal(ref[fname], got[fname], "C14:H4"):
                    wf.append("%s differs between write_output calls (keyword order / repetition)" % fname)
    chk.obligation("H4 write_output three times (once with the keyword lists reversed): the same table reaches the table writer for every file "
                   "[%d files]" % (len(writes[0]) if writes else 0), "unsat" if (writes is not None and not wf) else "sat",
                   kind="history(repeated writes)", detail=sorted(set(wf))[:3])
    if wf and not fails:
        replay_h4(chk, cc, wf[0])
    elif fails or wf:
        C15.replay(chk, cc, rw, rng, (fails or wf)[0])


def replay_h4(chk, cc, what):
    """Stage R for the repeated-write history: the real Calculator on a shipped example whose output section has entries with file-name
    and unit overrides; write_output three times into fresh directories, the files of each call compared byte for byte."""
    import shutil
    import tempfile
    import yaml
    src = os.path.join(os.environ.get("CIJ_REPO", "/repo"), "examples", "akimotoite")
    tmp = tempfile.mkdtemp(prefix="c14w_")
    cwd = os.getcwd()
    import logging
    try:
        for f in ("input01", "input02"):
            shutil.copy(os.path.join(src, f), tmp)
        cfg = yaml.safe_load(open(os.path.join(src, "settings.yaml")))
        cfg["qha"]["settings"].update(NT=8, NTV=41)
        cfg["output"] = {"pressure_base": ["cij", {"keyword": "cij_t", "fname": "my_c{ij}t_{base}.txt"},
                                           {"keyword": "bm_VRH", "fname": "my_bm_{base}.txt", "unit": "kbar"}, "bm_VRH", "v"],
                         "volume_base": ["G_R", {"keyword": "p", "fname": "my_p_{base}.txt"}]}
        with open(os.path.join(tmp, "settings.yaml"), "w") as fp:
            yaml.safe_dump(cfg, fp)
        logging.disable(logging.CRITICAL)
        with warnings.catch_warnings():
            warnings.simplefilter("ignore")
            calc = cc.Calculator(os.path.join(tmp, "settings.yaml"))
            snaps = []
            for i in range(3):
                d = os.path.join(tmp, "out%d" % i)
                os.makedirs(d)
                os.chdir(d)
                calc.write_output()
                os.chdir(cwd)
                snaps.append({f: open(os.path.join(d, f), "rb").read() for f in sorted(os.listdir(d))})
        for i in (1, 2):
            if set(snaps[i]) != set(snaps[0]):
                chk.violation("history:write_output:file-set", "write_output call #%d on the same Calculator writes the files %s, the first call wrote %s "
                              "(output entries with fname / unit overrides)" % (i + 1, sorted(set(snaps[i]) ^ set(snaps[0]))[:4], len(snaps[0])), dict(output=cfg["output"]))
                return
            diff = [f for f in snaps[0] if snaps[0][f] != snaps[i][f]]
            if diff:
                chk.violation("history:write_output:bytes", "write_output call #%d rewrites %s with other bytes than the first call" % (i + 1, diff[:3]),
                              dict(output=cfg["output"]))
                return
    except Exception as e:
        chk.violation("history:write_output:raises", "repeated write_output raises %s: %s" % (type(e).__name__, str(e)[:120]), {})
        return
    finally:
        logging.disable(logging.NOTSET)
        os.chdir(cwd)
        shutil.rmtree(tmp, ignore_errors=True)
    chk.harness_error("C14 H4: '%s' did not reproduce through the real Calculator" % what)


# ---------------------------------------------------------------------------------------------------------------------
def h6_fill_idempotent(chk, rng, tier):
    import cij.util.fill as F
    chk.encode(F.fill_cij)
    systems = ["cubic", "trigonal6"] if tier == "quick" else ["cubic", "hexagonal", "trigonal6", "trigonal7", "tetragonal7", "orthorhombic", "monoclinic"]
    for system in systems:
        name = "H6 fill(fill(table)) == fill(table) [%s, symmetry-consistent symbolic table, 2 rows]" % system
        t0 = time.time()
        basis, nonzero = [], []
        try:
            rows = FC.capture_relations(F, system)
            basis = FC.invariant_basis(rows)
            ctx = new_context()
            t_rows = FC.symbolic_invariant(ctx, basis, 2)
            nonzero = [k for k in FC.KEYS if any(b[k] for b in basis)]
            df = FC.make_table(t_rows, nonzero)
            ex = X.Explorer(max_paths=16, name="C14:H6")
            ex.prefer = FC.no_drop_cut
            paths, proxy, ex = FC.run_fill(F, df, system, explorer=ex)
            once = paths[0].result
            ex2 = X.Explorer(max_paths=16, name="C14:H6b")
            ex2.prefer = FC.no_drop_cut
            paths2, _, _ = FC.run_fill(F, once.copy(), system, explorer=ex2)
            twice = paths2[0].result
            ok = paths[0].exception is None and paths2[0].exception is None and sorted(once.columns) == sorted(twice.columns)
            if ok:
                for c in once.columns:
                    ok = ok and arrays_equal(once[c].to_numpy(dtype=object), twice[c].to_numpy(dtype=object), "C14:H6")
        except (SymError, X.PathBudgetExceeded) as e:
            chk.inconclusive(name, str(e))
            continue
        except Exception as e:
            ok = False
            chk.note("%s: %s: %s" % (name, type(e).__name__, e))
        chk.obligation(name, "unsat" if ok else "sat", seconds=round(time.time() - t0, 2), kind="idempotence")
        if not ok:
            import pandas
            t = {"V": [100.0, 95.0]}
            coeffs = [[rng.uniform(50, 300) for _ in basis] for _ in range(2)]
            for k in nonzero:
                t[k] = [sum(c * float(b[k]) for c, b in zip(coeffs[r], basis)) for r in range(2)]
            try:
                with warnings.catch_warnings():
                    warnings.simplefilter("ignore")
                    a = F.fill_cij(pandas.DataFrame(t), system)
                    b = F.fill_cij(a.copy(), system)
                bad = sorted(a.columns) != sorted(b.columns) or any(
                    numpy.abs(a[c].to_numpy(dtype=float) - b[c].to_numpy(dtype=float)).max() > 1e-9 * (1 + numpy.abs(a[c].to_numpy(dtype=float)).max()) for c in a.columns)
                if bad:
                    chk.violation("idempotence:%s" % system, "filling an already filled %s table changes it" % system, dict(table=t))
                else:
                    chk.harness_error("C14 H6 %s did not reproduce" % system)
            except Exception as ex_:
                chk.violation("idempotence:%s:raises" % system, "filling an already filled %s table raises %s: %s" % (system, type(ex_).__name__, ex_), dict(table=t))


def h6_fill_idempotent_accepted(chk, rng, tier):
    """The other tables fill_cij accepts: supplied values that contradict the relations by less than the residual tolerance.
    'Already filled' is then the accepted output of the first call, and filling it again must change nothing either."""
    import pandas
    import cij.util.fill as F
    system = "cubic"
    name = "H6b fill(fill(table)) == fill(table) [%s, accepted table off the relations by eps on one supplied value, 1/1000 <= eps <= 1/10]" % system
    t0 = time.time()
    ok = True
    try:
        rows = FC.capture_relations(F, system)
        basis = FC.invariant_basis(rows)
        ctx = new_context()
        t_rows = FC.symbolic_invariant(ctx, basis, 2)
        eps = ctx.var("eps", lo=Fraction(1, 1000), hi=Fraction(1, 10))
        nonzero = [k for k in FC.KEYS if any(b[k] for b in basis)]
        t_rows[0] = dict(t_rows[0])
        t_rows[0]["c22"] = t_rows[0]["c22"] + eps
        df = FC.make_table(t_rows, nonzero)
        ex = X.Explorer(max_paths=16, name="C14:H6b")
        ex.prefer = FC.no_drop_cut
        paths, proxy, ex = FC.run_fill(F, df, system, explorer=ex)
        accepted = [p for p in paths if p.exception is None]
        chk.witness("H6b: the perturbed table is accepted", "sat" if accepted else "unsat")
        for p in accepted:
            with X.path_assumptions(p):
                once = p.result
                ex2 = X.Explorer(max_paths=16, name="C14:H6b2")
                ex2.prefer = FC.no_drop_cut
                paths2, _, _ = FC.run_fill(F, once.copy(), system, explorer=ex2)
                for p2 in paths2:
                    if p2.exception is not None:
                        ok = False
                        continue
                    with X.path_assumptions(p2):
                        twice = p2.result
                        ok = ok and sorted(once.columns) == sorted(twice.columns)
                        for c in once.columns:
                            ok = ok and arrays_equal(once[c].to_numpy(dtype=object), twice[c].to_numpy(dtype=object), "C14:H6b")
                            if not ok:
                                break
    except (SymError, X.PathBudgetExceeded) as e:
        chk.inconclusive(name, str(e))
        return
    chk.obligation(name, "unsat" if ok else "sat", seconds=round(time.time() - t0, 2), kind="idempotence")
    if not ok:
        t = {"V": [100.0, 95.0]}
        for k in ("c11", "c22", "c33"):
            t[k] = [200.0, 210.0]
        for k in ("c12", "c13", "c23"):
            t[k] = [100.0, 105.0]
        for k in ("c44", "c55", "c66"):
            t[k] = [50.0, 55.0]
        t["c22"] = [200.05, 210.0]
        with warnings.catch_warnings():
            warnings.simplefilter("ignore")
            a = F.fill_cij(pandas.DataFrame(t), system)
            b = F.fill_cij(a.copy(), system)
        d = max(numpy.abs(a[c].to_numpy(dtype=float) - b[c].to_numpy(dtype=float)).max() for c in a.columns)
        if sorted(a.columns) != sorted(b.columns) or d > 1e-9 * 200:
            chk.violation("idempotence:accepted-inconsistent", "filling an already filled %s table changes it when the original table was accepted with a "
                          "misfit below the residual tolerance (c22 = c11 + 0.05 at one volume): the relations are soft least-squares rows, so "
                          "each further fill moves c11, c22, c33 again (first to second fill: %.3g)" % (system, d), dict(table=t))
        else:
            chk.harness_error("C14 H6b did not reproduce")


def h6_fill_idempotent_zero_component(chk, rng, tier):
    """An already filled table in which a component the symmetry leaves free happens to vanish at every volume (e.g. monoclinic c46 = 0):
    the first fill omits the column (C09's drop rule); filling the result again must still change nothing."""
    import pandas
    import cij.util.fill as F
    system = "monoclinic"
    name = "H6c fill(fill(table)) == fill(table) [%s, a symmetry-allowed component identically zero in the supplied table]" % system
    t0 = time.time()
    ok = True
    alone = None
    try:
        rows = FC.capture_relations(F, system)
        basis = FC.invariant_basis(rows)
        nonzero = [k for k in FC.KEYS if any(b[k] for b in basis)]
        alone = next((i for i, b in enumerate(basis) if sum(1 for k in FC.KEYS if b[k]) == 1 and int([k for k in FC.KEYS if b[k]][0][1]) >= 4
                      and [k for k in FC.KEYS if b[k]][0][1] != [k for k in FC.KEYS if b[k]][0][2]), None)
        if alone is None:
            chk.inconclusive(name, "no free off-diagonal shear component standing alone in the invariant basis")
            return
        zkey = [k for k in FC.KEYS if basis[alone][k]][0]
        ctx = new_context()
        t_rows = FC.symbolic_invariant(ctx, [b for i, b in enumerate(basis) if i != alone], 2)
        df = FC.make_table(t_rows, nonzero)          # the column of zkey is there and holds exact zeros
        ex = X.Explorer(max_paths=16, name="C14:H6c")
        ex.prefer = FC.no_drop_cut
        paths, proxy, ex = FC.run_fill(F, df, system, explorer=ex)
        chk.witness("H6c: the table with %s = 0 is accepted by the first fill" % zkey, "sat" if paths and paths[0].exception is None else "unsat")
        once = paths[0].result
        if paths[0].exception is not None or once is None:
            chk.inconclusive(name, "the first fill of the symbolic table did not complete: %s" % type(paths[0].exception).__name__)
            return
        ex2 = X.Explorer(max_paths=16, name="C14:H6c2")
        ex2.prefer = FC.no_drop_cut
        paths2, _, _ = FC.run_fill(F, once.copy(), system, explorer=ex2)
        ok = paths2[0].exception is None and sorted(once.columns) == sorted(paths2[0].result.columns)
        if ok:
            for c in once.columns:
                ok = ok and arrays_equal(once[c].to_numpy(dtype=object), paths2[0].result[c].to_numpy(dtype=object), "C14:H6c")
    except (SymError, X.PathBudgetExceeded) as e:
        chk.inconclusive(name, str(e))
        return
    chk.obligation(name, "unsat" if ok else "sat", seconds=round(time.time() - t0, 2), kind="idempotence")
    if not ok:
        coeffs = [[rng.uniform(50, 300) for _ in basis] for _ in range(2)]
        t = {"V": [100.0, 95.0]}
        for k in nonzero:
            t[k] = [sum(c * float(b[k]) for i, (c, b) in enumerate(zip(coeffs[r], basis)) if i != alone) for r in range(2)]
        try:
            with warnings.catch_warnings():
                warnings.simplefilter("ignore")
                a = F.fill_cij(pandas.DataFrame(t), system)
        except BaseException as e:
            chk.harness_error("C14 H6c: the first fill raises %s" % type(e).__name__)
            return
        try:
            with warnings.catch_warnings():
                warnings.simplefilter("ignore")
                b = F.fill_cij(a.copy(), system)
            same = sorted(a.columns) == sorted(b.columns) and all(numpy.abs(a[c].to_numpy(dtype=float) - b[c].to_numpy(dtype=float)).max() <= 1e-9 * 300 for c in a.columns)
            if same:
                chk.harness_error("C14 H6c did not reproduce")
            else:
                chk.violation("idempotence:zero-free-component", "filling an already filled %s table whose free component %s is zero at every volume changes it" % (system, zkey), dict(table=t))
        except BaseException as e:
            if isinstance(e, (KeyboardInterrupt, SystemExit)):
                raise
            chk.violation("idempotence:zero-free-component", "fill_cij refuses its own output: a %s table with the symmetry-allowed component %s = 0 at every volume is "
                          "accepted and filled (the zero column is omitted), filling the result again raises %s: %s" % (system, zkey, type(e).__name__, str(e)[:80]), dict(table=t))



# ---------------------------------------------------------------------------------------------------------------------
# H7: iteration order of sets (the only place where the interpreter's hash seed can reach a value the code computes with)
def _plain(it):
    """Elements of an iterable for *building* another set: an OrderSet is read without drawing an order (the result is a set again)."""
    return list(it._items) if isinstance(it, OrderSet) else list(it)


class OrderSet:
    """Stand-in for the builtin `set` inside the analysed modules: same contents, but every iteration walks the elements in an order
    chosen by fresh finite-domain symbolic integers (a Lehmer code), so that the forking executor explores -- and z3 prunes -- every
    order a hash seed could produce."""
    runs = [0]

    def __init__(self, it=()):
        self._items = list(dict.fromkeys(_plain(it)))

    def __iter__(self):
        ctx = S.current()
        k = OrderSet.runs[0]
        OrderSet.runs[0] += 1
        items = list(self._items)
        out = []
        pos = 0
        while len(items) > 1:
            v = ctx.var("ord%d_%d_of%d" % (k, pos, len(items)), domain=range(len(items)))
            out.append(items.pop(int(v)))
            pos += 1
        out.extend(items)
        return iter(out)

    def __contains__(self, x):
        return x in self._items

    def __len__(self):
        return len(self._items)

    def add(self, x):
        if x not in self._items:
            self._items.append(x)

    def __or__(self, o):
        return type(self)(list(self._items) + _plain(o))

    __ror__ = __or__

    def __and__(self, o):
        return type(self)([x for x in self._items if x in o])

    def __sub__(self, o):
        return type(self)([x for x in self._items if x not in o])

    def __eq__(self, o):
        return isinstance(o, (OrderSet, set, frozenset)) and len(self) == len(o) and all(x in o for x in self._items)

    __hash__ = None

    def __bool__(self):
        return bool(self._items)

    def union(self, *others):
        out = type(self)(self._items)
        for o in others:
            out.update(o)
        return out

    def update(self, *others):
        for o in others:
            for x in _plain(o):
                self.add(x)

    def intersection(self, *others):
        return type(self)([x for x in self._items if all(x in o for o in others)])

    def difference(self, *others):
        return type(self)([x for x in self._items if not any(x in o for o in others)])

    def symmetric_difference(self, o):
        o = _plain(o)
        return type(self)([x for x in self._items if x not in o] + [x for x in o if x not in self._items])

    __xor__ = symmetric_difference

    def issubset(self, o):
        return all(x in o for x in self._items)

    __le__ = issubset

    def issuperset(self, o):
        return all(x in self._items for x in _plain(o))

    __ge__ = issuperset

    def isdisjoint(self, o):
        return not any(x in o for x in self._items)

    def discard(self, x):
        if x in self._items:
            self._items.remove(x)

    def remove(self, x):
        if x not in self._items:
            raise KeyError(x)
        self._items.remove(x)

    def pop(self):
        return list(self).pop(0) if not self._items else self._items.pop(list(self._items).index(next(iter(self))))

    def copy(self):
        return type(self)(self._items)

    def clear(self):
        del self._items[:]

    def __repr__(self):
        return "OrderSet(%r)" % (self._items,)


def make_pset(perm_seed):
    """Concrete twin of OrderSet for replays: the same set interface, iteration in the perm_seed-th permutation of the insertion order."""
    import itertools as it

    class PSet(OrderSet):
        def __iter__(self):
            items = list(self._items)
            perms = list(it.islice(it.permutations(items), 0, 720))
            return iter(perms[perm_seed % len(perms)])
    return PSet


def set_iteration_sites():
    """(module, function, line) of every `set(...)` / set display / set comprehension in the modules the property is anchored in, from the
    current source (reported with the evidence: these are the places H7 is about)."""
    import ast
    import cij
    root = os.path.dirname(cij.__file__)
    sites = []
    for rel in ("core/calculator.py", "core/tasks.py", "core/full_modulus.py", "io/config/config.py", "io/output/results_writer.py",
                "util/fill.py", "util/units.py"):
        fn = os.path.join(root, rel)
        try:
            tree = ast.parse(open(fn).read())
        except (OSError, SyntaxError):
            continue
        for node in ast.walk(tree):
            if isinstance(node, (ast.FunctionDef, ast.AsyncFunctionDef)):
                for sub in ast.walk(node):
                    if (isinstance(sub, ast.Call) and isinstance(sub.func, ast.Name) and sub.func.id in ("set", "frozenset")) \
                            or isinstance(sub, (ast.Set, ast.SetComp)):
                        sites.append("%s:%s:%d" % (rel, node.name, sub.lineno))
    return sorted(set(sites))


def _dict_same(a, b):
    if isinstance(a, dict) != isinstance(b, dict):
        return False
    if isinstance(a, dict):
        return set(a) == set(b) and all(_dict_same(a[k], b[k]) for k in a)
    if isinstance(a, Sym) or isinstance(b, Sym):
        return Sym.of(a).same(Sym.of(b))
    return type(a) is type(b) and a == b


def _ref_merge(user, default):
    out = {}
    for k in list(default) + [k for k in user if k not in default]:
        if k in user and k in default and isinstance(user[k], dict) and isinstance(default[k], dict):
            out[k] = _ref_merge(user[k], default[k])
        elif k in user:
            out[k] = user[k]
        else:
            out[k] = default[k]
    return out


def h7_set_order(chk, rng, tier):
    import cij.io.config.config as cfgmod
    import cij.core.calculator as cc
    sites = set_iteration_sites()
    chk.note("set constructions in the anchored modules (current source): " + (", ".join(sites) if sites else "none"))
    # ---- (a) update_config: every iteration order of the merged key set, two nesting levels -------------------------------------
    ctx = new_context()
    ctx.concretise_enabled = True
    u = [ctx.var("u%d" % i) for i in range(8)]
    d = [ctx.var("d%d" % i) for i in range(8)]
    skeletons = [
        ("flat", {"a": u[0], "b": u[1]}, {"b": d[0], "c": d[1], "d": d[2]}),
        ("nested", {"qha": {"settings": {"NT": u[0], "DT": u[1]}, "input": u[2]}, "elast": u[3]},
                   {"qha": {"settings": {"NT": d[0], "T_MIN": d[1]}, "input": d[2]}, "elast": {"settings": d[3]}, "output": {"pressure_base": d[4]}}),
        ("dict-over-leaf", {"x": {"p": u[0]}, "y": u[1], "z": {"q": u[2]}}, {"x": d[0], "y": {"p": d[1]}, "z": {"q": d[3], "r": d[4]}}),
    ]
    if tier == "thorough":
        skeletons.append(("wide", {"k%d" % i: u[i] for i in range(0, 5)}, {"k%d" % i: d[i] for i in range(2, 7)}))
    for name, user, default in skeletons:
        t0 = time.time()
        expect = _ref_merge(user, default)

        def fn(user=user, default=default):
            OrderSet.runs[0] = 0
            with patched((cfgmod, {"set": OrderSet})):
                return cfgmod.update_config(user, default)
        ex = X.Explorer(max_paths=6000, name="C14:H7:update_config:" + name, decision_timeout_ms=4000)
        try:
            paths = ex.run(fn)
        except X.PathBudgetExceeded as e:
            chk.inconclusive("H7 update_config " + name, str(e))
            continue
        bad = None
        for p in paths:
            if p.feasibility_unknown:
                chk.inconclusive("H7 update_config " + name, "a branch feasibility query returned unknown")
            if p.exception is not None:
                bad = "raises %s: %s" % (type(p.exception).__name__, p.exception)
                break
            if not _dict_same(p.result, expect):
                bad = "the merged configuration differs from 'user settings over defaults' for one iteration order of the key set"
                break
        chk.obligation("H7 update_config [%s]: the merged configuration is the same dictionary for every iteration order of the key sets "
                       "(%d orders explored, %d set iterations per run at most)" % (name, len(paths), OrderSet.runs[0]),
                       "unsat" if bad is None else "sat", seconds=round(time.time() - t0, 2), kind="order-independence",
                       logic="QF_LRA(finite domain)", detail=dict(solver_calls=ex.solver_calls, what=bad))
        if name == "nested":
            chk.witness("H7 update_config explores more than one order", "sat" if len(paths) > 1 or not any("update_config" in s_ for s_ in sites) else "unsat")
        if bad is not None:
            replay_h7_config(chk, cfgmod, bad)
    # ---- (b) the stiffness matrix handed to the inverse in Calculator._calculate_compliances ------------------------------------------
    keysets = [("orthotropic-9", 2, 1), ("monoclinic-13", 1, 1)] + ([("trigonal-7+", 1, 1)] if tier == "thorough" else [])
    for ks, nt, nv in keysets:
        t0 = time.time()
        ctx = new_context()
        ctx.concretise_enabled = True
        proxy = NumpyProxy()
        proxy.close_mode = "structural"
        seen = []
        real_inv = proxy.linalg.inv

        class _L:
            def __getattr__(self, n):
                return getattr(proxy.linalg, n)

            def inv(self, a):
                seen.append(numpy.array(a, dtype=object, copy=True))
                return real_inv(a)
        calc, C, _ = C7.build_calculator(cc, ctx, C7.KEYSETS[ks], nt, nv, prefix="C")

        def fn():
            OrderSet.runs[0] = 0
            del seen[:]
            saved = proxy.linalg
            proxy.linalg = _L()
            try:
                with patched((cc, {"numpy": proxy, "set": OrderSet})):
                    calc.__dict__.pop("_compliances", None)
                    calc._calculate_compliances()
            finally:
                proxy.linalg = saved
            return [m.copy() for m in seen]
        ex = X.Explorer(max_paths=20000, name="C14:H7:compliances:" + ks, decision_timeout_ms=4000)
        try:
            paths = ex.run(fn)
        except X.PathBudgetExceeded as e:
            chk.inconclusive("H7 compliances " + ks, str(e))
            continue
        expect = numpy.zeros((nt, nv, 6, 6), dtype=object)
        for k, v in C.items():
            i, j = int(k[1]), int(k[2])
            expect[:, :, i - 1, j - 1] = v
            expect[:, :, j - 1, i - 1] = v
        bad = None
        for p in paths:
            if p.exception is not None:
                bad = "raises %s: %s" % (type(p.exception).__name__, p.exception)
                break
            if len(p.result) != 1 or p.result[0].shape != expect.shape or not all(
                    Sym.of(x).same(Sym.of(y)) for x, y in zip(p.result[0].ravel().tolist(), expect.ravel().tolist())):
                bad = "the 6x6 stiffness matrix handed to the inverse is not the symmetric matrix of the supplied components for one iteration order"
                break
        if ks == "orthotropic-9":
            chk.witness("H7 compliances explores more than one order", "sat" if len(paths) > 1 or not any("_calculate_compliances" in s_ for s_ in sites) else "unsat")
        chk.obligation("H7 compliances [%s]: the stiffness matrix that is inverted is the symmetric matrix of the components for every "
                       "iteration order of the index-pair sets (%d orders explored)" % (ks, len(paths)),
                       "unsat" if bad is None else "sat", seconds=round(time.time() - t0, 2), kind="order-independence",
                       logic="QF_LRA(finite domain)", detail=dict(solver_calls=ex.solver_calls, what=bad))
        if bad is not None:
            replay_h7_compliances(chk, cc, ks, bad)


def h7c_config_order_to_files(chk, rng, tier):
    """H7c: the key order of the merged configuration (decided by set iteration order inside update_config, i.e. by the hash seed) must not
    reach the files: the real update_config runs under OrderSet (all orders, forking executor), then the real write_output runs once per
    distinct key order of the merged output section; the last table written to every file name must be the same on every order -- also
    when a pressure-base and a volume-base entry name the same file."""
    import cij.io.config.config as cfgmod
    import cij.core.calculator as cc
    t0 = time.time()
    ov_p = {"keyword": "bm_VRH", "fname": "shared_bm.txt"}
    ov_v = {"keyword": "bm_VRH", "fname": "shared_bm.txt"}
    user = {"output": {"pressure_base": ["cij", ov_p, "v"], "volume_base": ["p", ov_v]}}
    default = {"output": {"pressure_base": ["cij", "bm_VRH"], "volume_base": ["p"]}, "elast": {"settings": {"mode_gamma": {"interpolator": "lsq_poly"}}}}
    ctx0 = new_context()
    ctx0.concretise_enabled = True

    def merge():
        OrderSet.runs[0] = 0
        with patched((cfgmod, {"set": OrderSet})):
            return cfgmod.update_config(user, default)
    ex = X.Explorer(max_paths=500, name="C14:H7c:merge", decision_timeout_ms=4000)
    try:
        paths = ex.run(merge)
    except (SymError, X.PathBudgetExceeded) as e:
        chk.inconclusive("H7c", str(e))
        return
    merged = {}
    for p in paths:
        if p.exception is not None:
            chk.obligation("H7c merged configuration", "sat", kind="order-independence", detail="raises %r" % (p.exception,))
            replay_h7_config(chk, cfgmod, "raises %r" % (p.exception,))
            return
        out = p.result.get("output", {})
        merged.setdefault(tuple(out.keys()), p.result)
    results = {}
    fails = []
    for order, cfg in sorted(merged.items()):
        ctx, calc, C, Ciso, keys, (nt, nv, ntp), U = C15.make_setup(cc, tier)
        proxy = NumpyProxy()
        proxy.close_mode = "structural"
        v2p, _calls = v2p_stub_factory(ctx, nt, ntp)
        sink = []

        def save_tv(value, t, vgrid, tsample, fname):
            sink.append((fname, ("tv", numpy.asarray(value, dtype=object).copy())))

        def save_tp(value, t, pgrid, psample, fname):
            sink.append((fname, ("tp", numpy.asarray(value, dtype=object).copy())))

        def scenario():
            with patched((cc, {"numpy": proxy, "v2p": v2p, "save_x_tv": save_tv, "save_x_tp": save_tp})):
                calc._calculate_compliances()
                del sink[:]
                calc.__dict__["config"] = cfg
                calc.write_output()
                return list(sink)
        try:
            w = X.run_single_path(scenario, name="C14:H7c", generic=True)
        except SymError as e:
            chk.inconclusive("H7c", str(e))
            return
        except Exception as e:
            fails.append("write_output raises %s: %s with the output section in key order %s" % (type(e).__name__, e, list(order)))
            continue
        results[order] = dict(w)        # last write wins, as on disk
    orders = sorted(results)
    if len(orders) >= 2:
        ref = results[orders[0]]
        for o in orders[1:]:
            if set(results[o]) != set(ref):
                fails.append("the set of files depends on the key order of the merged output section")
                continue
            for fname, (kind, val) in ref.items():
                k2, v2 = results[o][fname]
                if k2 != kind or not same_shape_sym(val, v2):
                    fails.append("file %s finally holds the (%s) table with the output section in key order %s and the (%s) table in key order %s"
                                 % (fname, kind.upper(), list(orders[0]), k2.upper(), list(o)))
    chk.obligation("H7c key order of the merged configuration (set iteration order in update_config = hash seed) does not reach the files: "
                   "write_output leaves the same final table under every file name for all %d key orders of the output section "
                   "(%d merge orders explored; one file named by a pressure-base and a volume-base entry)" % (len(orders), len(paths)),
                   "unsat" if not fails else "sat", seconds=round(time.time() - t0, 2), kind="order-independence",
                   logic="QF_LRA(finite domain)", detail=fails[:3])
    chk.witness("H7c the merged configuration reaches write_output (%d key order(s) of the output section)" % len(merged), "sat" if results or fails else "unsat")
    if fails:
        replay_h7c(chk, cc, cfgmod, fails[0])


def same_shape_sym(a, b):
    a = numpy.asarray(a, dtype=object)
    b = numpy.asarray(b, dtype=object)
    return a.shape == b.shape and arrays_equal(a, b, "C14:H7c")


def replay_h7c(chk, cc, cfgmod, what):
    """Concrete: the real Calculator on a shipped example, its configuration merged with the builtin set of config.py replaced by lists that
    iterate in a fixed permutation (what another hash seed does); the files written must be byte-identical for every permutation."""
    import itertools as it
    import shutil
    import tempfile
    import yaml
    import logging
    src = os.path.join(os.environ.get("CIJ_REPO", "/repo"), "examples", "akimotoite")
    tmp = tempfile.mkdtemp(prefix="c14o_")
    cwd = os.getcwd()
    try:
        for f in ("input01", "input02"):
            shutil.copy(os.path.join(src, f), tmp)
        cfg = yaml.safe_load(open(os.path.join(src, "settings.yaml")))
        cfg["qha"]["settings"].update(NT=6, NTV=31)
        cfg["output"] = {"pressure_base": ["cij", {"keyword": "bm_VRH", "fname": "shared_bm.txt"}, "v"],
                         "volume_base": ["p", {"keyword": "bm_VRH", "fname": "shared_bm.txt"}]}
        with open(os.path.join(tmp, "settings.yaml"), "w") as fp:
            yaml.safe_dump(cfg, fp)
        logging.disable(logging.CRITICAL)
        snaps = []
        for perm_seed in (0, 1, 2, 5):
            PSet = make_pset(perm_seed)
            d = os.path.join(tmp, "out%d" % perm_seed)
            os.makedirs(d)
            with warnings.catch_warnings():
                warnings.simplefilter("ignore")
                with patched((cfgmod, {"set": PSet})):
                    calc = cc.Calculator(os.path.join(tmp, "settings.yaml"))
                os.chdir(d)
                calc.write_output()
                os.chdir(cwd)
            snaps.append((perm_seed, {f: open(os.path.join(d, f), "rb").read() for f in sorted(os.listdir(d))}))
        for perm_seed, snap in snaps[1:]:
            if set(snap) != set(snaps[0][1]):
                chk.violation("set-order:files:file-set", "the set of output files depends on the iteration order of the key sets in update_config "
                              "(hash seed): %s" % sorted(set(snap) ^ set(snaps[0][1]))[:4], dict(output=cfg["output"]))
                return
            diff = [f for f in snap if snap[f] != snaps[0][1][f]]
            if diff:
                chk.violation("set-order:files:bytes", "the bytes of %s depend on the iteration order of the key sets in update_config, i.e. on the "
                              "interpreter's hash seed (orders #0 and #%d; an output section whose pressure-base and volume-base entries name the "
                              "same file) [%s]" % (diff[:3], perm_seed, what[:160]), dict(output=cfg["output"]))
                return
    except Exception as e:
        chk.violation("set-order:files:raises", "a run with another iteration order of the configuration key sets raises %s: %s" % (type(e).__name__, str(e)[:120]), {})
        return
    finally:
        logging.disable(logging.NOTSET)
        os.chdir(cwd)
        shutil.rmtree(tmp, ignore_errors=True)
    chk.harness_error("C14 H7c: '%s' did not reproduce through the real Calculator" % what)



def replay_h7_compliances(chk, cc, ks, what):
    """Concrete: the real _calculate_compliances on a concrete stand-in, builtin set replaced by lists iterating in every order."""
    import itertools as it
    from cij.util import c_
    keys = C7.KEYSETS[ks]
    A = numpy.zeros((6, 6))
    for n, k in enumerate(keys):
        i, j = int(k[1]) - 1, int(k[2]) - 1
        A[i, j] = A[j, i] = (0.03 + 0.002 * n) if i == j else 0.004 + 0.0005 * n
    want = numpy.linalg.inv(A)
    for perm_seed in range(2):
        PSet = make_pset(perm_seed)
        calc = object.__new__(cc.Calculator)
        q = PC.Obj()
        q.t_array = numpy.array([0.0, 300.0])
        q.v_array = numpy.array([400.0])
        q.volume_base = PC.Obj()
        q.volume_base.v_array, q.volume_base.t_array = q.v_array, q.t_array
        calc.__dict__["qha_calculator"] = q
        calc.__dict__["modulus_adiabatic"] = {c_(k[1:]): A[int(k[1]) - 1, int(k[2]) - 1] * numpy.ones((2, 1)) for k in keys}
        calc.__dict__["modulus_isothermal"] = calc.__dict__["modulus_adiabatic"]
        ed = PC.Obj()
        vol0 = PC.Obj()
        vol0.static_elastic_modulus = {c_(k[1:]): None for k in keys}
        ed.volumes = [vol0]
        ed.cellmass = 100.0
        calc.__dict__["elast_data"] = ed
        with patched((cc, {"set": PSet})):
            try:
                calc._calculate_compliances()
                got = numpy.zeros((6, 6))
                for k, v in calc._compliances.items():
                    i, j = k.voigt
                    got[i - 1, j - 1] = got[j - 1, i - 1] = v[1, 0]
                err = None
            except Exception as e:
                err = "raises %s: %s" % (type(e).__name__, e)
        if err is not None or not numpy.allclose(got, want, rtol=1e-9, atol=1e-9):
            chk.violation("set-order:compliances", "Calculator._calculate_compliances depends on the iteration order of its index-pair sets "
                          "(selected by the interpreter's hash seed): with order #%d the compliances are not the inverse of the symmetric "
                          "stiffness matrix (%s) [%s]" % (perm_seed, err or "largest deviation %.3g" % numpy.abs(got - want).max(), what),
                          dict(keys=keys, order=perm_seed))
            return
    chk.harness_error("H7 compliances: symbolic run reports '%s' but no concrete iteration order reproduces it" % what)


def replay_h7_config(chk, cfgmod, what):
    """Concrete: the real update_config with the builtin set replaced by sets that iterate in every order (no symbols)."""
    import itertools as it
    user = {"qha": {"settings": {"NT": 11, "DT": 5.0}, "input": "u.txt"}, "elast": "e.txt", "x": {"p": 1}}
    default = {"qha": {"settings": {"NT": 16, "T_MIN": 0}, "input": "d.txt"}, "elast": {"settings": 1}, "output": {"pressure_base": ["cij"]}, "x": 3}
    expect = _ref_merge(user, default)
    for perm_seed in range(24):
        PSet = make_pset(perm_seed)
        with patched((cfgmod, {"set": PSet})):
            try:
                got = cfgmod.update_config(user, default)
            except Exception as e:
                got = "raises %s: %s" % (type(e).__name__, e)
        if got != expect:
            chk.violation("set-order:update_config", "update_config(user, default) depends on the iteration order of its key set (the order the "
                          "interpreter's hash seed selects): with order #%d it returns %r instead of %r [%s]" % (perm_seed, got, expect, what),
                          dict(user=user, default=default, order=perm_seed))
            return
    chk.harness_error("H7 update_config: symbolic run reports '%s' but no concrete iteration order reproduces it" % what)


def main():
    tier = os.environ.get("VERIF_TIER", "quick")
    if len(sys.argv) > 1:
        tier = sys.argv[1]
    chk = Check("C14", tier, "bounded histories executed symbolically on the real classes (results read repeatedly and in several orders, "
                             "repeated / re-ordered write_output, two calculators interleaved, fill applied twice); z3 equality of everything observed")
    import cij.core.calculator as cc
    Z.reset_log()
    rng = random.Random(seed() + 14)
    h1_phonon_objects(chk, rng)
    h2_task_list(chk, rng)
    h3_h4_interfaces(chk, rng, tier)
    C7.history_obligation(chk, cc, ["a", "b"], rng)           # H5
    h6_fill_idempotent(chk, rng, tier)
    h6_fill_idempotent_accepted(chk, rng, tier)
    h6_fill_idempotent_zero_component(chk, rng, tier)
    h7_set_order(chk, rng, tier)
    h7c_config_order_to_files(chk, rng, tier)
    chk.witness("histories executed", "sat" if len(chk.obligations) >= 5 else "unsat")
    chk.bound(histories="2-3 reads per quantity, 3 access orders, 3 write_output calls, 2 calculators, fill applied twice",
              set_orders="update_config: key sets of 4-5 keys on two nesting levels (all orders: 24 / 72 / 12; thorough also 7 keys, 5040); "
                         "_calculate_compliances: 9 and 13 components (8 / 128 orders; thorough also 15 components, 512)",
              shapes="nq=2, np=3, nT=2, nV=1-2; 10 stiffness components; 2-7 crystal systems")
    chk.stub("as C01 / C04 / C07 / C15 / C08 (numpy proxy, uninterpreted v2p and inverse, recording table sinks, exact least squares)")
    chk.out_of_claim("effects of the interpreter's hash seed other than the iteration order of the sets listed under H7 (key order of the "
                     "merged configuration dictionary is not compared: it is only read by key), unrelated entries in the working directory (a directory named like the crystal system is a "
                     "C09 twin), byte-identical output *files*: properties of the process environment, not values the code computes with -- only "
                     "re-running the program varies them; histories longer than the listed ones")
    return chk.finish("Every array observed along each bounded history is a polynomial in the symbolic inputs; z3 shows the second (third) "
                      "observation equals the first for all inputs, so no result depends on what was read, written or computed before within "
                      "these histories. The hash seed enters only through set iteration order; H7 replaces the builtin set of config.py / calculator.py by a "
                      "set whose iteration order is a symbolic permutation and shows the outcome is the same on every feasible order. Directory "
                      "contents and file bytes are outside.")


if __name__ == "__main__":
    run_main(main)
