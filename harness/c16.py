"""C16 -- effective configuration = user settings over packaged defaults; invalid rejected.

Merge: CrossHair (symbolic execution of the real update_config / apply_default_config, z3 underneath) on generated
dictionary skeleton pairs with symbolic integer leaves; every condition has a `post: False` reachability twin.
Validation: the packaged JSON schema of the working tree is compiled into an SMT predicate over a symbolic JSON value;
z3 compares it, field by field and in both directions, with the documented constraints; solver-chosen boundary
witnesses are replayed through the real validate_config (translation validation of the compiler)."""
from __future__ import annotations

import copy
import json
import os
import re
import random
import subprocess
import sys
import tempfile
import time
from concurrent.futures import ThreadPoolExecutor

import z3

from harness.common import Check, run_main, seed, REPO, VERIF
from symnum import solver as Z

ALPHABET = ["qha", "settings", "NT", "elast"]

PRELUDE = '''
import copy
from cij.io.config.config import update_config, apply_default_config

def oracle(u, d):
    out = {}
    for k in list(u) + [k for k in d if k not in u]:
        if k in u and k in d and isinstance(u[k], dict) and isinstance(d[k], dict):
            out[k] = oracle(u[k], d[k])
        elif k in u:
            out[k] = u[k]
        else:
            out[k] = d[k]
    return out

def leaves(x, pre=()):
    if isinstance(x, dict):
        r = {}
        for k, v in x.items():
            r.update(leaves(v, pre + (k,)))
        return r
    return {pre: x}

def rev(x):
    return {k: (rev(v) if isinstance(v, dict) else v) for k, v in reversed(list(x.items()))}

def conditions(user, default):
    u0, d0 = copy.deepcopy(user), copy.deepcopy(default)
    out = update_config(user, default)
    lo, lu, ld = leaves(out), leaves(user), leaves(default)
    # a default leaf counts as unspecified unless the user gave a value at that path, at a prefix of it (a plain value where the default
    # holds a section) or below it (a section where the default holds a plain value): the user's entry wins as a whole
    shadowed = lambda p: any(q == p[:len(q)] or p == q[:len(p)] for q in lu)
    ok = out == oracle(user, default)
    ok = ok and all(p in lo and lo[p] == v for p, v in lu.items())                      # every user leaf survives
    ok = ok and all(p in lo and lo[p] == v for p, v in ld.items() if not shadowed(p))   # every unspecified default leaf is taken
    ok = ok and set(lo) == set(lu) | set(p for p in ld if not shadowed(p))              # no other keys
    ok = ok and user == u0 and default == d0                                            # inputs unmodified
    ok = ok and update_config(out, default) == out                                      # idempotent
    ok = ok and update_config(rev(user), rev(default)) == out                           # insertion order irrelevant
    return ok
'''


DEFAULT_USERS = [
    {"qha": {"settings": {"NT": None, "DT": None}}, "elast": {"settings": {"symmetry": {"system": None}}}},
    {"qha": {"input": None}, "elast": {"settings": {"mode_gamma": {"order": None}, "symmetry": {"drop_atol": None}}}, "output": {"volume_base": None}},
    {"elast": {"input": None}, "extra_section": {"x": None}},
]


def gen_tree(rng, depth, prefix):
    n = rng.randint(1, 3)
    keys = rng.sample(ALPHABET, n)
    out = {}
    for k in keys:
        if depth < 3 and rng.random() < 0.5:
            out[k] = gen_tree(rng, depth + 1, prefix)
        else:
            out[k] = None
    return out


def compatible(u, d):
    """Exclude dict-vs-leaf clashes on a shared key (the property does not define them)."""
    for k in u:
        if k in d:
            if isinstance(u[k], dict) != isinstance(d[k], dict):
                return False
            if isinstance(u[k], dict) and not compatible(u[k], d[k]):
                return False
    return True


def render(tree, names, prefix):
    parts = []
    for k, v in tree.items():
        if isinstance(v, dict):
            parts.append("%r: %s" % (k, render(v, names, prefix)))
        else:
            nm = "%s%d" % (prefix, len(names))
            names.append(nm)
            parts.append("%r: %s" % (k, nm))
    return "{" + ", ".join(parts) + "}"


def merge_module(pairs, defaults):
    src = [PRELUDE]
    for i, (u, d) in enumerate(pairs):
        names = []
        us = render(u, names, "a")
        ds = render(d, names, "b")
        args = ", ".join("%s: int" % n for n in names)
        src.append("def merge_%d(%s) -> bool:\n    \"\"\"\n    post: _\n    \"\"\"\n    return conditions(%s, %s)\n" % (i, args, us, ds))
        src.append("def twin_%d(%s) -> bool:\n    \"\"\"\n    post: False\n    \"\"\"\n    return conditions(%s, %s)\n" % (i, args, us, ds))
    # apply_default_config against the packaged defaults of the working tree
    for i, u in enumerate(DEFAULT_USERS):
        names = []
        us = render(u, names, "a")
        args = ", ".join("%s: int" % n for n in names)
        body = ("    user = %s\n    u0 = copy.deepcopy(user)\n    out = apply_default_config(user)\n    d = DEFAULTS\n"
                "    lo, lu, ld = leaves(out), leaves(user), leaves(d)\n"
                "    ok = out == oracle(user, d) and user == u0\n"
                "    ok = ok and all(lo[p] == v for p, v in lu.items()) and all(lo[p] == v for p, v in ld.items() if p not in lu)\n"
                "    ok = ok and set(lo) == set(lu) | set(ld) and apply_default_config(out) == out\n"
                "    return ok\n") % us
        src.append("def defaults_%d(%s) -> bool:\n    \"\"\"\n    post: _\n    \"\"\"\n%s" % (i, args, body))
        src.append("def twin_defaults_%d(%s) -> bool:\n    \"\"\"\n    post: False\n    \"\"\"\n%s" % (i, args, body))
    # history: a second apply_default_config call in the same process must not see anything of the first user's values
    for i, j in ((1, 0), (0, 2)):
        names = []
        u1 = render(DEFAULT_USERS[i], names, "a")
        u2 = render(DEFAULT_USERS[j], names, "b")
        args = ", ".join("%s: int" % n for n in names)
        body = ("    first = apply_default_config(%s)\n    user = %s\n    out = apply_default_config(user)\n"
                "    return out == oracle(user, DEFAULTS)\n") % (u1, u2)
        src.append("def history_%d_%d(%s) -> bool:\n    \"\"\"\n    post: _\n    \"\"\"\n%s" % (i, j, args, body))
    return "DEFAULTS = %r\n" % (defaults,) + "\n".join(src)


def run_crosshair(chk, src, tag, timeout=60):
    py = os.path.join(VERIF, ".venv", "bin", "python")
    with tempfile.TemporaryDirectory(prefix="c16ch_") as tmp:
        fn = os.path.join(tmp, "c16_%s.py" % tag)
        with open(fn, "w") as fp:
            fp.write(src)
        env = dict(os.environ, PYTHONPATH=REPO, PYTHONWARNINGS="ignore")
        t0 = time.time()
        try:
            r = subprocess.run([py, "-m", "crosshair", "check", "--report_all", "--per_condition_timeout", str(timeout), fn],
                               capture_output=True, text=True, env=env, timeout=timeout * 40 + 120)
            out = r.stdout + r.stderr
        except subprocess.TimeoutExpired:
            return {}, time.time() - t0
        res = {}
        lines = src.splitlines()
        for ln in out.splitlines():
            if fn + ":" not in ln:
                continue
            try:
                no = int(ln.split(fn + ":")[1].split(":")[0])
            except ValueError:
                continue
            fname = None
            for k in range(min(no, len(lines)) - 1, -1, -1):
                if lines[k].startswith("def "):
                    fname = lines[k][4:].split("(")[0]
                    break
            res.setdefault(fname, []).append(ln.split(": ", 1)[1] if ": " in ln else ln)
        return res, time.time() - t0


def cex_args(msgs, fname):
    """Integer arguments of the counterexample CrossHair printed for `fname` ('... when calling f(0, -3, 5) ...'), or None."""
    m = re.search(r"when calling %s\(([^)]*)\)" % re.escape(fname), msgs)
    if not m:
        return None
    try:
        return [int(x.split("=")[-1].strip()) for x in m.group(1).split(",") if x.strip()]
    except ValueError:
        return None


def leaves_of(t):
    return [1 for k, v in t.items() for _ in (leaves_of(v) if isinstance(v, dict) else [1])]


def fill_tree(t, values, cnt):
    out = {}
    for k, v in t.items():
        if isinstance(v, dict):
            out[k] = fill_tree(v, values, cnt)
        else:
            out[k] = values[cnt[0]] if values is not None and cnt[0] < len(values) else cnt[0] + 1
            cnt[0] += 1
    return out


def replay_merge(chk, u, d, name, args=None):
    """Concrete replay of a failing merge condition: first with the solver's own leaf values, then with distinct integers."""
    from cij.io.config.config import update_config
    g = dict(update_config=update_config, apply_default_config=None, copy=copy)
    exec(PRELUDE.split("from cij.io.config.config import update_config, apply_default_config")[1], g)
    for values in ([args] if args is not None else []) + [None]:
        cnt = [0]
        user = fill_tree(u, values, cnt)
        default = fill_tree(d, values, cnt)
        try:
            ok = g["conditions"](copy.deepcopy(user), copy.deepcopy(default))
            got = update_config(copy.deepcopy(user), copy.deepcopy(default))
        except Exception as e:
            chk.violation("merge:raises", "update_config raises %s: %s for user=%s default=%s" % (type(e).__name__, e, user, default),
                          dict(user=user, default=default))
            return
        if not ok:
            chk.violation("merge:wrong-result", "update_config(user=%s, default=%s) = %s violates the merge contract (expected %s)" % (
                user, default, got, g["oracle"](user, default)), dict(user=user, default=default, got=got))
            return
    chk.harness_error("%s: CrossHair counterexample did not reproduce concretely" % name)


def replay_defaults(chk, u, defaults, msgs, fname):
    """Concrete replay of a failing apply_default_config condition with the solver's leaf values."""
    from cij.io.config.config import apply_default_config
    g = dict(update_config=None, apply_default_config=apply_default_config, copy=copy)
    exec(PRELUDE.split("from cij.io.config.config import update_config, apply_default_config")[1], g)
    args = cex_args(msgs, fname)
    for values in ([args] if args is not None else []) + [None]:
        user = fill_tree(u, values, [0])
        try:
            got = apply_default_config(copy.deepcopy(user))
        except Exception as e:
            chk.violation("apply-defaults:raises", "apply_default_config raises %s: %s for user=%s" % (type(e).__name__, e, user), dict(user=user))
            return
        want = g["oracle"](user, defaults)
        if got != want:
            bad = [".".join(p) for p, v in g["leaves"](want).items() if g["leaves"](got).get(p, "<missing>") != v]
            chk.violation("apply-defaults:wrong", "apply_default_config(%s) differs from 'user over packaged defaults' at %s" % (user, bad[:4]),
                          dict(user=user, got=got, want=want))
            return
    chk.harness_error("apply_default_config: CrossHair counterexample (%s) did not reproduce concretely" % msgs[:120])


def merge_part(chk, tier, rng):
    import yaml
    import cij.data
    import cij.io.config.config as cfg
    chk.encode(cfg.update_config, cfg.apply_default_config)
    with open(cij.data.get_data_fname("default/settings.yaml")) as fp:
        defaults = yaml.load(fp, Loader=yaml.FullLoader)
    pairs = []
    tries = 0
    want = 10 if tier == "quick" else 120
    while len(pairs) < want and tries < 5000:
        tries += 1
        u, d = gen_tree(rng, 1, "a"), gen_tree(rng, 1, "b")
        if compatible(u, d) and (set(u) & set(d) or rng.random() < 0.2):
            pairs.append((u, d))
    # a user section where the default holds a plain value, and the reverse: the user's entry wins as a whole
    pairs = [({"settings": {"NT": None, "qha": None}, "elast": None}, {"settings": None, "elast": None}),
             ({"settings": None}, {"settings": {"NT": None}, "qha": None})] + pairs
    chunks = [pairs] if tier == "quick" else [pairs[i::8] for i in range(8)]
    results = {}
    t0 = time.time()

    def work(idx):
        src = merge_module(chunks[idx], defaults)
        return idx, src, run_crosshair(chk, src, "m%d" % idx)
    with ThreadPoolExecutor(max_workers=8) as ex:
        outs = list(ex.map(work, range(len(chunks))))
    n_conf = n_tw = 0
    for idx, src, (res, dt) in outs:
        for i, (u, d) in enumerate(chunks[idx]):
            msgs = " | ".join(res.get("merge_%d" % i, []))
            tw = " | ".join(res.get("twin_%d" % i, []))
            name = "merge[user=%s, default=%s]" % (json.dumps(u).replace("null", "_"), json.dumps(d).replace("null", "_"))
            if "Confirmed over all paths" in msgs:
                v = "unsat"
                n_conf += 1
            elif "false when calling" in msgs or "error" in msgs.lower():
                v = "sat"
            else:
                v = "unknown"
            chk.obligation(name[:160], v, solver="crosshair 0.0.110 / z3", logic="symbolic execution", kind="crosshair-condition",
                           detail=msgs[:160] if v != "unsat" else None)
            if v == "sat":
                replay_merge(chk, u, d, name, cex_args(msgs, "merge_%d" % i))
            elif v == "unknown":
                chk.inconclusive(name[:80], "CrossHair: %s" % (msgs[:100] or "no verdict"))
            if "false when calling" in tw:
                n_tw += 1
            else:
                chk.harness_error("reachability twin of %s was not refuted (%s)" % (name[:60], tw[:80]))
        if idx == 0:
            for i in range(3):
                msgs = " | ".join(res.get("defaults_%d" % i, []))
                tw = " | ".join(res.get("twin_defaults_%d" % i, []))
                v = "unsat" if "Confirmed over all paths" in msgs else ("sat" if "false when calling" in msgs else "unknown")
                chk.obligation("apply_default_config[user skeleton %d over the packaged defaults]" % i, v, solver="crosshair 0.0.110 / z3",
                               kind="crosshair-condition", detail=msgs[:160] if v != "unsat" else None)
                if v == "sat":
                    replay_defaults(chk, DEFAULT_USERS[i], defaults, msgs, "defaults_%d" % i)
                elif v == "unknown":
                    chk.inconclusive("apply_default_config %d" % i, msgs[:100])
                if "false when calling" not in tw:
                    chk.harness_error("twin of apply_default_config %d not refuted" % i)
        if idx == 0:
            for i, j in ((1, 0), (0, 2)):
                fname = "history_%d_%d" % (i, j)
                msgs = " | ".join(res.get(fname, []))
                v = "unsat" if "Confirmed over all paths" in msgs else ("sat" if "false when calling" in msgs else "unknown")
                chk.obligation("history: apply_default_config(user %d) after apply_default_config(user %d) in the same process == user %d over "
                               "the packaged defaults" % (j, i, j), v, solver="crosshair 0.0.110 / z3", kind="crosshair-condition(history)",
                               detail=msgs[:160] if v != "unsat" else None)
                if v == "sat":
                    args = cex_args(msgs, fname) or []
                    from cij.io.config.config import apply_default_config
                    n1 = len(leaves_of(DEFAULT_USERS[i]))
                    u1 = fill_tree(DEFAULT_USERS[i], args[:n1] if args else None, [0])
                    u2 = fill_tree(DEFAULT_USERS[j], args[n1:] if args else None, [0])
                    from harness.common import fresh_copy
                    import cij.io.config.config as cfgmod
                    fm = fresh_copy(cfgmod)
                    fm.apply_default_config(copy.deepcopy(u1))
                    got = fm.apply_default_config(copy.deepcopy(u2))
                    g = dict(update_config=None, apply_default_config=None, copy=copy)
                    exec(PRELUDE.split("from cij.io.config.config import update_config, apply_default_config")[1], g)
                    want = g["oracle"](u2, defaults)
                    if got != want:
                        bad = [".".join(p_) for p_, vv in g["leaves"](want).items() if g["leaves"](got).get(p_, "<missing>") != vv]
                        chk.violation("apply-defaults:history", "apply_default_config(%s) called after apply_default_config(%s) differs from 'user over "
                                      "packaged defaults' at %s" % (u2, u1, bad[:4]), dict(first=u1, second=u2, got=got))
                    else:
                        chk.harness_error("history condition: CrossHair counterexample did not reproduce (%s)" % msgs[:100])
                elif v == "unknown":
                    chk.inconclusive(fname, msgs[:100] or "no verdict")
    chk.witness("merge: %d reachability twins refuted" % n_tw, "sat" if n_tw else "unsat")
    chk.sample(dict(user=pairs[0][0], default=pairs[0][1], leaves="symbolic ints"))
    chk.note("CrossHair: %d merge conditions confirmed over all paths in %.1fs" % (n_conf, time.time() - t0))


# ---------------------------------------------------------------------------------------------------------------
# validation: schema -> SMT
# ---------------------------------------------------------------------------------------------------------------
TAGS = ["int", "real", "bool", "str", "obj", "arr", "null"]      # JSON value kinds; 'real' = non-integral number

# documented constraints (property statement + docs/usage/input): path -> spec
DOC = {
    ("qha", "settings", "NT"): dict(type="integer", minimum=1),
    ("qha", "settings", "NTV"): dict(type="integer", minimum=1),
    ("qha", "settings", "T_MIN"): dict(type="number", minimum=0),
    # "the interval between two nearest temperatures / pressures on the grid": a step, hence positive
    ("qha", "settings", "DT"): dict(type="number", exclusiveMinimum=0),
    ("qha", "settings", "P_MIN"): dict(type="number"),
    ("qha", "settings", "DELTA_P"): dict(type="number", exclusiveMinimum=0),
    ("qha", "settings", "DELTA_P_SAMPLE"): dict(type="number", exclusiveMinimum=0),
    # listed in the packaged default settings and in the README next to the others
    ("qha", "settings", "DT_SAMPLE"): dict(type="number", exclusiveMinimum=0),
    ("qha", "settings", "static_only"): dict(type="boolean"),
    ("qha", "settings", "volume_ratio"): dict(type="number", minimum=1),
    ("qha", "settings", "order"): dict(type="number", minimum=2),
    ("elast", "settings", "mode_gamma", "interpolator"): dict(type="string", enum=["spline", "lsq_poly", "lagrange", "krogh", "pchip", "hermite", "akima"]),
    ("elast", "settings", "mode_gamma", "order"): dict(type="integer", minimum=1),
    ("elast", "settings", "symmetry", "system"): dict(type="string", enum=["triclinic", "monoclinic", "hexagonal", "trigonal6", "trigonal7",
                                                                             "orthorhombic", "tetragonal6", "tetragonal7", "cubic"]),
    ("elast", "settings", "symmetry", "ignore_residuals"): dict(type="boolean"),
    ("elast", "settings", "symmetry", "ignore_rank"): dict(type="boolean"),
    ("elast", "settings", "symmetry", "drop_atol"): dict(type="number"),
    ("elast", "settings", "symmetry", "residual_atol"): dict(type="number"),
    ("qha", "input"): dict(type="string"),
    ("elast", "input"): dict(type="string"),
}
CLOSED = [("elast", "settings"), ("elast", "settings", "symmetry")]   # unknown keys documented as rejected here
REQUIRED_TOP = ["qha", "elast"]


def resolve(schema, root, path):
    """Sub-schema at a property path, following $ref; None if the schema says nothing about it."""
    cur = schema
    for p in path:
        while "$ref" in cur:
            ref = cur["$ref"]
            node = root
            for part in ref.lstrip("#/").split("/"):
                node = node[part]
            cur = dict(node, **{k: v for k, v in cur.items() if k != "$ref"})
        props = cur.get("properties", {})
        if p not in props or not isinstance(props[p], dict):
            return None
        cur = props[p]
    while "$ref" in cur:
        ref = cur["$ref"]
        node = root
        for part in ref.lstrip("#/").split("/"):
            node = node[part]
        cur = dict(node, **{k: v for k, v in cur.items() if k != "$ref"})
    return cur


class SymJson:
    """Symbolic JSON scalar/compound kind + value."""

    def __init__(self, name, strings):
        self.tag = z3.Int(name + "_tag")
        self.i = z3.Int(name + "_int")
        self.r = z3.Real(name + "_real")
        self.s = z3.Int(name + "_str")     # index into `strings`; len(strings) = some other string
        self.strings = strings
        self.dom = z3.And(self.tag >= 0, self.tag < len(TAGS), self.s >= 0, self.s <= len(strings),
                          z3.Implies(self.tag == TAGS.index("real"), z3.Not(z3.IsInt(self.r))),
                          z3.Implies(self.tag == TAGS.index("bool"), z3.Or(self.i == 0, self.i == 1)))

    def is_(self, t):
        return self.tag == TAGS.index(t)

    def num(self):
        return z3.If(self.is_("int"), z3.ToReal(self.i), self.r)


def pred_from_keywords(v, kw, unsupported):
    """jsonschema semantics of the keywords actually used by the packaged schema."""
    conj = []
    for k, val in kw.items():
        if k == "type":
            ts = val if isinstance(val, list) else [val]
            alts = []
            for t in ts:
                alts.append({"integer": v.is_("int"), "number": z3.Or(v.is_("int"), v.is_("real")), "string": v.is_("str"),
                             "boolean": v.is_("bool"), "object": v.is_("obj"), "array": v.is_("arr"), "null": v.is_("null")}[t])
            conj.append(z3.Or(alts))
        elif k == "minimum":
            conj.append(z3.Implies(z3.Or(v.is_("int"), v.is_("real")), v.num() >= z3.RealVal(str(val))))
        elif k == "maximum":
            conj.append(z3.Implies(z3.Or(v.is_("int"), v.is_("real")), v.num() <= z3.RealVal(str(val))))
        elif k == "exclusiveMinimum":
            conj.append(z3.Implies(z3.Or(v.is_("int"), v.is_("real")), v.num() > z3.RealVal(str(val))))
        elif k == "enum":
            alts = []
            for e in val:
                if isinstance(e, str):
                    alts.append(z3.And(v.is_("str"), v.s == v.strings.index(e)) if e in v.strings else z3.BoolVal(False))
                elif isinstance(e, bool):
                    alts.append(z3.And(v.is_("bool"), v.i == int(e)))
                elif isinstance(e, int):
                    alts.append(z3.And(v.is_("int"), v.i == e))
                else:
                    unsupported.append("enum member %r" % (e,))
            conj.append(z3.Or(alts))
        elif k in ("title", "description", "$$target", "properties", "additionalProperties", "required", "definitions", "default"):
            pass
        else:
            unsupported.append(k)
    return z3.And(conj) if conj else z3.BoolVal(True)


def concrete_value(model, v):
    tag = TAGS[model.eval(v.tag, model_completion=True).as_long()]
    if tag == "int":
        return model.eval(v.i, model_completion=True).as_long()
    if tag == "real":
        r = model.eval(v.r, model_completion=True)
        return float(r.numerator_as_long()) / float(r.denominator_as_long())
    if tag == "bool":
        return bool(model.eval(v.i, model_completion=True).as_long())
    if tag == "str":
        k = model.eval(v.s, model_completion=True).as_long()
        return v.strings[k] if k < len(v.strings) else "some-other-string"
    return {"obj": {}, "arr": [], "null": None}[tag]


def base_config():
    return {"qha": {"input": "input01", "settings": {"NT": 16, "DT": 100, "T_MIN": 0, "NTV": 81, "P_MIN": 0, "DELTA_P": 1, "order": 3, "volume_ratio": 1.2}},
            "elast": {"input": "elast.dat", "settings": {"mode_gamma": {"interpolator": "lsq_poly", "order": 3},
                                                            "symmetry": {"system": "cubic", "ignore_rank": False, "drop_atol": 1e-8}}}}


def set_path(cfg, path, value):
    cur = cfg
    for p in path[:-1]:
        cur = cur.setdefault(p, {})
    cur[path[-1]] = value


def real_accepts(validate_config, cfg):
    import jsonschema
    try:
        validate_config(cfg)
        return True
    except jsonschema.exceptions.ValidationError:
        return False


def validation_part(chk, tier, rng):
    import cij.data
    import cij.io.config.validate as val
    import cij.io.config.config as cfgmod
    chk.encode(val.validate_config, cfgmod.read_config)
    with open(cij.data.get_data_fname("schema/config.schema.json")) as fp:
        schema = json.load(fp)
    n_rep = 0
    for path, spec in DOC.items():
        name = ".".join(path)
        sub = resolve(schema, schema, path)
        strings = list(spec.get("enum", [])) + [e for e in (sub or {}).get("enum", []) if isinstance(e, str) and e not in spec.get("enum", [])]
        v = SymJson("v", strings)
        unsupported = []
        D = pred_from_keywords(v, spec, unsupported)
        S = pred_from_keywords(v, sub, unsupported) if sub is not None else z3.BoolVal(True)
        if unsupported:
            chk.inconclusive(name, "schema keywords outside the compiled subset: %s" % sorted(set(unsupported)))
            continue
        for direction, cons, meaning in (("documented-valid value rejected", [D, z3.Not(S)], "schema stricter than documented"),
                                         ("documented-invalid value accepted", [z3.Not(D), S], "schema weaker than documented")):
            t0 = time.time()
            s = z3.Solver()
            s.set("timeout", 10000)
            s.add(v.dom, *cons)
            r = str(s.check())
            Z.QUERY_LOG.append(dict(name="schema:%s:%s" % (name, direction), verdict=r, seconds=round(time.time() - t0, 4), logic="QF_LIRA",
                                    nvars=4, nconstraints=3))
            chk.obligation("schema[%s]: no %s" % (name, direction), r, seconds=round(time.time() - t0, 4), logic="QF_LIRA", kind="inclusion")
            if r == "sat":
                value = concrete_value(s.model(), v)
                cfg = base_config()
                set_path(cfg, path, value)
                acc = real_accepts(val.validate_config, cfg)
                n_rep += 1
                if direction.startswith("documented-invalid") and acc:
                    chk.violation("validate:accepts:%s" % name, "validate_config accepts %s = %r although the documented constraint is %s" % (
                        name, value, spec), dict(field=name, value=value, config=cfg))
                elif direction.startswith("documented-valid") and not acc:
                    chk.violation("validate:rejects:%s" % name, "validate_config rejects the documented-valid %s = %r" % (name, value),
                                  dict(field=name, value=value, config=cfg))
                else:
                    chk.harness_error("schema compiler disagrees with jsonschema on %s = %r" % (name, value))
            elif r != "unsat":
                chk.inconclusive(name, "solver unknown")
        # boundary witnesses from the solver, replayed through the real validator (translation validation of the compiler)
        for label, cons in (("accepted", [S, D]), ("rejected", [z3.Not(S)])):
            for extra_tag in range(len(TAGS)):
                s = z3.Solver()
                s.set("timeout", 5000)
                s.add(v.dom, v.tag == extra_tag, *cons)
                if "minimum" in spec and TAGS[extra_tag] == "int":
                    m = int(spec["minimum"])
                    s.add(z3.Or(v.i == m, v.i == m - 1, v.i == m + 1))
                if str(s.check()) != "sat":
                    continue
                value = concrete_value(s.model(), v)
                cfg = base_config()
                set_path(cfg, path, value)
                acc = real_accepts(val.validate_config, cfg)
                n_rep += 1
                if acc != (label == "accepted"):
                    chk.harness_error("compiled schema predicate and jsonschema disagree on %s = %r (%s)" % (name, value, label))
    # non-finite numbers: YAML .nan / .inf and JSON NaN / Infinity are numbers to the parsers; no documented range contains them
    bad_nf = []
    n_nf = 0
    for path, spec in DOC.items():
        if spec.get("type") not in ("number", "integer"):
            continue
        for nonfinite in (float("nan"), float("inf"), float("-inf")):
            cfg = base_config()
            set_path(cfg, path, nonfinite)
            n_nf += 1
            if real_accepts(val.validate_config, cfg):
                bad_nf.append((".".join(path), nonfinite))
    chk.obligation("validation rejects non-finite numbers (nan, +inf, -inf) for every documented numeric field [%d values]" % n_nf,
                   "unsat" if not bad_nf else "sat", kind="rejection")
    if bad_nf:
        chk.violation("validate:accepts:non-finite", "validate_config accepts non-finite numbers: %s (%d of %d field/value pairs), e.g. YAML `%s: .nan`"
                      % (", ".join("%s = %r" % b for b in bad_nf[:4]), len(bad_nf), n_nf, bad_nf[0][0].split(".")[-1]), dict(pairs=[[a, repr(b)] for a, b in bad_nf[:10]]))
    # required sections and closed objects
    for key in REQUIRED_TOP:
        cfg = base_config()
        del cfg[key]
        in_schema = key in schema.get("required", [])
        acc = real_accepts(val.validate_config, cfg)
        chk.obligation("schema: section %r is required" % key, "unsat" if (in_schema and not acc) else "sat", kind="required", logic="structural")
        if acc or not in_schema:
            chk.violation("validate:missing-section:%s" % key, "a configuration without the %r section is accepted" % key, dict(config=cfg))
    for path in CLOSED:
        sub = resolve(schema, schema, path)
        closed = sub is not None and sub.get("additionalProperties") is False
        cfg = base_config()
        set_path(cfg, path + ("not_a_documented_key",), 1)
        acc = real_accepts(val.validate_config, cfg)
        chk.obligation("schema: unknown keys inside %s are rejected" % ".".join(path), "unsat" if (closed and not acc) else "sat", kind="closed-object",
                       logic="structural")
        if acc or not closed:
            chk.violation("validate:unknown-key:%s" % ".".join(path), "an unknown key inside %s is accepted" % ".".join(path), dict(config=cfg))
    # spelling twins: for every documented field, values whose YAML spelling is delicate (numeric-looking / boolean-looking / null-looking
    # strings, integral floats, booleans) are written as YAML and as JSON; both files must load to the same object -- the one that was
    # written -- and be accepted or rejected alike, in agreement with validating the object in memory
    import yaml
    tricky = ["16", "1e-5", "3.0", "nan", "true", "null", "~", "0x10", "1_000", "abc", 16, 16.0, 1e-5, True, None]
    n_twin = 0
    twin_bad = None
    with tempfile.TemporaryDirectory(prefix="c16tw_") as tmp:
        for path in list(DOC) + [("qha", "input"), ("elast", "input")]:
            for tval in tricky:
                cfg = base_config()
                set_path(cfg, path, tval)
                yf, jf = os.path.join(tmp, "s.yaml"), os.path.join(tmp, "s.json")
                with open(yf, "w") as fp:
                    yaml.safe_dump(cfg, fp)
                with open(jf, "w") as fp:
                    json.dump(cfg, fp)
                outs = []
                for fn_ in (yf, jf):
                    try:
                        outs.append(("ok", cfgmod.read_config(fn_, validate=False)))
                    except Exception as e:
                        outs.append(("raise", type(e).__name__))
                acc_mem = real_accepts(val.validate_config, cfg)
                accs = []
                for fn_ in (yf, jf):
                    try:
                        cfgmod.read_config(fn_)
                        accs.append(True)
                    except Exception:
                        accs.append(False)
                n_twin += 1
                if outs[0] != outs[1] or outs[0] != ("ok", cfg) or accs != [acc_mem, acc_mem]:
                    if twin_bad is None:
                        twin_bad = (path, tval, outs, accs, acc_mem)
    chk.obligation("spelling twins: %d (field, delicate value) configurations written as YAML and as JSON load to the written object and validate "
                   "alike" % n_twin, "unsat" if twin_bad is None else "sat", kind="configuration-twin", logic="concrete")
    if twin_bad is not None:
        path, tval, outs, accs, acc_mem = twin_bad
        got = [o[1] if o[0] == "raise" else get_path(o[1], path) for o in outs]
        chk.violation("spelling:yaml-vs-json", "%s = %r: the YAML spelling loads as %r (accepted: %s), the JSON spelling as %r (accepted: %s); "
                      "validating the object in memory: %s" % (".".join(path), tval, got[0], accs[0], got[1], accs[1], acc_mem),
                      dict(field=".".join(path), value=repr(tval)))
    # shipped files validate; YAML and JSON spellings load identically
    shipped = [cij.data.get_data_fname("default/settings.yaml")] + [os.path.join(REPO, "examples", d, "settings.yaml") for d in ("akimotoite", "bridgmanite", "diopside")]
    for fn in shipped:
        try:
            c1 = cfgmod.read_config(fn)
            with tempfile.TemporaryDirectory(prefix="c16_") as tmp:
                jf = os.path.join(tmp, "settings.json")
                with open(jf, "w") as fp:
                    json.dump(c1, fp)
                c2 = cfgmod.read_config(jf)
            ok = c1 == c2
        except Exception as e:
            ok = False
            c1 = repr(e)
        chk.side_check("shipped %s validates; YAML and JSON spellings load equal" % os.path.relpath(fn, REPO), ok)
        if not ok:
            chk.violation("shipped:%s" % os.path.basename(os.path.dirname(fn)), "shipped configuration %s does not validate / load identically: %s" % (fn, str(c1)[:100]), {})
    chk.note("%d solver witnesses replayed through the real validate_config" % n_rep)
    chk.validation_points += n_rep


def get_path(cfg, path):
    cur = cfg
    for p_ in path:
        if not isinstance(cur, dict) or p_ not in cur:
            return "<missing>"
        cur = cur[p_]
    return cur


def result_mutation_history(chk):
    """History twin: the effective configuration handed to a caller is the caller's; what they do to it (set a leaf, extend a list) must
    not change what a later apply_default_config takes from the packaged defaults."""
    import copy
    import cij.io.config.config as cfgmod
    users = [{"qha": {"input": "input01"}, "elast": {"input": "elast.dat"}}, {"qha": {}, "elast": {}}, {}]
    try:
        for u in users:
            first = cfgmod.apply_default_config(copy.deepcopy(u))
            want = copy.deepcopy(first)
            # the caller edits parts of the result that came from the defaults
            first.setdefault("elast", {}).setdefault("settings", {}).setdefault("symmetry", {})["system"] = "cubic"
            first.setdefault("qha", {}).setdefault("settings", {})["NT"] = 31
            out = first.setdefault("output", {})
            if isinstance(out.get("pressure_base"), list):
                out["pressure_base"].append("edited-by-the-caller")
            second = cfgmod.apply_default_config(copy.deepcopy(u))
            if second != want:
                diff = [k for k in ("qha", "elast", "output") if second.get(k) != want.get(k)]
                chk.violation("history:result-mutation", "apply_default_config(%r) after the caller edited the result of an earlier call (symmetry.system, NT, one more "
                              "output keyword) no longer takes the unspecified leaves from the packaged defaults: sections %s differ, e.g. NT = %r, system = %r"
                              % (u, diff, second.get("qha", {}).get("settings", {}).get("NT"), second.get("elast", {}).get("settings", {}).get("symmetry", {}).get("system")), dict(user=u))
                return
        chk.side_check("history twin: editing a returned effective configuration does not reach later apply_default_config calls (3 user configurations)", True)
    except Exception as e:
        chk.violation("history:result-mutation:raises", "apply_default_config raises %s: %s in the edit-then-call-again history" % (type(e).__name__, str(e)[:100]), {})


def main():
    tier = os.environ.get("VERIF_TIER", "quick")
    if len(sys.argv) > 1:
        tier = sys.argv[1]
    chk = Check("C16", tier, "CrossHair symbolic execution of the real update_config / apply_default_config on generated skeleton pairs with "
                             "symbolic leaves (+ reachability twins); JSON schema compiled to SMT and compared by z3 with the documented "
                             "constraints in both directions, solver witnesses replayed through the real validate_config")
    Z.reset_log()
    rng = random.Random(seed() + 16)
    merge_part(chk, tier, rng)
    validation_part(chk, tier, rng)
    result_mutation_history(chk)
    chk.bound(merge="%d seeded skeleton pairs (depth <= 3, <= 3 keys per level, 4-name alphabet) + 3 user skeletons over the packaged defaults; "
                    "leaves symbolic ints" % (10 if tier == "quick" else 120), per_condition_timeout_s=60, fields=len(DOC))
    chk.assume("merge skeletons exclude dict-vs-leaf clashes on a shared key (undefined by the property)")
    chk.assume("schema subset compiled: type, minimum, maximum, exclusiveMinimum, enum, properties, $ref, required, additionalProperties")
    chk.out_of_claim("arbitrary-depth dictionaries; jsonschema's own correctness (cross-validated on every witness)")
    return chk.finish("Merge: each skeleton pair is one CrossHair condition over all integer leaf values ('Confirmed over all paths' required, "
                      "its post:False twin refuted). Validation: per documented field z3 shows the compiled schema predicate neither rejects "
                      "a documented-valid value nor accepts a documented-invalid one.")


if __name__ == "__main__":
    run_main(main)
