"""C15 -- output files carry the in-memory results on the requested grids, units and names (wiring; file text outside)."""
from __future__ import annotations

import os
import random
import sys
import time
from fractions import Fraction

import numpy

from harness.common import Check, run_main, seed
from harness import phonon_common as PC
from harness import c07 as C7
from harness.c06 import v2p_stub_factory
from harness.fill_common import KEYS
from symnum import sym as S, solver as Z, executor as X
from symnum.sym import Sym, SymError, new_context, symvars, symarray
from symnum.npproxy import NumpyProxy, patched

# Oracle written from the property statement / user documentation (keyword group -> pattern, unit, what it carries)
ORACLE = [
    (("cij_s", "cij", "adiabatic_elastic_moduli"), "c{ij}s_{base}_gpa.txt", "GPa", "tensor:adiabatic"),
    (("cij_t", "isothermal_elastic_moduli"), "c{ij}t_{base}_gpa.txt", "GPa", "tensor:isothermal"),
    (("B_V", "Bm_V", "bm_V", "bulk_modulus_voigt"), "bm_V_{base}_gpa.txt", "GPa", "bulk_modulus_voigt"),
    (("B_R", "Bm_R", "bm_R", "bulk_modulus_reuss"), "bm_R_{base}_gpa.txt", "GPa", "bulk_modulus_reuss"),
    (("B_VRH", "Bm_VRH", "bm_VRH", "bulk_modulus_voigt_reuss_hill"), "bm_VRH_{base}_gpa.txt", "GPa", "bulk_modulus_voigt_reuss_hill"),
    (("G_V", "shear_modulus_voigt"), "G_V_{base}_gpa.txt", "GPa", "shear_modulus_voigt"),
    (("G_R", "shear_modulus_reuss"), "G_R_{base}_gpa.txt", "GPa", "shear_modulus_reuss"),
    (("G_VRH", "shear_modulus_voigt_reuss_hill"), "G_VRH_{base}_gpa.txt", "GPa", "shear_modulus_voigt_reuss_hill"),
    (("v_p", "vp", "primary_velocities"), "v_p_{base}_km_s.txt", "km/s", "primary_velocities"),
    (("v_s", "vs", "secondary_velocities"), "v_s_{base}_km_s.txt", "km/s", "secondary_velocities"),
    (("v", "V", "volumes"), "v_{base}_ang3.txt", "ang3", "volumes"),        # pressure base only
    (("p", "P", "pressures"), "p_{base}_gpa.txt", "GPa", "pressures"),      # volume base only
]


# an alternative unit per documented unit and the exact factor documented unit -> alternative... applied to the INTERNAL value
ALT_UNIT = {"GPa": ("rydberg / bohr^3", 1), "km/s": ("m/s", 1000), "ang3": ("bohr^3", 1)}


def unit_constants():
    import scipy.constants as sc
    pc = sc.physical_constants
    ry_j = pc["Rydberg constant times hc in J"][0]
    bohr = pc["Bohr radius"][0]
    return ry_j / bohr ** 3 * 1e-9, (bohr * 1e10) ** 3    # Ry/bohr^3 -> GPa ; bohr^3 -> A^3


def make_setup(cc, tier):
    nt, nv, ntp = 2, 2, 2
    ctx = new_context()
    ryk, na = C7.si_constants()
    gpa, ang3 = unit_constants()
    ctx.name_float(ryk, ctx.var("RYKM", positive=True, kind="const"), rtol=1e-8, max_den=64)
    ctx.name_float(na, ctx.var("NA", positive=True, kind="const"), rtol=1e-8, max_den=64)
    GPA = ctx.var("GPA", positive=True, kind="const")
    ANG3 = ctx.var("ANG3", positive=True, kind="const")
    ctx.name_float(gpa, GPA, rtol=1e-8, max_den=64)
    ctx.name_float(ang3, ANG3, rtol=1e-8, max_den=64)
    keys = C7.ORTHO + ["c14"]
    calc, C, Ciso = C7.build_calculator(cc, ctx, keys, nt, nv)
    q = calc.qha_calculator
    q.volume_base.pressures = symvars("Ptv", (nt, nv))
    q.pressure_base = PC.Obj()
    q.pressure_base.p_array = symvars("pdes", (ntp,))
    q.pressure_base.t_array = q.t_array
    q.pressure_base.volumes = symvars("Vtp", (nt, ntp), positive=True)
    calc.__dict__["pressure_based_result"] = cc.CijPressureBaseInterface(calc)
    return ctx, calc, C, Ciso, keys, (nt, nv, ntp), dict(GPa=GPA, ang3=ANG3, **{"km/s": Sym.const(1)})


def same_array(a, b):
    """Elementwise equality decided by z3 (the two polynomials are handed over un-subtracted)."""
    a = numpy.asarray(a, dtype=object)
    b = numpy.asarray(b, dtype=object)
    if a.shape != b.shape:
        return False
    for x, y in zip(a.ravel().tolist(), b.ravel().tolist()):
        v, _ = Z.prove_equal(Sym.of(x), Sym.of(y), name="C15:payload", timeout_ms=10000)
        if v != "unsat":
            return False
    return True


def main():
    tier = os.environ.get("VERIF_TIER", "quick")
    if len(sys.argv) > 1:
        tier = sys.argv[1]
    chk = Check("C15", tier, "symbolic execution of ResultsWriter / ResultsWriterRule / write_table / write_output on symbolic interface "
                             "objects with the table sinks replaced by recorders; payload, axes, unit factor and file name compared "
                             "structurally (Sym normal form) with an oracle table")
    import cij.core.calculator as cc
    import cij.io.output.results_writer as rw
    from cij.util import c_
    chk.encode(rw.ResultsWriter, rw.ResultsWriterRule, cc.CijVolumeBaseInterface.write_table, cc.CijPressureBaseInterface.write_table,
               cc.Calculator.write_output)
    Z.reset_log()
    rng = random.Random(seed() + 15)
    ctx, calc, C, Ciso, keys, (nt, nv, ntp), U = make_setup(cc, tier)
    proxy = NumpyProxy()
    proxy.close_mode = "structural"
    v2p, _calls = v2p_stub_factory(ctx, nt, ntp)
    sink = []

    def save_tv(value, t, vgrid, tsample, fname):
        sink.append(("tv", fname, numpy.asarray(value, dtype=object), t, vgrid, tsample))

    def save_tp(value, t, pgrid, psample, fname):
        sink.append(("tp", fname, numpy.asarray(value, dtype=object), t, pgrid, psample))

    q = calc.qha_calculator
    vb, pb = calc.volume_based_result, calc.pressure_based_result
    registry = rw.ResultsWriter(vb).registry
    known = {kw for grp in ORACLE for kw in grp[0]}
    extra_kw = sorted(set(registry) - known)
    missing_kw = sorted(known - set(registry))
    if missing_kw:
        chk.violation("registry:missing-keywords", "documented output keywords %s are not in the writer registry" % missing_kw, {})
    if extra_kw:
        chk.note("keywords without oracle entry (not checked): %s" % extra_kw)
    fails = []
    group_marks = []
    n_calls = 0
    t0 = time.time()

    def expected(base, what):
        iface = vb if base is vb else pb
        if what.startswith("tensor:"):
            src = calc.modulus_adiabatic if what.endswith("adiabatic") else calc.modulus_isothermal
            if base is vb:
                return {k: v for k, v in src.items()}
            return {k: numpy.array(ctx.uf("V2P", [numpy.asarray(v, dtype=object), numpy.asarray(q.volume_base.pressures, dtype=object),
                                                   numpy.asarray(q.pressure_base.p_array, dtype=object)], nout=nt * ntp),
                                   dtype=object).reshape(nt, ntp) for k, v in src.items()}
        if what == "volumes":
            return q.pressure_base.volumes if base is pb else None
        if what == "pressures":
            return q.volume_base.pressures if base is vb else None
        val = getattr(vb, what)
        if base is vb:
            return val
        return numpy.array(ctx.uf("V2P", [numpy.asarray(val, dtype=object), numpy.asarray(q.volume_base.pressures, dtype=object),
                                          numpy.asarray(q.pressure_base.p_array, dtype=object)], nout=nt * ntp), dtype=object).reshape(nt, ntp)

    def run():
        out = {}
        with patched((cc, {"numpy": proxy, "v2p": v2p, "save_x_tv": save_tv, "save_x_tp": save_tp})):
            calc._calculate_compliances()
            for base, tag in ((vb, "tv"), (pb, "tp")):
                for grp, pattern, unit, what in ORACLE:
                    for kw in grp:
                        if kw not in registry:
                            continue
                        del sink[:]
                        try:
                            rw.ResultsWriter(base).write(kw)
                            out[(tag, kw)] = ("ok", list(sink))
                        except Exception as e:
                            out[(tag, kw)] = ("raise", e)
            # overrides
            del sink[:]
            rw.ResultsWriter(vb).write({"keyword": "bm_V", "fname": "my_bulk.txt", "unit": "rydberg / bohr^3"})
            out["override"] = list(sink)
            # a file-name override on a tensor keyword: a pattern with the documented placeholders, one file per component
            del sink[:]
            rw.ResultsWriter(pb).write({"keyword": "cij_t", "fname": "my_c{ij}_{base}.txt"})
            out["tensor-fname-override"] = list(sink)
            # a unit override for every rule (last alias of each group), both bases
            for base, tag in ((vb, "tv"), (pb, "tp")):
                for grp, pattern, unit, what in ORACLE:
                    if grp[-1] not in registry:
                        continue
                    del sink[:]
                    try:
                        rw.ResultsWriter(base).write({"keyword": grp[-1], "unit": ALT_UNIT[unit][0]})
                        out[("unit-override", tag, grp[0])] = ("ok", list(sink))
                    except Exception as e:
                        out[("unit-override", tag, grp[0])] = ("raise", e)
            # write_output dispatch
            del sink[:]
            calc.__dict__["config"] = {"output": {"pressure_base": ["cij", "v"], "volume_base": ["p", {"keyword": "G_V"}]}}
            calc.write_output()
            out["write_output"] = list(sink)
            # one rule listed several times for a base: bare keyword, alias, and an entry with fname / unit override -- every entry is written
            del sink[:]
            calc.__dict__["config"] = {"output": {"pressure_base": ["bm_V", {"keyword": "bulk_modulus_voigt", "fname": "my_bm_tp.txt", "unit": "rydberg / bohr^3"}, "B_V"],
                                                  "volume_base": [{"keyword": "p", "fname": "p_custom.txt"}, "p"]}}
            calc.write_output()
            out["write_output_repeated_rule"] = list(sink)
        return out

    try:
        res = X.run_single_path(run, name="C15", generic=True)
    except SymError as e:
        # an undecided guard stops the symbolic run: look at the real code on concrete data before calling it inconclusive
        replay(chk, cc, rw, rng, "symbolic run stopped: %s" % e)
        chk.inconclusive("C15", str(e))
        return chk.finish("inconclusive")
    except Exception as e:
        chk.note("symbolic run raised %s: %s" % (type(e).__name__, e))
        res = None
    if res is not None:
        for base, tag in ((vb, "tv"), (pb, "tp")):
            t_axis = q.t_array
            for grp, pattern, unit, what in ORACLE:
                exp = expected(base, what)
                ref_calls = None
                n_before = len(fails)
                if exp is not None:
                    group_marks.append((tag, grp[0], n_before))
                for kw in grp:
                    if (tag, kw) not in res:
                        continue
                    status, calls = res[(tag, kw)]
                    if exp is None:
                        continue   # documented as available in the other base only: no expectation here
                    if status != "ok":
                        fails.append("%s/%s raises %s: %s" % (tag, kw, type(calls).__name__, calls))
                        continue
                    n_calls += len(calls)
                    f = U[unit]
                    if isinstance(exp, dict):
                        want = {pattern.format(base=tag, ij="%d%d" % k.v): numpy.asarray(v, dtype=object) * f for k, v in exp.items()}
                    else:
                        want = {pattern.format(base=tag): numpy.asarray(exp, dtype=object) * f}
                    got = {}
                    for (b, fname, value, t, grid, sample) in calls:
                        if fname in got:
                            fails.append("%s/%s writes %s twice" % (tag, kw, fname))
                        got[fname] = value
                        if b != tag:
                            fails.append("%s/%s goes through the %s table writer" % (tag, kw, b))
                        if t is not t_axis and not same_array(t, t_axis):
                            fails.append("%s/%s: row labels are not the temperature grid" % (tag, kw))
                        if tag == "tv":
                            if not same_array(grid, numpy.asarray(q.v_array, dtype=object) * U["ang3"]):
                                fails.append("%s/%s: column labels are not the grid volumes in A^3" % (tag, kw))
                            if not same_array(sample, t_axis):
                                fails.append("%s/%s: temperature sample is not the temperature grid" % (tag, kw))
                        else:
                            pg = numpy.asarray(q.pressure_base.p_array, dtype=object) * U["GPa"]
                            if not same_array(grid, pg) or not same_array(sample, pg):
                                fails.append("%s/%s: column labels are not the requested pressures in GPa" % (tag, kw))
                    if set(got) != set(want):
                        fails.append("%s/%s: files %s instead of %s" % (tag, kw, sorted(got)[:4], sorted(want)[:4]))
                    else:
                        for fname in want:
                            if not same_array(got[fname], want[fname]):
                                fails.append("%s/%s: content of %s is not the in-memory %s in %s" % (tag, kw, fname, what, unit))
                    sig = [(c[1], tuple(Sym.of(x).key() for x in c[2].ravel().tolist())) for c in calls]
                    if ref_calls is None:
                        ref_calls = sig
                    elif sig != ref_calls:
                        fails.append("%s: alias %s writes something else than %s" % (tag, kw, grp[0]))
        for base, tag in ((vb, "tv"), (pb, "tp")):
            for grp, pattern, unit, what in ORACLE:
                exp = expected(base, what)
                rec = res.get(("unit-override", tag, grp[0]))
                if exp is None or rec is None:
                    continue
                status, calls = rec
                if status != "ok":
                    fails.append("%s/%s with a unit override raises %s" % (tag, grp[-1], calls))
                    continue
                fac = ALT_UNIT[unit][1]
                if isinstance(exp, dict):
                    want = {pattern.format(base=tag, ij="%d%d" % k.v): numpy.asarray(v, dtype=object) * fac for k, v in exp.items()}
                else:
                    want = {pattern.format(base=tag): numpy.asarray(exp, dtype=object) * fac}
                got = {c[1]: c[2] for c in calls}
                if set(got) != set(want):
                    fails.append("%s/%s with a unit override writes %s" % (tag, grp[-1], sorted(got)[:3]))
                    continue
                for fname in want:
                    if not same_array(got[fname], want[fname]):
                        fails.append("%s/%s: unit override '%s' is not honoured (content of %s)" % (tag, grp[-1], ALT_UNIT[unit][0], fname))
                        break
        tfo = res.get("tensor-fname-override", [])
        want_tfo = {"my_c%d%d_tp.txt" % k.v: v for k, v in expected(pb, "tensor:isothermal").items()}
        got_tfo = {}
        for c in tfo:
            got_tfo.setdefault(c[1], []).append(c[2])
        if set(got_tfo) != set(want_tfo) or any(len(v) != 1 for v in got_tfo.values()):
            fails.append("file-name override 'my_c{ij}_{base}.txt' on a tensor keyword: files written %s (x%s) instead of one per component %s" % (
                sorted(got_tfo)[:3], [len(v) for v in got_tfo.values()][:3], sorted(want_tfo)[:3]))
        else:
            for fname, v in want_tfo.items():
                if not same_array(got_tfo[fname][0], numpy.asarray(v, dtype=object) * U["GPa"]):
                    fails.append("file-name override on a tensor keyword: %s does not hold its component" % fname)
                    break
        ov = res["override"]
        if len(ov) != 1 or ov[0][1] != "my_bulk.txt" or not same_array(ov[0][2], vb.bulk_modulus_voigt):
            fails.append("fname / unit override of a dict entry is not honoured")
        wo = res["write_output"]
        names = sorted(c[1] for c in wo)
        want_names = sorted(["c%d%ds_tp_gpa.txt" % c_(k[1:]).v for k in keys] + ["v_tp_ang3.txt", "p_tv_gpa.txt", "G_V_tv_gpa.txt"])
        if names != want_names or any((c[0] == "tp") != ("_tp_" in c[1]) for c in wo):
            fails.append("write_output dispatch: wrote %s" % names[:6])
        wr = res["write_output_repeated_rule"]
        got_names = sorted(set(c[1] for c in wr))
        if got_names != sorted(["bm_V_tp_gpa.txt", "my_bm_tp.txt", "p_custom.txt", "p_tv_gpa.txt"]):
            fails.append("a rule listed twice with a fname / unit override: files written %s" % got_names)
        else:
            bmv = numpy.array(ctx.uf("V2P", [numpy.asarray(vb.bulk_modulus_voigt, dtype=object), numpy.asarray(q.volume_base.pressures, dtype=object),
                                             numpy.asarray(q.pressure_base.p_array, dtype=object)], nout=nt * ntp), dtype=object).reshape(nt, ntp)
            for c in wr:
                if c[1] == "my_bm_tp.txt" and not same_array(c[2], bmv):
                    fails.append("override entry my_bm_tp.txt does not hold K_V in the requested unit")
                if c[1] == "bm_V_tp_gpa.txt" and not same_array(c[2], bmv * U["GPa"]):
                    fails.append("bm_V_tp_gpa.txt does not hold K_V in GPa when the rule is listed twice")
    for i, (tag, g0, nb) in enumerate(group_marks):
        ne = group_marks[i + 1][2] if i + 1 < len(group_marks) else len(fails)
        chk.obligation("%s base / keyword group %s: name, payload x unit factor, axes, aliases" % (tag, g0),
                       "unsat" if (res is not None and ne == nb) else "sat", kind="wiring")
    chk.obligation("every keyword and alias x both bases: file name, payload == in-memory quantity x unit factor, axes, aliases identical, "
                   "overrides, write_output dispatch [%d table writes inspected]" % n_calls,
                   "unsat" if (res is not None and not fails) else "sat", seconds=round(time.time() - t0, 2), kind="wiring", detail=fails[:5])
    chk.witness("sinks-reached", "sat" if n_calls > 20 else "unsat")
    chk.sample(dict(keyword="cij", base="tp", files=sorted(c[1] for c in res[("tp", "cij")][1])[:4] if res else None))
    gpa, ang3 = unit_constants()
    from cij.util import units as UU
    f1 = UU.Quantity(1.0, "rydberg / bohr ^ 3").to("GPa").magnitude
    f2 = UU.Quantity(1.0, "bohr^3").to("angstrom^3").magnitude
    chk.side_check("Ry/bohr^3 -> GPa factor vs CODATA", abs(f1 / gpa - 1) < 1e-8, dict(code=f1, codata=gpa))
    chk.side_check("bohr^3 -> A^3 factor vs CODATA", abs(f2 / ang3 - 1) < 1e-8, dict(code=f2, codata=ang3))
    if res is None or fails:
        replay(chk, cc, rw, rng, fails[0] if fails else "symbolic run raised")
    chk.bound(grid="nT=2, nV=2, 2 pressures", keywords=len(registry), component_set=keys)
    chk.stub("qha save_x_tv / save_x_tp -> recording sinks; v2p -> uninterpreted function; numpy.linalg.inv -> uninterpreted inverse")
    chk.out_of_claim("the textual table (labels as printed, dropped guard temperatures, precision): produced by qha / pandas formatting")
    return chk.finish("For every keyword/alias of the registry loaded from the working tree's YAML and both bases the recorded sink call is "
                      "compared, as exact polynomials, with the in-memory quantity times the documented unit factor, the documented file "
                      "name and the documented axes.")


def replay(chk, cc, rw, rng, reason):
    """Concrete replay through real files in a scratch directory (expected values are computed independently of the interface
    objects: tensors of the pressure base are qha's v2p of the calculator's own (T,V) dictionaries)."""
    import tempfile
    import shutil
    import pandas
    from cij.util import c_
    from harness.c06 import replay_wiring  # builds nothing reusable; inline a small concrete calculator instead
    nt, nv = 6, 8
    keys = C7.ORTHO
    calc = object.__new__(cc.Calculator)
    q = PC.Obj()
    q.t_array = numpy.arange(nt) * 100.0
    q.v_array = numpy.linspace(400, 250, nv)
    q.volume_base = PC.Obj()
    q.volume_base.v_array, q.volume_base.t_array = q.v_array, q.t_array
    q.volume_base.pressures = numpy.array([numpy.linspace(-0.001, 0.01, nv) + 1e-4 * i for i in range(nt)])
    q.pressure_base = PC.Obj()
    q.pressure_base.p_array = numpy.array([0.001, 0.004, 0.007])
    q.pressure_base.t_array = q.t_array
    q.pressure_base.volumes = 300 + numpy.arange(nt * 3).reshape(nt, 3) * 1.0
    calc.__dict__["qha_calculator"] = q
    ed = PC.Obj()
    ed.cellmass = 100.0
    vol0 = PC.Obj()
    vol0.static_elastic_modulus = {c_(k[1:]): None for k in keys}
    ed.volumes = [vol0]
    calc.__dict__["elast_data"] = ed
    A = numpy.diag([3.0, 3.2, 3.4, 1.0, 1.1, 1.2]) * 0.01
    A[0, 1] = A[1, 0] = 0.011
    A[0, 2] = A[2, 0] = 0.012
    A[1, 2] = A[2, 1] = 0.013
    grid = 1 + 0.1 * numpy.arange(nt * nv).reshape(nt, nv) / (nt * nv)
    calc.__dict__["modulus_adiabatic"] = {c_(k[1:]): A[int(k[1]) - 1, int(k[2]) - 1] * grid for k in keys}
    calc.__dict__["modulus_isothermal"] = {c_(k[1:]): 0.95 * A[int(k[1]) - 1, int(k[2]) - 1] * grid ** 2 for k in keys}
    calc.__dict__["volume_based_result"] = cc.CijVolumeBaseInterface(calc)
    calc.__dict__["pressure_based_result"] = cc.CijPressureBaseInterface(calc)
    vb, pb = calc.volume_based_result, calc.pressure_based_result
    gpa, ang3 = unit_constants()
    tmp = tempfile.mkdtemp(prefix="c15_")
    cwd = os.getcwd()
    try:
        os.chdir(tmp)
        calc._calculate_compliances()
        for base, tag in ((vb, "tv"), (pb, "tp")):
            for grp, pattern, unit, what in ORACLE:
                if (what == "volumes" and tag == "tv") or (what == "pressures" and tag == "tp"):
                    continue
                ref = None
                for kw in grp:
                    for f in os.listdir(tmp):
                        os.unlink(os.path.join(tmp, f))
                    try:
                        rw.ResultsWriter(base).write(kw)
                    except Exception as e:
                        chk.violation("writer:raises:%s" % grp[0], "writing keyword %s (%s base) raises %s: %s" % (kw, tag, type(e).__name__, str(e)[:100]), {})
                        return
                    files = sorted(os.listdir(tmp))
                    if what.startswith("tensor:"):
                        from qha.v2p import v2p as real_v2p
                        src = calc.__dict__["modulus_adiabatic"] if what.endswith("adiabatic") else calc.__dict__["modulus_isothermal"]
                        conv = (lambda a: real_v2p(numpy.asarray(a, dtype=float), q.volume_base.pressures, q.pressure_base.p_array)) if tag == "tp" else (lambda a: a)
                        want = {pattern.format(base=tag, ij="%d%d" % c_(k[1:]).v): numpy.asarray(conv(src[c_(k[1:])])) * gpa for k in keys}
                    else:
                        val = numpy.asarray(getattr(base, what))
                        want = {pattern.format(base=tag): val * {"GPa": gpa, "ang3": ang3, "km/s": 1.0}[unit]}
                    if files != sorted(want):
                        chk.violation("writer:names:%s" % grp[0], "keyword %s (%s base) writes files %s instead of %s" % (kw, tag, files[:4], sorted(want)[:4]), {})
                        return
                    content = {}
                    for f in files:
                        df = pandas.read_table(os.path.join(tmp, f), sep=r"\s+", index_col=0, header=0)
                        got = df.to_numpy()
                        w = want[f][:-4, :]
                        axis = q.pressure_base.p_array * gpa if tag == "tp" else q.v_array * ang3
                        cols = numpy.array([float(c) for c in df.columns])
                        if cols.shape != axis.shape or numpy.abs(cols - axis).max() > 1e-5 * numpy.abs(axis).max():
                            chk.violation("writer:column-labels:%s" % tag, "file %s: column labels %s are not the %s" % (
                                f, cols.tolist()[:3], "requested pressures in GPa" if tag == "tp" else "grid volumes in A^3"), {})
                            return
                        if numpy.abs(df.index.to_numpy(dtype=float) - q.t_array[:-4]).max() > 1e-5:
                            chk.violation("writer:row-labels:%s" % tag, "file %s: row labels are not the temperature grid" % f, {})
                            return
                        if got.shape != w.shape or numpy.abs(got - w).max() > 1e-12 * max(1e-300, numpy.abs(w).max()):
                            chk.violation("writer:content:%s" % grp[0], "file %s written for keyword %s does not hold the in-memory %s in %s" % (f, kw, what, unit), {})
                            return
                        content[f] = open(os.path.join(tmp, f)).read()
                    if ref is None:
                        ref = content
                    elif content != ref:
                        chk.violation("writer:alias:%s" % grp[0], "alias %s writes other content than %s" % (kw, grp[0]), {})
                        return
        # a rule listed several times for one base (keyword, alias, entry with fname / unit override) through write_output
        for f in os.listdir(tmp):
            os.unlink(os.path.join(tmp, f))
        calc.__dict__["config"] = {"output": {"pressure_base": ["bm_V", {"keyword": "bulk_modulus_voigt", "fname": "my_bm_tp.txt", "unit": "rydberg / bohr^3"}, "B_V"],
                                              "volume_base": [{"keyword": "p", "fname": "p_custom.txt"}, "p"]}}
        calc.write_output()
        files = sorted(os.listdir(tmp))
        want_files = sorted(["bm_V_tp_gpa.txt", "my_bm_tp.txt", "p_custom.txt", "p_tv_gpa.txt"])
        if files != want_files:
            chk.violation("writer:repeated-rule", "output lists naming one quantity twice (keyword + entry with fname / unit override): files written %s "
                          "instead of %s" % (files, want_files), dict(config=calc.__dict__["config"]))
            return
        from qha.v2p import v2p as real_v2p
        kv = real_v2p(numpy.asarray(vb.bulk_modulus_voigt, dtype=float), q.volume_base.pressures, q.pressure_base.p_array)
        got = pandas.read_table(os.path.join(tmp, "my_bm_tp.txt"), sep=r"\s+", index_col=0, header=0).to_numpy()
        if got.shape != kv[:-4, :].shape or numpy.abs(got - kv[:-4, :]).max() > 1e-10 * numpy.abs(kv).max():
            chk.violation("writer:override-content", "file my_bm_tp.txt (unit override rydberg / bohr^3) does not hold K_V in that unit", {})
            return
        # a file-name override with placeholders on a tensor keyword: one file per component
        for f in os.listdir(tmp):
            os.unlink(os.path.join(tmp, f))
        rw.ResultsWriter(pb).write({"keyword": "cij_t", "fname": "my_c{ij}_{base}.txt"})
        files = sorted(os.listdir(tmp))
        want_files = sorted("my_c%d%d_tp.txt" % c_(k[1:]).v for k in keys)
        if files != want_files:
            chk.violation("writer:tensor-fname-override", "{keyword: cij_t, fname: 'my_c{ij}_{base}.txt'} writes %s instead of one file per component %s" % (
                files[:3], want_files[:3]), dict(files=files))
            return
        # unit overrides on scalar rules of each documented unit
        for kw, unit_o, fac, prop in (("vp", "m/s", 1000.0, "primary_velocities"), ("vs", "m/s", 1000.0, "secondary_velocities"),
                                      ("G_R", "rydberg / bohr^3", 1.0, "shear_modulus_reuss")):
            for base, tag in ((vb, "tv"), (pb, "tp")):
                for f in os.listdir(tmp):
                    os.unlink(os.path.join(tmp, f))
                rw.ResultsWriter(base).write({"keyword": kw, "unit": unit_o, "fname": "ovr.txt"})
                val = numpy.asarray(getattr(vb, prop), dtype=float)
                if tag == "tp":
                    val = real_v2p(val, q.volume_base.pressures, q.pressure_base.p_array)
                got = pandas.read_table(os.path.join(tmp, "ovr.txt"), sep=r"\s+", index_col=0, header=0).to_numpy()
                w = val[:-4, :] * fac
                if got.shape != w.shape or numpy.abs(got - w).max() > 1e-10 * numpy.abs(w).max():
                    chk.violation("writer:unit-override:%s" % kw, "keyword %s with unit override %r (%s base): the file holds %.6g where the in-memory "
                                  "value in that unit is %.6g" % (kw, unit_o, tag, got.ravel()[0], w.ravel()[0]), dict(keyword=kw, unit=unit_o))
                    return
    except Exception as e:
        chk.violation("writer:raises", "output writing raises %s: %s" % (type(e).__name__, str(e)[:140]), {})
        return
    finally:
        os.chdir(cwd)
        shutil.rmtree(tmp, ignore_errors=True)
    chk.harness_error("C15: '%s' did not reproduce through real files" % reason)


if __name__ == "__main__":
    run_main(main)
