"""C09 -- fill refuses exactly when under-determined or inconsistent; never distorts data."""
from __future__ import annotations

import os
import random
import shutil
import sys
import tempfile
import time
import warnings
from fractions import Fraction

import numpy
import pandas

from harness.common import Check, run_main, seed
from harness import fill_common as FC
from harness.c08 import supplied_families
from symnum import sym as S, solver as Z, executor as X
from symnum.sym import Sym, SymError, new_context, symarray
from symnum.exactlift import exact_lstsq
from symnum.npproxy import NumpyProxy, patched


def entails(path_conds, cond, name, timeout_ms=15000):
    """PC /\\ not cond unsatisfiable?"""
    enc = Z.Encoder()
    cons = [X._cond_z3(c, enc) for c in path_conds] + [X._cond_z3(X.cond_not(cond), enc)]
    cons += enc.assumptions() + enc.side_conditions()
    return Z.check(cons, name=name, timeout_ms=timeout_ms, enc=enc)


def prefer_no_drop(cond):
    return None if cond[0] == "rel" else False


def free_table(ctx, supplied, nrows, tag="b"):
    vals = {k: [ctx.var("%s_%s_%d" % (tag, k, r)) for r in range(nrows)] for k in supplied}
    data = {"V": [float(100 - 5 * i) for i in range(nrows)]}
    for k in supplied:
        data[k] = symarray(vals[k])
    return pandas.DataFrame(data), vals


def spec_residuals(rows, supplied, vals, nrows):
    """Independent statement of what the residual is: min over all tensors of sum_k (x_k - b_k)^2 + sum_r r(x)^2,
    attained by the exact least-squares solution of [supplied; relations]."""
    a = []
    for k in supplied:
        a.append([Fraction(int(k == kk)) for kk in FC.KEYS])
    a += [list(r) for r in rows]
    na = numpy.array([[float(x) for x in r] for r in a])
    b = numpy.empty((len(a), nrows), dtype=object)
    for i, k in enumerate(supplied):
        for r in range(nrows):
            b[i, r] = vals[k][r]
    for i in range(len(supplied), len(a)):
        for r in range(nrows):
            b[i, r] = Sym({})
    x, res, rank, sv = exact_lstsq(na, b)
    # the residual as the property means it -- how much the supplied values contradict the relations -- is the squared misfit of the
    # best tensor, whether or not the supplied set determines the tensor (numpy's lstsq reports it only for a full-rank system)
    true_res = []
    for r in range(nrows):
        tot = Sym({})
        for i in range(len(a)):
            mis = sum((Sym.of(x[j, r]) * Fraction(a[i][j]) for j in range(len(FC.KEYS)) if a[i][j]), Sym({})) - Sym.of(b[i, r])
            tot = tot + mis * mis
        true_res.append(tot)
    return x, true_res, rank, len(a)


def refusal_obligations(chk, F, system, rows, fam, supplied, nrows, rng, atols):
    """raises <=> (rank<21 and not ignore_rank) or (residual>atol and not ignore_residuals)  -- per flag setting."""
    is_suff = FC.sufficient(rows, supplied)
    for ign_res in (False, True):
        for ign_rank in (False, True):
            for ratol in atols:
                name = "%s:refusal[%s,ignore_residuals=%s,ignore_rank=%s,atol=%g]" % (system, fam, ign_res, ign_rank, ratol)
                ctx = new_context()
                df, vals = free_table(ctx, supplied, nrows)
                xs, res, rank, m = spec_residuals(rows, supplied, vals, nrows)
                if (rank == 21) != is_suff:
                    chk.harness_error("%s: independent rank computations disagree" % name)
                ex = X.Explorer(max_paths=32, name=name)
                ex.prefer = prefer_no_drop
                t0 = time.time()
                try:
                    paths, proxy, ex = FC.run_fill(F, df, system, explorer=ex, ignore_residuals=ign_res, ignore_rank=ign_rank,
                                                   residual_atol=ratol)
                except (SymError, X.PathBudgetExceeded) as e:
                    chk.inconclusive(name, str(e))
                    continue
                at = Sym.of(Fraction(ratol).limit_denominator(10 ** 12))
                nontrivial = any(not Sym.of(r_).is_zero() for r_ in res)     # the supplied set can contradict the relations at all
                rank_refuse = (rank < 21) and not ign_rank
                if nontrivial and not ign_res:
                    res_refuse = X.cond_or(*[X.cond_rel(">", Sym.of(r) - at) for r in res])
                else:
                    res_refuse = X.cond_or()
                spec = X.cond_or(X.cond_and() if rank_refuse else X.cond_or(), res_refuse)
                ok = True
                for p in paths:
                    pc = p.path_condition()
                    if p.exception is not None and not isinstance(p.exception, Warning):
                        ok = False
                        replay_refusal(chk, F, system, supplied, nrows, ign_res, ign_rank, ratol, rows, rng, name,
                                       "raises %s: %s" % (type(p.exception).__name__, p.exception))
                        break
                    raised = p.exception is not None
                    v, env = entails(pc, spec if raised else X.cond_not(spec), name)
                    if v != "unsat":
                        ok = False
                        if v == "sat":
                            replay_refusal(chk, F, system, supplied, nrows, ign_res, ign_rank, ratol, rows, rng, name,
                                           "%s although the refusal condition is %s" % ("raises" if raised else "accepts", not raised), env=env)
                        else:
                            chk.inconclusive(name, "entailment unknown")
                        break
                    if not raised and not ign_res and nontrivial and rank == 21:
                        ok = accepted_obligations(chk, F, system, rows, supplied, nrows, vals, p, at, name, rng,
                                                  ign_res, ign_rank, ratol) and ok
                outcomes = sorted(set("raise" if p.exception is not None else "accept" for p in paths))
                chk.obligation(name, "unsat" if ok else "sat", seconds=round(time.time() - t0, 3), kind="refusal-iff",
                               detail=dict(paths=len(paths), outcomes=outcomes, rank=rank, design_rows=m, sufficient=is_suff))
                if fam == "canonical" and not ign_res and not ign_rank:
                    chk.witness(name + ":both-outcomes-reachable" if (nontrivial and rank == 21) else name + ":reachable",
                                "sat" if (len(outcomes) == 2 or not (nontrivial and rank == 21)) else "unsat")


_LEMMA = {}


def sum_of_squares_lemma(chk, m):
    """Abstract lemma, decided once per size by nlsat: sum_i rho_i^2 <= a  /\  rho_k^2 > a  is unsatisfiable."""
    if m in _LEMMA:
        return _LEMMA[m]
    import z3
    rho = [z3.Real("rho%d" % i) for i in range(m)]
    a = z3.Real("atol")
    cons = [a >= 0, z3.Sum([r * r for r in rho]) <= a, rho[0] * rho[0] > a]
    v, _ = Z.check(cons, name="lemma:sum-of-squares[%d]" % m, timeout_ms=20000)
    _LEMMA[m] = v
    chk.obligation("lemma:sum_i rho_i^2 <= a => rho_k^2 <= a [m=%d]" % m, v, kind="lemma", logic="QF_NRA")
    if v != "unsat":
        chk.inconclusive("sum-of-squares lemma", v)
    return v


def accepted_obligations(chk, F, system, rows, supplied, nrows, vals, p, at, name, rng, ign_res, ign_rank, ratol):
    """On an accepting path: the written-back table IS the exact least-squares solution x of [supplied; relations]
    (identity per component), the residual the code tests IS sum_i rho_i^2 with rho = (b_k - x_k ; -r_j(x)) (identity), and
    the path condition entails residual <= atol (refusal iff, decided above).  With the sum-of-squares lemma this gives:
    no supplied value moves and no relation is violated by more than sqrt(residual_atol)."""
    out = p.result
    cols = {c.lower(): c for c in out.columns}
    xs, res, rank, m = spec_residuals(rows, supplied, vals, nrows)
    for i, k in enumerate(FC.KEYS):
        for r in range(nrows):
            got = Sym.of(out[cols[k]].iloc[r]) if k in cols else Sym({})
            if got.same(xs[i, r]):
                continue
            v, env = Z.prove_equal(got, Sym.of(xs[i, r]), name=name + ":out==lsq[%s]" % k, timeout_ms=8000)
            if v != "unsat":
                replay_refusal(chk, F, system, supplied, nrows, ign_res, ign_rank, ratol, rows, rng, name,
                               "accepted table: component %s is not the least-squares solution" % k, env=env, check_move=True)
                return False
    for r in range(nrows):
        tot = Sym({})
        for k in supplied:
            d = vals[k][r] - Sym.of(xs[FC.KEYS.index(k), r])
            tot = tot + d * d
        for rel in rows:
            acc = Sym({})
            for i, co in enumerate(rel):
                if co:
                    acc = acc + Sym.of(xs[i, r]) * co
            tot = tot + acc * acc
        v, env = Z.prove_equal(tot, Sym.of(res[r]), name=name + ":residual==sum-of-squares", timeout_ms=8000)
        if v != "unsat":
            chk.harness_error("%s: residual decomposition identity failed (%s)" % (name, v))
            return False
    return sum_of_squares_lemma(chk, m) == "unsat"


def replay_refusal(chk, F, system, supplied, nrows, ign_res, ign_rank, ratol, rows, rng, name, what, env=None, check_move=False):
    """Concrete replay on the real fill_cij with real numpy and an independent float least-squares oracle."""
    for attempt in range(5):
        data = {"V": [float(100 - 5 * i) for i in range(nrows)]}
        for k in supplied:
            data[k] = [float(env.get("b_%s_%d" % (k, r), rng.uniform(-3, 3))) if (env and attempt == 0) else rng.uniform(-3, 3) * (10 ** rng.randint(-2, 1))
                       for r in range(nrows)]
        df = pandas.DataFrame(data)
        a = [[float(int(k == kk)) for kk in FC.KEYS] for k in supplied] + [[float(x) for x in r] for r in rows]
        a = numpy.array(a).reshape(len(a), 21)
        b = numpy.array([data[k] for k in supplied] + [[0.0] * nrows for _ in rows]).reshape(len(a), nrows)
        rank = numpy.linalg.matrix_rank(a) if len(a) else 0
        if len(a):
            x = numpy.linalg.pinv(a) @ b
            res = ((a @ x - b) ** 2).sum(axis=0)
        else:
            res = numpy.zeros(nrows)
        # the contradiction between supplied values and relations is the misfit of the best tensor, whether or not the tensor is determined
        defined = len(a) > 0
        margin = min(abs(r - ratol) for r in res) if defined else 1.0
        if defined and margin < 1e-9:
            continue
        should_refuse = (rank < 21 and not ign_rank) or (defined and (res > ratol).any() and not ign_res)
        try:
            with warnings.catch_warnings():
                warnings.simplefilter("ignore")
                out = F.fill_cij(df.copy(), system, ignore_residuals=ign_res, ignore_rank=ign_rank, residual_atol=ratol)
            refused = None
        except Warning as e:
            refused = e
        except BaseException as e:
            if isinstance(e, (KeyboardInterrupt, SystemExit)):
                raise
            chk.violation("%s:fill-crashes" % system,
                          "fill_cij(%s, ignore_residuals=%s, ignore_rank=%s) raises %s: %s for supplied %s"
                          % (system, ign_res, ign_rank, type(e).__name__, e, supplied), dict(system=system, table=data))
            return
        if (refused is not None) != bool(should_refuse):
            chk.violation("%s:refusal-mismatch[suff=%s,res=%s,ign_res=%s,ign_rank=%s]" % (
                system, rank == 21, bool(defined and (res > ratol).any()), ign_res, ign_rank),
                "fill_cij(%s, ignore_residuals=%s, ignore_rank=%s, residual_atol=%g) %s a table with rank %d/21 and residual %s (supplied %s)"
                % (system, ign_res, ign_rank, ratol, "refuses" if refused is not None else "accepts", rank,
                   [float(r) for r in res] if defined else "undefined", supplied),
                dict(system=system, table=data, flags=dict(ignore_residuals=ign_res, ignore_rank=ign_rank, residual_atol=ratol)))
            return
        if check_move and refused is None and defined and not ign_res:
            cols = {c.lower(): c for c in out.columns}
            tol = ratol ** 0.5 * (1 + 1e-9) + 1e-12
            for k in supplied:
                got = [float(v) for v in out[cols[k]]] if k in cols else [0.0] * nrows
                if max(abs(g - w) for g, w in zip(got, data[k])) > tol:
                    chk.violation("%s:accepted-moves-supplied" % system,
                                  "fill_cij(%s) accepts and moves supplied %s from %s to %s (> sqrt(atol))" % (system, k, data[k], got),
                                  dict(system=system, table=data))
                    return
            for n, rel in enumerate(rows):
                val = [sum(float(co) * (float(out[cols[k]].iloc[r]) if k in cols else 0.0) for k, co in zip(FC.KEYS, rel)) for r in range(nrows)]
                if max(abs(v) for v in val) > tol:
                    chk.violation("%s:accepted-violates-relation" % system,
                                  "fill_cij(%s) accepts a table whose output violates relation %d by %s (> sqrt(atol))" % (system, n, val),
                                  dict(system=system, table=data))
                    return
    chk.harness_error("%s: '%s' did not reproduce on the real code" % (name, what))


def invariance_obligations(chk, F, system, rows, supplied, rng, consistent=False):
    """Column order / letter case: identical output polynomials; idempotence; pass-through of non-modulus columns."""
    name = "%s:presentation-invariance" % system
    ctx = new_context()
    nrows = 2
    df, vals = free_table(ctx, supplied, nrows)
    if consistent:
        name = "%s:idempotence-on-consistent-tables" % system
        t_rows = FC.symbolic_invariant(ctx, FC.invariant_basis(rows), nrows)
        df = FC.make_table(t_rows, supplied)
    marker = object()
    extra_col = [marker, marker]

    def run(df_):
        ex = X.Explorer(max_paths=32, name=name)
        ex.prefer = lambda cond: False   # accepted, nothing dropped (cut)
        paths, proxy, ex = FC.run_fill(F, df_, system, explorer=ex, ignore_residuals=True)
        if len(paths) != 1 or paths[0].exception is not None:
            raise SymError("unexpected paths/exception: %s" % [p.exception for p in paths])
        return paths[0].result

    t0 = time.time()
    try:
        df0 = df.copy()
        df0["note"] = [1.5, 2.5]
        base = run(df0)
        order = list(supplied)
        rng.shuffle(order)
        df2 = pandas.DataFrame({**{(k.upper() if i % 2 == 0 else k): df[k] for i, k in enumerate(order)}, "note": [1.5, 2.5], "V": df["V"]})
        alt = run(df2)
        again = run(base) if consistent else base
    except (SymError, X.PathBudgetExceeded) as e:
        chk.inconclusive(name, str(e))
        return
    ok, why = True, None
    cb = {c.lower(): c for c in base.columns}
    ca = {c.lower(): c for c in alt.columns}
    cg = {c.lower(): c for c in again.columns}
    if set(cb) != set(ca):
        ok, why = False, "column sets differ between presentations: %s vs %s" % (sorted(cb), sorted(ca))
    elif set(cb) != set(cg):
        ok, why = False, "second fill changes the column set"
    else:
        for k in cb:
            if k in ("v", "note"):
                same = list(base[cb[k]]) == list(alt[ca[k]]) == list(df0[k.upper() if k == "v" else k])
                if not same:
                    ok, why = False, "non-modulus column %s altered" % k
                continue
            for r in range(nrows):
                if not Sym.of(base[cb[k]].iloc[r]).same(Sym.of(alt[ca[k]].iloc[r])):
                    v, _ = Z.prove_equal(Sym.of(base[cb[k]].iloc[r]), Sym.of(alt[ca[k]].iloc[r]), name=name)
                    if v != "unsat":
                        ok, why = False, "component %s depends on column order / case" % k
                v, _ = Z.prove_equal(Sym.of(base[cb[k]].iloc[r]), Sym.of(again[cg[k]].iloc[r]), name=name + ":idempotent")
                if v != "unsat":
                    ok, why = False, "fill(fill(x)) != fill(x) for %s" % k
    chk.obligation(name + "[order,case,idempotence,pass-through]", "unsat" if ok else "sat", seconds=round(time.time() - t0, 3),
                   kind="identity", detail=dict(supplied=supplied))
    if not ok:
        # concrete replay
        data = {"V": [100.0, 95.0], "note": [1.5, 2.5]}
        for k in supplied:
            data[k] = [rng.uniform(50, 300), rng.uniform(50, 300)]
        if consistent:
            basis = FC.invariant_basis(rows)
            co = [[rng.uniform(50, 300) for _ in basis] for _ in range(2)]
            for k in supplied:
                data[k] = [sum(c * float(b[k]) for c, b in zip(co[r], basis)) for r in range(2)]
        d0 = pandas.DataFrame(data)
        d2 = pandas.DataFrame({**{(k.upper() if i % 2 == 0 else k): d0[k] for i, k in enumerate(order)}, "note": d0["note"], "V": d0["V"]})
        try:
            with warnings.catch_warnings():
                warnings.simplefilter("ignore")
                o0 = F.fill_cij(d0.copy(), system, ignore_residuals=True)
                o2 = F.fill_cij(d2.copy(), system, ignore_residuals=True)
                o3 = F.fill_cij(o0.copy(), system, ignore_residuals=True) if consistent else o0
            c0 = {c.lower(): c for c in o0.columns}
            c2 = {c.lower(): c for c in o2.columns}
            c3 = {c.lower(): c for c in o3.columns}
            bad = None
            if set(c0) != set(c2) or len(c2) != len(o2.columns):
                bad = "column sets differ: %s vs %s" % (list(o0.columns), list(o2.columns))
            elif set(c0) != set(c3):
                bad = "second fill changes columns"
            else:
                for k in c0:
                    if k == "note":
                        if list(o0[c0[k]]) != [1.5, 2.5] or list(o2[c2[k]]) != [1.5, 2.5]:
                            bad = "note column altered"
                        continue
                    a0, a2, a3 = (numpy.asarray(o[c[k]], dtype=float) for o, c in ((o0, c0), (o2, c2), (o3, c3)))
                    if numpy.abs(a0 - a2).max() > 1e-7 or numpy.abs(a0 - a3).max() > 1e-7:
                        bad = "component %s differs between presentations / second fill" % k
            if bad:
                chk.violation("%s:presentation-dependence" % system, "fill_cij(%s): %s" % (system, bad), dict(system=system, table=data))
            else:
                chk.harness_error("%s: %s did not reproduce" % (name, why))
        except BaseException as e:
            if isinstance(e, (KeyboardInterrupt, SystemExit)):
                raise
            chk.violation("%s:presentation-crash" % system, "fill_cij(%s) raises %s: %s on a re-presented table" % (system, type(e).__name__, e),
                          dict(system=system, table=data))


def drop_obligation(chk, F, system, rows, supplied, rng):
    """A column is omitted <=> every row satisfies |x| <= drop_atol (explored by forking on one free column)."""
    name = "%s:drop-iff-all-rows-below-tolerance" % system
    ctx = new_context()
    nrows = 2
    df, vals = free_table(ctx, supplied, nrows)
    # all supplied values but those of the first key are kept away from zero
    k0 = supplied[0]
    for k in supplied[1:]:
        for r in range(nrows):
            ctx.assume(">", vals[k][r] - 5 - supplied.index(k))
    for datol in (1e-8, 0.5):
        ex = X.Explorer(max_paths=64, name=name)
        t0 = time.time()
        try:
            paths, proxy, ex = FC.run_fill(F, df, system, explorer=ex, ignore_residuals=True, drop_atol=datol)
        except (SymError, X.PathBudgetExceeded) as e:
            chk.inconclusive(name, str(e))
            return
        ok = True
        dt = Sym.of(Fraction(datol).limit_denominator(10 ** 12))
        n_drop = 0
        for p in paths:
            if p.exception is not None:
                ok = False
                break
            out = p.result
            cols = {c.lower(): c for c in out.columns}
            pc = p.path_condition()
            # recompute the undropped solution from the spec
            xs, res, rank, m = spec_residuals(rows, supplied, vals, nrows)
            for i, k in enumerate(FC.KEYS):
                small = X.cond_and(*[X.cond_abs_le(Sym.of(xs[i, r]), dt) for r in range(nrows)])
                present = k in cols
                n_drop += (not present) and not all(Sym.of(xs[i, r]).is_zero() for r in range(nrows))
                v, env = entails(pc, X.cond_not(small) if present else small, name + ":" + k, timeout_ms=8000)
                if v != "unsat":
                    ok = False
        chk.obligation(name + "[drop_atol=%g]" % datol, "unsat" if ok else "sat", seconds=round(time.time() - t0, 3), kind="iff",
                       detail=dict(paths=len(paths), paths_with_symbolic_drop=n_drop))
        if not ok:
            # concrete replay: first key tiny / not tiny
            for val in ([datol / 4, -datol / 4], [datol * 4, -datol * 4], [datol / 4, datol * 4], [datol * 4, datol / 4]):
                data = {"V": [100.0, 95.0]}
                for k in supplied:
                    data[k] = [6.0 + supplied.index(k), 7.0 + supplied.index(k)]
                data[k0] = list(val)
                try:
                    with warnings.catch_warnings():
                        warnings.simplefilter("ignore")
                        out = F.fill_cij(pandas.DataFrame(data), system, ignore_residuals=True, drop_atol=datol)
                except BaseException as e:
                    if isinstance(e, (KeyboardInterrupt, SystemExit)):
                        raise
                    chk.violation("%s:drop-crash" % system, "fill_cij raises %s: %s" % (type(e).__name__, e), dict(system=system, table=data))
                    return
                a = [[float(int(k == kk)) for kk in FC.KEYS] for k in supplied] + [[float(x) for x in r] for r in rows]
                a = numpy.array(a)
                b = numpy.array([data[k] for k in supplied] + [[0.0] * 2 for _ in rows])
                x = numpy.linalg.pinv(a) @ b
                cols = {c.lower() for c in out.columns}
                for i, k in enumerate(FC.KEYS):
                    mx = numpy.abs(x[i]).max()
                    if abs(mx - datol) < 1e-3 * datol:
                        continue
                    if (k in cols) != (mx > datol):
                        chk.violation("%s:drop-mismatch" % system,
                                      "fill_cij(%s, drop_atol=%g): component %s (max |x| = %.3g) is %s" % (
                                          system, datol, k, mx, "kept" if k in cols else "omitted"), dict(system=system, table=data))
                        return
            chk.harness_error("%s did not reproduce concretely" % name)
            return


def passthrough_obligation(chk, F, system, rows, supplied, rng):
    """Non-modulus columns pass through untouched -- whatever they hold: values that are zero (or below the drop tolerance) at every
    volume included.  A symmetry-consistent symbolic table with three extra columns: concrete zeros, symbolic values bounded below the
    drop tolerance, free symbolic values."""
    name = "%s:non-modulus columns pass through (zero / tiny / arbitrary values)" % system
    ctx = new_context()
    basis = FC.invariant_basis(rows)
    t_rows = FC.symbolic_invariant(ctx, basis, 2)
    tiny = symarray([ctx.var("tiny%d" % r, lo=Fraction(-1, 10 ** 9), hi=Fraction(1, 10 ** 9)) for r in range(2)])
    free = symarray([ctx.var("free%d" % r) for r in range(2)])
    df = FC.make_table(t_rows, supplied, extra={"P": [0.0, 0.0], "T": tiny, "misc": free})
    ex = X.Explorer(max_paths=64, name=name)
    ex.prefer = FC.no_drop_cut
    t0 = time.time()
    fails = []
    try:
        paths, proxy, ex = FC.run_fill(F, df, system, explorer=ex)
    except (SymError, X.PathBudgetExceeded) as e:
        chk.inconclusive(name, str(e))
        return
    for p in paths:
        if p.exception is not None:
            fails.append("raises %s: %s" % (type(p.exception).__name__, p.exception))
            continue
        out = p.result
        for col, want in (("V", df["V"].tolist()), ("P", [0.0, 0.0]), ("T", list(tiny)), ("misc", list(free))):
            if col not in out.columns:
                fails.append("non-modulus column %r is missing from the result" % col)
            elif not all((Sym.of(a).same(b) if isinstance(b, Sym) or isinstance(a, Sym) else a == b) for a, b in zip(out[col].tolist(), want)):
                fails.append("non-modulus column %r is altered" % col)
    chk.obligation(name, "unsat" if not fails else "sat", seconds=round(time.time() - t0, 2), kind="pass-through", detail=sorted(set(fails))[:3])
    if fails:
        data = {"V": [100.0, 95.0], "P": [0.0, 0.0], "T": [1e-10, -1e-10], "misc": [3.5, -2.0]}
        coeffs = [[rng.uniform(50, 300) for _ in basis] for _ in range(2)]
        for k in supplied:
            data[k] = [sum(c * float(b[k]) for c, b in zip(coeffs[r], basis)) for r in range(2)]
        try:
            with warnings.catch_warnings():
                warnings.simplefilter("ignore")
                out = F.fill_cij(pandas.DataFrame(data), system)
        except BaseException as e:
            if isinstance(e, (KeyboardInterrupt, SystemExit)):
                raise
            chk.violation("%s:passthrough-raises" % system, "fill_cij raises %s: %s on a consistent table with extra non-modulus columns" % (type(e).__name__, e), dict(table=data))
            return
        lost = [c for c in ("V", "P", "T", "misc") if c not in out.columns or list(out[c]) != data[c]]
        if lost:
            chk.violation("passthrough:non-modulus-columns", "fill_cij(%s) drops or alters the non-modulus columns %s (P is 0 at every volume, T is 1e-10: "
                          "both below the drop tolerance meant for vanishing tensor components)" % (system, lost), dict(table=data))
        else:
            chk.harness_error("%s did not reproduce concretely" % name)


def triclinic_obligation(chk, F, rng):
    """The ninth system: triclinic has no relations, so the supplied columns alone must determine all 21 components -- a table with fewer
    columns is under-determined and must be refused unless ignore_rank is set (and vanishing columns omitted like for every system)."""
    name = "triclinic:refusal[3 supplied columns, ignore_rank=False]"
    ctx = new_context()
    df, vals = free_table(ctx, ["c11", "c12", "c44"], 1)
    t0 = time.time()
    try:
        paths, proxy, ex = FC.run_fill(F, df, "triclinic", explorer=X.Explorer(max_paths=8, name=name))
    except (SymError, X.PathBudgetExceeded) as e:
        chk.inconclusive(name, str(e))
        return
    accepted = [p for p in paths if p.exception is None]
    chk.obligation(name + ": raises (rank 3 < 21)", "unsat" if not accepted else "sat", seconds=round(time.time() - t0, 2), kind="refusal-iff",
                   detail=dict(paths=len(paths)))
    if accepted:
        data = {"V": [100.0], "c11": [300.0], "c12": [100.0], "c44": [80.0]}
        try:
            with warnings.catch_warnings():
                warnings.simplefilter("ignore")
                out = F.fill_cij(pandas.DataFrame(data), "triclinic")
            chk.violation("triclinic:under-determined-accepted", "fill_cij(table with only c11, c12, c44, 'triclinic') accepts the table although the supplied "
                          "columns do not determine the 21 components (no relations, rank 3) and ignore_rank is not set", dict(table=data))
        except Warning:
            chk.harness_error("triclinic acceptance did not reproduce")
        except BaseException as e:
            if isinstance(e, (KeyboardInterrupt, SystemExit)):
                raise
            chk.violation("triclinic:raises", "fill_cij(..., 'triclinic') raises %s: %s" % (type(e).__name__, e), dict(table=data))


def empty_set_obligation(chk, F, rng):
    """The empty subset of supplied components: a table with no modulus column at all is under-determined like any other insufficient
    table -- refused with the rank Warning, accepted (nothing to report) under ignore_rank."""
    for ign_rank in (False, True):
        name = "cubic:refusal[no modulus column, ignore_rank=%s]" % ign_rank
        ctx = new_context()
        df = pandas.DataFrame({"V": [100.0, 95.0], "P": symarray([ctx.var("p0"), ctx.var("p1")])})
        try:
            paths, proxy, ex = FC.run_fill(F, df, "cubic", explorer=X.Explorer(max_paths=8, name=name), ignore_rank=ign_rank)
        except (SymError, X.PathBudgetExceeded) as e:
            chk.inconclusive(name, str(e))
            continue
        outcomes = ["Warning" if isinstance(p.exception, Warning) else (type(p.exception).__name__ if p.exception is not None else "accept") for p in paths]
        good = all(o == ("accept" if ign_rank else "Warning") for o in outcomes)
        chk.obligation(name + (": accepted" if ign_rank else ": rank Warning"), "unsat" if good else "sat", kind="refusal-iff", detail=dict(outcomes=outcomes))
        if not good:
            try:
                with warnings.catch_warnings():
                    warnings.simplefilter("ignore")
                    F.fill_cij(pandas.DataFrame({"V": [100.0, 95.0], "P": [1.0, 2.0]}), "cubic", ignore_rank=ign_rank)
                got = "accepts"
            except Warning:
                got = "Warning"
            except BaseException as e:
                if isinstance(e, (KeyboardInterrupt, SystemExit)):
                    raise
                got = "%s: %s" % (type(e).__name__, e)
            if got != ("accepts" if ign_rank else "Warning"):
                chk.violation("empty-set:ignore_rank=%s" % ign_rank, "fill_cij(table without any modulus column, 'cubic', ignore_rank=%s) gives '%s' instead of %s"
                              % (ign_rank, got, "accepting the table" if ign_rank else "the rank Warning"), {})
            else:
                chk.harness_error("%s did not reproduce" % name)


def settings_forwarding_obligation(chk, F, rng):
    """The tolerances and flags of the settings file reach fill_cij unchanged on the Calculator path (apply_symetry_on_elast_data): the two
    tolerances are finite-domain symbolic values that include 0 -- 'exactly these refusals' is meant for every tolerance a user may write."""
    import cij.io.traditional.elast_dat as ed
    from cij.util import c_
    chk.encode(ed.apply_symetry_on_elast_data)
    ctx = new_context()
    ctx.concretise_enabled = True
    RA = ctx.var("residual_atol", nonneg=True, domain=[0, Fraction(1, 20), Fraction(1, 10), 1])
    DA = ctx.var("drop_atol", nonneg=True, domain=[0, Fraction(1, 10 ** 8), Fraction(1, 1000)])
    fails = []
    n_paths = 0
    t0 = time.time()
    for ign_res, ign_rank in ((False, False), (True, False), (False, True)):
        sym = {"system": "cubic", "ignore_residuals": ign_res, "ignore_rank": ign_rank, "drop_atol": DA, "residual_atol": RA}
        seen = []

        def recorder(df, *a, **kw):
            seen.append((a, dict(kw)))
            return df

        def fn():
            del seen[:]
            data = ed.ElastData(100.0, 2, 50.0, [ed.ElastVolumeData(100.0 - 5 * r, {c_("11"): 300.0 + r, c_("12"): 100.0 + r, c_("44"): 80.0 + r}) for r in range(2)], [])
            with patched((F, {"fill_cij": recorder})):
                ed.apply_symetry_on_elast_data(data, dict(sym))
            return list(seen)
        try:
            paths = X.explore(fn, name="C09:settings-forwarding", max_paths=64)
        except SymError as e:
            chk.inconclusive("settings forwarding", str(e))
            return
        n_paths += len(paths)
        for p in paths:
            if p.exception is not None:
                fails.append("raises %s: %s" % (type(p.exception).__name__, str(p.exception)[:60]))
                continue
            if len(p.result) != 1:
                fails.append("fill_cij called %d times" % len(p.result))
                continue
            a, kw = p.result[0]
            names = ["system", "ignore_residuals", "ignore_rank", "drop_atol", "residual_atol"]
            got = dict(zip(names, a))
            got.update(kw)
            with X.path_assumptions(p):
                for k in ("drop_atol", "residual_atol"):
                    if k not in got or Z.prove_equal(Sym.of(got[k]), Sym.of(sym[k]), name="C09:forward:" + k, timeout_ms=5000)[0] != "unsat":
                        fails.append("%s reaches fill_cij as %s" % (k, Sym.of(got[k]).short(3) if k in got else "nothing"))
            for k in ("system", "ignore_residuals", "ignore_rank"):
                if got.get(k) != sym[k] or (k != "system" and got.get(k) is not sym[k] and bool(got.get(k)) != sym[k]):
                    fails.append("%s reaches fill_cij as %r" % (k, got.get(k)))
    chk.obligation("settings file -> fill_cij on the Calculator path: system, both ignore flags and both tolerances (finite-domain symbolic, 0 included) "
                   "arrive unchanged [%d paths]" % n_paths, "unsat" if not fails else "sat", seconds=round(time.time() - t0, 2), kind="wiring", detail=sorted(set(fails))[:3])
    if fails:
        for ra, da in ((0.0, 1e-8), (0.1, 0.0), (0, 0), (0.05, 1e-3)):
            seen = []

            def rec2(df, *a, **kw):
                seen.append((a, kw))
                return df
            data = ed.ElastData(100.0, 2, 50.0, [ed.ElastVolumeData(100.0 - 5 * r, {c_("11"): 300.0 + r, c_("12"): 100.0 + r, c_("44"): 80.0 + r}) for r in range(2)], [])
            try:
                with patched((F, {"fill_cij": rec2})):
                    ed.apply_symetry_on_elast_data(data, {"system": "cubic", "ignore_residuals": False, "ignore_rank": True, "drop_atol": da, "residual_atol": ra})
            except Exception as e:
                chk.violation("settings-forwarding:raises", "apply_symetry_on_elast_data raises %s: %s for residual_atol = %r, drop_atol = %r" % (type(e).__name__, str(e)[:80], ra, da), {})
                return
            a, kw = seen[0]
            got = dict(zip(["system", "ignore_residuals", "ignore_rank", "drop_atol", "residual_atol"], a))
            got.update(kw)
            if got.get("residual_atol") != ra or got.get("drop_atol") != da or got.get("ignore_rank") is not True or got.get("ignore_residuals") is not False:
                chk.violation("settings-forwarding", "symmetry settings {residual_atol: %r, drop_atol: %r, ignore_rank: True} of the settings file reach fill_cij as "
                              "residual_atol = %r, drop_atol = %r, ignore_rank = %r, ignore_residuals = %r" % (
                                  ra, da, got.get("residual_atol"), got.get("drop_atol"), got.get("ignore_rank"), got.get("ignore_residuals")), {})
                return
        chk.harness_error("settings forwarding: '%s' did not reproduce" % fails[0])


def configuration_twins(chk, F, rng):
    """Stage R(c): the same fill under configurations symbolic values cannot carry (dtype, cwd, relation-file path)."""
    from cij.data import get_data_fname
    system = "cubic"
    base = pandas.DataFrame({"V": [100.0, 90.0], "c11": [300.0, 320.0], "c12": [100.0, 110.0], "c44": [80.0, 85.0]})
    with warnings.catch_warnings():
        warnings.simplefilter("ignore")
        ref = F.fill_cij(base.copy(), system)

    def same(out):
        if sorted(c.lower() for c in out.columns) != sorted(c.lower() for c in ref.columns):
            return "columns %s instead of %s" % (list(out.columns), list(ref.columns))
        for c in ref.columns:
            if numpy.abs(numpy.asarray(out[c], dtype=float) - numpy.asarray(ref[c], dtype=float)).max() > 1e-9:
                return "column %s differs" % c
        return None

    # (1) integer-typed columns
    ints = base.astype({"c11": "int64", "c12": "int64", "c44": "int64"})
    try:
        with warnings.catch_warnings():
            warnings.simplefilter("ignore")
            out = F.fill_cij(ints.copy(), system)
        d = same(out)
        if d:
            chk.violation("twin:int-columns", "integer-typed columns give a different outcome: %s" % d, dict(table=ints.to_dict("list")))
        else:
            chk.side_check("twin int64 columns == float columns", True)
    except BaseException as e:
        if isinstance(e, (KeyboardInterrupt, SystemExit)):
            raise
        chk.violation("twin:int-columns", "fill_cij raises %s: %s for integer-typed columns" % (type(e).__name__, str(e)[:120]),
                      dict(table=ints.to_dict("list")))
    # (1b) the caller's frame carries row labels of its own (sorted by volume, a filtered subset, V as the index)
    for tag, lab in (("labels [7, 3]", [7, 3]), ("V as the index", None)):
        fr = base.copy()
        if lab is None:
            fr.index = pandas.Index(fr["V"].tolist(), name="volume")
        else:
            fr.index = lab
        try:
            with warnings.catch_warnings():
                warnings.simplefilter("ignore")
                out = F.fill_cij(fr.copy(), system)
            d = same(out)
            if d is None and list(out.index) != list(fr.index):
                d = "row labels changed to %s" % list(out.index)
            if d:
                chk.violation("twin:row-labels", "a frame with row labels of its own (%s) gives a different outcome: %s" % (tag, d), dict(table=fr.to_dict("list")))
                break
            chk.side_check("twin frame with %s == default row labels" % tag, True)
        except BaseException as e:
            if isinstance(e, (KeyboardInterrupt, SystemExit)):
                raise
            chk.violation("twin:row-labels", "fill_cij raises %s: %s for a frame with %s" % (type(e).__name__, str(e)[:120], tag), dict(table=fr.to_dict("list")))
            break
    # (1c) many volume rows: the residual test is per volume row, whichever row carries the contradiction (also beyond the 21st)
    nrow = 25
    many = {"V": [200.0 - i for i in range(nrow)]}
    for k in ("c11", "c22", "c33"):
        many[k] = [300.0 + i for i in range(nrow)]
    for k in ("c12", "c13", "c23"):
        many[k] = [100.0 + 0.5 * i for i in range(nrow)]
    for k in ("c44", "c55", "c66"):
        many[k] = [80.0 + 0.25 * i for i in range(nrow)]
    for bad_row in (3, 22, 24):
        t = {k: list(v) for k, v in many.items()}
        t["c22"][bad_row] += 5.0
        try:
            with warnings.catch_warnings():
                warnings.simplefilter("ignore")
                F.fill_cij(pandas.DataFrame(t), system)
            chk.violation("twin:many-rows", "a %d-row cubic table whose row %d has c22 = c11 + 5 GPa (every other row consistent) is accepted: the contradiction in that "
                          "volume row is not compared with residual_atol" % (nrow, bad_row), dict(rows=nrow, bad_row=bad_row))
            break
        except Warning:
            pass
        except BaseException as e:
            if isinstance(e, (KeyboardInterrupt, SystemExit)):
                raise
            chk.violation("twin:many-rows", "fill_cij raises %s: %s on a %d-row table" % (type(e).__name__, str(e)[:100], nrow), dict(rows=nrow))
            break
    else:
        chk.side_check("twin %d volume rows: a contradiction in row 3, 22 or 24 alone is refused" % nrow, True)
    # (2) a directory named like the system in the working directory
    cwd = os.getcwd()
    tmp = tempfile.mkdtemp(prefix="c09twin_")
    try:
        os.mkdir(os.path.join(tmp, system))
        os.chdir(tmp)
        try:
            with warnings.catch_warnings():
                warnings.simplefilter("ignore")
                out = F.fill_cij(base.copy(), system)
            d = same(out)
            if d:
                chk.violation("twin:cwd-directory", "a directory named %r in the working directory changes the outcome: %s" % (system, d), {})
            else:
                chk.side_check("twin cwd directory named like the system", True)
        except BaseException as e:
            if isinstance(e, (KeyboardInterrupt, SystemExit)):
                raise
            chk.violation("twin:cwd-directory", "fill_cij(%r) raises %s: %s when the working directory contains a directory of that name"
                          % (system, type(e).__name__, str(e)[:120]), dict(cwd_entries=[system + "/"]))
        # (3) a path to a relations file equivalent to the packaged one
        os.chdir(cwd)
        relfile = os.path.join(tmp, "my_relations.txt")
        shutil.copy(get_data_fname("constraints/" + system), relfile)
        try:
            with warnings.catch_warnings():
                warnings.simplefilter("ignore")
                out = F.fill_cij(base.copy(), relfile)
            d = same(out)
            if d:
                chk.violation("twin:relations-file-path", "a path to an equivalent relations file gives a different outcome: %s" % d, {})
            else:
                chk.side_check("twin relations file path", True)
        except BaseException as e:
            if isinstance(e, (KeyboardInterrupt, SystemExit)):
                raise
            chk.violation("twin:relations-file-path", "fill_cij(table, <path to relations file>) raises %s: %s" % (type(e).__name__, str(e)[:120]),
                          dict(system_argument="path to a copy of constraints/" + system))
        # (4) history: the same path now holds the relations of another system -- the file's current content must be used
        try:
            base2 = pandas.DataFrame({"V": [100.0, 90.0], "c11": [300.0, 320.0], "c12": [100.0, 110.0], "c13": [90.0, 95.0],
                                      "c33": [280.0, 300.0], "c44": [80.0, 85.0]})
            with warnings.catch_warnings():
                warnings.simplefilter("ignore")
                ref2 = F.fill_cij(base2.copy(), "hexagonal")
            shutil.copy(get_data_fname("constraints/hexagonal"), relfile)
            with warnings.catch_warnings():
                warnings.simplefilter("ignore")
                out2 = F.fill_cij(base2.copy(), relfile)
            bad = None
            if sorted(c.lower() for c in out2.columns) != sorted(c.lower() for c in ref2.columns):
                bad = "columns %s instead of %s" % (list(out2.columns), list(ref2.columns))
            else:
                for c in ref2.columns:
                    if numpy.abs(numpy.asarray(out2[c], dtype=float) - numpy.asarray(ref2[c], dtype=float)).max() > 1e-9:
                        bad = "column %s differs" % c
            if bad:
                chk.violation("twin:relations-file-rewritten", "a relations file rewritten (cubic -> hexagonal relations) between two calls with the "
                              "same path is not used with its current content: %s" % bad, {})
            else:
                chk.side_check("twin relations file rewritten between two calls", True)
        except BaseException as e:
            if isinstance(e, (KeyboardInterrupt, SystemExit)):
                raise
            chk.violation("twin:relations-file-rewritten", "fill_cij(table, <path>) raises %s: %s after the relations file at that path was "
                          "rewritten with the hexagonal relations (it held the cubic ones at the previous call)" % (type(e).__name__, str(e)[:100]), {})
        # (3b) the same relations in a user-written file with the usual blank lines (between two relations, at the end)
        try:
            with open(get_data_fname("constraints/" + system)) as fp:
                rel_lines = [ln.rstrip("\n") for ln in fp if ln.strip()]
            blankfile = os.path.join(tmp, "relations_with_blank_lines.txt")
            with open(blankfile, "w") as fp:
                fp.write(rel_lines[0] + "\n\n" + "\n".join(rel_lines[1:]) + "\n\n")
            with warnings.catch_warnings():
                warnings.simplefilter("ignore")
                out = F.fill_cij(base.copy(), blankfile)
            d = same(out)
            if d:
                chk.violation("twin:relations-file-blank-lines", "a relations file equal to the packaged one up to blank lines gives a different outcome: %s" % d, {})
            else:
                chk.side_check("twin relations file with blank lines", True)
        except BaseException as e:
            if isinstance(e, (KeyboardInterrupt, SystemExit)):
                raise
            chk.violation("twin:relations-file-blank-lines", "fill_cij(table, <path>) raises %s: %s for a relations file that equals the packaged "
                          "one up to a blank line between two relations and one at the end" % (type(e).__name__, str(e)[:100]), {})
        # (3c) the same relations written with upper-case symbols (letter case must not matter)
        try:
            with open(get_data_fname("constraints/" + system)) as fp:
                upper_txt = fp.read().replace("c", "C")
            upfile = os.path.join(tmp, "RELATIONS_UPPER.txt")
            with open(upfile, "w") as fp:
                fp.write(upper_txt)
            with warnings.catch_warnings():
                warnings.simplefilter("ignore")
                out = F.fill_cij(base.copy(), upfile)
            d = same(out)
            if d:
                chk.violation("twin:relations-file-upper-case", "a relations file written with upper-case symbols gives a different outcome: %s" % d, {})
            else:
                chk.side_check("twin relations file with upper-case symbols", True)
        except BaseException as e:
            if isinstance(e, (KeyboardInterrupt, SystemExit)):
                raise
            chk.violation("twin:relations-file-upper-case", "fill_cij(table, <path>) raises %s: %s for the packaged cubic relations written with "
                          "upper-case symbols (C11 = C22 = C33 ...)" % (type(e).__name__, str(e)[:100]), {})
        # (5) the command line: each flag alone switches off exactly its own refusal
        try:
            from click.testing import CliRunner
            import cij.cli.fill as cf
            under = os.path.join(tmp, "under.dat")        # consistent but under-determined for cubic (no c44)
            contra = os.path.join(tmp, "contra.dat")      # sufficient but contradicting (c11 != c22)
            with open(under, "w") as fp:
                fp.write("under-determined\n100.0 2 50.0\nV c11 c12\n100.0 300.0 100.0\n90.0 320.0 110.0\n")
            with open(contra, "w") as fp:
                fp.write("contradicting\n100.0 2 50.0\nV c11 c22 c12 c44\n100.0 300.0 360.0 100.0 80.0\n90.0 320.0 390.0 110.0 85.0\n")
            want = {(under, ()): False, (under, ("--ignore-rank",)): True, (under, ("--ignore-residuals",)): False,
                    (contra, ()): False, (contra, ("--ignore-residuals",)): True, (contra, ("--ignore-rank",)): False,
                    (under, ("--ignore-rank", "--ignore-residuals")): True, (contra, ("--ignore-rank", "--ignore-residuals")): True}
            wrong = []
            for (fn_, flags), ok_expected in want.items():
                with warnings.catch_warnings():
                    warnings.simplefilter("ignore")
                    r = CliRunner().invoke(cf.main, [fn_, "-s", "cubic"] + list(flags))
                if (r.exit_code == 0) != ok_expected:
                    wrong.append("%s %s -> %s" % (os.path.basename(fn_), " ".join(flags) or "(no flag)", "accepted" if r.exit_code == 0 else "refused"))
            if wrong:
                chk.violation("twin:cli-flags", "cij fill: the ignore flags do not switch off exactly their own refusal: %s" % "; ".join(wrong[:4]), {})
            else:
                chk.side_check("twin cij fill command: --ignore-rank / --ignore-residuals each waive exactly their own refusal (8 runs)", True)
        except BaseException as e:
            if isinstance(e, (KeyboardInterrupt, SystemExit)):
                raise
            chk.note("cli flag twin not executed: %s: %s" % (type(e).__name__, e))
    finally:
        os.chdir(cwd)
        shutil.rmtree(tmp, ignore_errors=True)


def main():
    tier = os.environ.get("VERIF_TIER", "quick")
    if len(sys.argv) > 1:
        tier = sys.argv[1]
    chk = Check("C09", tier, "real fill_cij executed on free symbolic tables with an exact least-squares stub; the forking executor "
                             "explores the rank / residual / drop branches and z3 (nlsat) decides, per path, 'raises <=> refusal "
                             "condition', the sqrt(atol) bounds, drop <=> below tolerance; configuration twins replayed concretely")
    import cij.util.fill as F
    chk.encode(F.fill_cij)
    Z.reset_log()
    rng = random.Random(seed() + 9)
    systems = [s for s in FC.SYSTEMS if s != "triclinic"]
    for system in systems:
        rows = FC.capture_relations(F, system)
        basis = FC.invariant_basis(rows)
        fams = supplied_families(rows, basis, random.Random(3), "quick")
        byname = {n: s_ for n, s_, _ in fams}
        canon = byname["canonical"]
        full_nonzero = byname["full-nonzero"]
        sets = [("canonical", canon), ("full-nonzero", full_nonzero)]
        sets.append(("canonical-minus-%s" % canon[-1], canon[:-1]))
        # under-determined AND redundant: one canonical key removed, a symmetry partner of a remaining key added (the supplied values can
        # contradict the relations although they do not determine the tensor) -- the two refusals must stay independent of each other
        nonzero = full_nonzero
        for drop_k in reversed(canon):
            rest = [x for x in canon if x != drop_k]
            partner = next((e for e in nonzero if e not in canon and not FC.sufficient(rows, rest + [e])
                            and FC.rank_of(rows, rest + [e]) == FC.rank_of(rows, rest)), None)
            if partner is not None:
                sets.append(("under-determined+redundant(%s-for-%s)" % (partner, drop_k), rest + [partner]))
                break
        if tier != "quick":
            for k in canon[:-1]:
                sets.append(("canonical-minus-%s" % k, [x for x in canon if x != k]))
            sets += [(n, s_) for n, s_, _ in fams if n.startswith("exchange-")][:3]
        atols = (0.1,) if tier == "quick" else (0.1, 1e-4)
        for fam, supplied in sets:
            if not supplied:
                continue
            refusal_obligations(chk, F, system, rows, fam, supplied, 1 if tier == "quick" else 2, rng, atols)
        invariance_obligations(chk, F, system, rows, full_nonzero, rng)
        invariance_obligations(chk, F, system, rows, full_nonzero, rng, consistent=True)
        if tier != "quick" or system in ("cubic", "trigonal6", "monoclinic"):
            drop_obligation(chk, F, system, rows, canon, rng)
        if tier != "quick" or system in ("cubic", "hexagonal"):
            passthrough_obligation(chk, F, system, rows, canon, rng)
    triclinic_obligation(chk, F, rng)
    empty_set_obligation(chk, F, rng)
    settings_forwarding_obligation(chk, F, rng)
    configuration_twins(chk, F, rng)
    chk.bound(systems=systems, supplied_sets="canonical, full non-zero, canonical minus one key%s" % ("" if tier == "quick" else " (each), 3 exchanges"),
              flags="all 4 combinations", residual_atol=[0.1] if tier == "quick" else [0.1, 1e-4], rows=1 if tier == "quick" else 2,
              path_budget=32)
    chk.stub("numpy.linalg.lstsq -> exact least-squares specification; numpy.allclose -> solver-decided")
    chk.assume("cut in the refusal obligations: not-identically-zero columns are not dropped (drop behaviour has its own obligation)")
    chk.out_of_claim("all 2^21 supplied subsets (bounded families); LAPACK's numerical rank threshold; tables with no modulus column")
    return chk.finish(
        "For each system x supplied set x flag setting the executor returns the accept / refuse paths of the real fill_cij with their "
        "path conditions over free table values; z3 shows each path's outcome agrees with the refusal condition stated with exact "
        "rank and exact residual, and on accepting paths that supplied values and relations move by at most sqrt(residual_atol).")


if __name__ == "__main__":
    run_main(main)
