"""C01 -- thermal c_ii, c_ij are strain derivatives of the QHA free energy.

The real nonshear.py classes are executed on symbolic arrays; every output polynomial is
compared by z3 with the mechanically differentiated free energy (oracles/free_energy.py)."""
from __future__ import annotations

import os
import random
import sys
import time

import numpy

from harness.common import Check, run_main, seed
from harness import phonon_common as PC
from symnum import sym as S, solver as Z, executor as X
from symnum.npproxy import NumpyProxy, patched
from symnum.sym import Sym, SymError, symvars, new_context

REPLAY_RTOL = 1e-6


def has_undef(s):
    ctx = S.current()
    return sorted(n for n in Z._closure_vars(s) if ctx.vars.get(n, {}).get("kind") == "undef")


def decide_identity(chk, name, code, oracle, replay, timeout_ms=30000):
    """One obligation: code == oracle for all values of the symbols (within the harness' bounds)."""
    code, oracle = Sym.of(code), Sym.of(oracle)
    und = has_undef(code)
    if und:
        chk.obligation(name, "sat", detail="undefined value (division by zero / NaN) reaches the output: %s" % und[:3])
        replay(name, None)
        return False
    t0 = time.time()
    if (code - oracle).is_zero():
        v, env = Z.prove_equal(code, oracle, name=name, timeout_ms=timeout_ms)
    else:
        # a structurally non-empty residual is usually a genuine discrepancy: look for a model cheaply (pinned search) before
        # spending the full budget on the entailment
        v, env = Z.prove_equal(code, oracle, name=name, timeout_ms=min(timeout_ms, 8000), retry=False)
        if v == "unknown":
            v, env = Z.find_model(code - oracle, name=name, timeout_ms=8000, rng=random.Random(seed()))
        if v == "unknown":
            v, env = Z.prove_equal(code, oracle, name=name, timeout_ms=timeout_ms)
    chk.obligation(name, v, seconds=round(time.time() - t0, 4),
                   detail=dict(code_terms=len(code.t), oracle_terms=len(oracle.t),
                               residual_terms=len((code - oracle).t)))
    if v == "unsat":
        return True
    if v == "sat":
        replay(name, env)
        return False
    chk.inconclusive(name, "solver returned unknown")
    return False


def divisor_obligations(chk, tag, timeout_ms=10000):
    ctx = S.current()
    n = 0
    for key, dsym in list(ctx.divisors.items()):
        clo = Z._closure_vars(dsym)
        if any(ctx.vars.get(v, {}).get("kind") == "undef" for v in clo):
            continue   # junk of the masked T=0 row / cleared Gamma slots; reported if it survives
        v, env = Z.prove_rel("!=", dsym, name="%s:divisor-nonzero" % tag, timeout_ms=timeout_ms)
        n += 1
        if v != "unsat":
            chk.obligation("%s:divisor-nonzero[%s]" % (tag, dsym.short(3)), v, kind="entailment")
            if v == "sat":
                chk.harness_error("a divisor met on the path is not entailed non-zero: %s" % dsym.short(4))
            else:
                chk.inconclusive("divisor", dsym.short(3))
            return
    chk.obligation("%s:all-%d-divisors-nonzero" % (tag, n), "unsat", kind="entailment",
                   detail="each distinct divisor met on the symbolic path is entailed != 0 by the assumptions")


def run_shape(chk, ns, nq, np_, nv, n_sym_T, acoustic_zero=True, tgrid="T0-first"):
    tag = "nq%d-np%d-nv%d-nT%d%s%s" % (nq, np_, nv, n_sym_T + 1, "" if acoustic_zero else "-acjunk", "" if tgrid == "T0-first" else "-" + tgrid)
    ctx = new_context()
    H, K, consts = PC.declare_constants(ctx)
    d = PC.make_duck(ctx, nq, np_, nv, n_sym_T=n_sym_T + (1 if tgrid == "no-T0" else 0), gamma_acoustic_zero=acoustic_zero,
                     with_T0=(tgrid != "no-T0"), t0_last=(tgrid == "T0-last"))
    ei = symvars("ei", (nv,), positive=True, lo=0, hi=1)
    ej = symvars("ej", (nv,), positive=True, lo=0, hi=1)

    def run():
        # the module's numpy is the proxy (arrays it allocates itself -- zeros, full, ... -- can hold symbols; a non-finite fill is a poisoned value)
        with patched((ns, {"numpy": NumpyProxy()})):
            L = ns.LongitudinalElasticModulusPhononContribution(d, (ei, ei))
            O = ns.OffDiagonalElasticModulusPhononContribution(d, (ei, ej))
            return dict(
                long_zp=L.zero_point_contribution, long_th=L.thermal_contribution, long_iso=L.value_isothermal,
                off_zp=O.zero_point_contribution, off_th=O.thermal_contribution, off_iso=O.value_isothermal)

    rng = random.Random(seed() * 7919 + nq * 100 + np_)
    reported = set()

    def replay(name, env):
        """Concretise and run the real classes with real numpy; compare with the oracle evaluated in floats."""
        comp = name.split(":")[1].split("[")[0]
        if comp in reported:
            return
        for attempt in range(6):
            point = PC.env_from_model(ctx, env if attempt == 0 else None, rng)
            c = PC.concretise_duck(d, point)
            fe_i = numpy.array([Sym.of(x).evalf(dict(point)) for x in ei])
            fe_j = numpy.array([Sym.of(x).evalf(dict(point)) for x in ej])
            try:
                with numpy.errstate(all="ignore"):
                    L = ns.LongitudinalElasticModulusPhononContribution(c, (fe_i, fe_i))
                    O = ns.OffDiagonalElasticModulusPhononContribution(c, (fe_i, fe_j))
                    real = dict(
                        long_zp=L.zero_point_contribution, long_th=L.thermal_contribution, long_iso=L.value_isothermal,
                        off_zp=O.zero_point_contribution, off_th=O.thermal_contribution, off_iso=O.value_isothermal)
            except Exception as e:
                chk.violation("%s:raises" % comp, "real class raises %s: %s" % (type(e).__name__, e),
                              dict(shape=tag, point=point, obligation=name))
                reported.add(comp)
                return
            worst = None
            for k, arr in real.items():
                if k != comp:
                    continue
                exp = expected[k]
                arr = numpy.asarray(arr, dtype=float)
                for idx in numpy.ndindex(*exp.shape):
                    want = Sym.of(exp[idx]).evalf(dict(point))
                    got = float(arr[idx])
                    rd = PC.rel_diff(got, want, floor=1e-300)
                    if rd > REPLAY_RTOL and (worst is None or rd > worst[0]):
                        worst = (rd, k, idx, got, want)
            if worst:
                rd, k, idx, got, want = worst
                chk.violation("%s:deviates" % k,
                              "%s[%s] of the real class = %.12g but the free-energy derivative gives %.12g (rel %.3g)"
                              % (k, idx, got, want, rd),
                              dict(shape=tag, point=point, obligation=name, component=k, index=list(idx),
                                   got=got, want=want))
                reported.add(comp)
                return
        chk.harness_error("counterexample for %s did not reproduce on the real code (encoding suspect)" % name)

    t0 = time.time()

    def concrete_raise_check(e):
        # the analysed code raised on symbolic input: check whether the real code does as well
        chk.note("symbolic run raised %s: %s" % (type(e).__name__, e))
        point = PC.random_env(ctx, rng)
        c = PC.concretise_duck(d, point)
        try:
            fe_i = numpy.array([Sym.of(x).evalf(dict(point)) for x in ei])
            L = ns.LongitudinalElasticModulusPhononContribution(c, (fe_i, fe_i))
            L.value_isothermal
            chk.harness_error("symbolic run raised %r but the concrete run did not" % (e,))
        except Exception as e2:
            chk.violation("raises", "real class raises %s: %s" % (type(e2).__name__, e2), dict(shape=tag, point=point))

    expected = {}

    def judge(res, tag, sym_seconds):
        nonlocal expected

        # ---- oracle --------------------------------------------------------------------
        t0 = time.time()
        nt = d.nt
        expected = {k: numpy.empty((nv,) if k.endswith("zp") else (nt, nv), dtype=object) for k in res}
        for iv in range(nv):
            zsum = PC.oracle_sums(d, H, K, iv, None)
            e_i, e_j = ei[iv], ej[iv]
            expected["long_zp"][iv] = zsum["A_zp"] / (5 * e_i * e_i) + zsum["P_zp"] / (3 * e_i)
            expected["off_zp"][iv] = zsum["A_zp"] / (15 * e_i * e_j)
            for it in range(nt):
                t = d.t_array[it]
                if Sym.of(t).is_zero():
                    lt = Sym({})
                    ot = Sym({})
                else:
                    tsum = PC.oracle_sums(d, H, K, iv, t)
                    lt = tsum["A_th"] / (5 * e_i * e_i) + tsum["P_th"] / (3 * e_i)
                    ot = tsum["A_th"] / (15 * e_i * e_j)
                expected["long_th"][it, iv] = lt
                expected["off_th"][it, iv] = ot
                expected["long_iso"][it, iv] = expected["long_zp"][iv] + lt
                expected["off_iso"][it, iv] = expected["off_zp"][iv] + ot + d.pressures[it, iv] - d.static_p_array[iv]
        oracle_seconds = time.time() - t0
        chk.note("%s: symbolic run %.2fs, oracle %.2fs, float constants read exactly: %d, named-constant max dev %.2g"
                 % (tag, sym_seconds, oracle_seconds, ctx.float_exact, ctx.fold_max_dev))

        # ---- obligations ------------------------------------------------------------------
        for k in ("long_zp", "off_zp", "long_th", "off_th", "long_iso", "off_iso"):
            got = numpy.asarray(res[k], dtype=object)
            if got.shape != expected[k].shape:
                chk.obligation("%s:%s:shape" % (tag, k), "sat", detail="shape %s != %s" % (got.shape, expected[k].shape))
                replay("%s:%s[shape]" % (tag, k), None)
                continue
            for idx in numpy.ndindex(*expected[k].shape):
                decide_identity(chk, "%s:%s[%s]" % (tag, k, ",".join(map(str, idx))), got[idx], expected[k][idx], replay)
        divisor_obligations(chk, tag)

        # ---- vacuity witnesses ----------------------------------------------------------------
        it_w = max(i for i in range(nt) if not Sym.of(d.t_array[i]).is_zero())
        w = Z.witness([("!=", expected["long_th"][it_w, 0]), ("!=", expected["off_zp"][0])],
                          name=tag + ":witness", timeout_ms=20000, rng=rng)
        chk.witness(tag + ":assumptions-satisfiable-and-oracle-nonzero", w[0])
        chk.sample(dict(shape=tag, obligation="long_zp[0] == A_zp/(5 e^2) + P_zp/(3 e)",
                        code=Sym.of(res["long_zp"][0]).short(3), oracle=Sym.of(expected["long_zp"][0]).short(3)))

        # ---- stage R(b): encoding validation at a concrete point ---------------------------------
        point = PC.random_env(ctx, rng)
        c = PC.concretise_duck(d, point)
        fe_i = numpy.array([Sym.of(x).evalf(dict(point)) for x in ei])
        fe_j = numpy.array([Sym.of(x).evalf(dict(point)) for x in ej])
        with numpy.errstate(all="ignore"):
            try:
                L = ns.LongitudinalElasticModulusPhononContribution(c, (fe_i, fe_i))
                O = ns.OffDiagonalElasticModulusPhononContribution(c, (fe_i, fe_j))
                real = dict(long_iso=L.value_isothermal, off_iso=O.value_isothermal)
                worst = 0.0
                for k, arr in real.items():
                    for idx in numpy.ndindex(*arr.shape):
                        s = Sym.of(res[k][idx])
                        if has_undef(s):
                            continue
                        worst = max(worst, PC.rel_diff(float(arr[idx]), s.evalf(dict(point)), floor=1e-6 * float(numpy.abs(numpy.nan_to_num(arr)).max()) + 1e-300))
                chk.validation_points += 1
                if worst > 1e-7:
                    chk.harness_error("symbolic result does not reproduce the real float run (rel %.3g) at %s" % (worst, tag))
            except Exception as e:
                chk.note("validation run raised %r" % (e,))
        # corner points of the stated ranges (lowest temperatures, highest frequencies): the real float run must stay finite
        # and agree with the symbolic result evaluated there (IEEE hazards proper are C12's subject; this is the encoding
        # validation of stage R(b) taken at the corners)
        if tgrid == "T0-first" and acoustic_zero and nq == 2:
            for Tc, wc in ((0.5, 1500.0), (2.0, 1500.0), (3000.0, 30.0)):
                pt = dict(point)
                for nme in ctx.vars:
                    if nme.startswith("T") and nme[1:].isdigit():
                        pt[nme] = Tc
                    if nme.startswith("w_"):
                        pt[nme] = wc * (0.9 + 0.1 * (hash(nme) % 7) / 7.0)
                for nme in [n_ for n_ in pt if n_.startswith(("exp!", "inv!", "pexp!"))]:
                    pt.pop(nme)
                c = PC.concretise_duck(d, pt)
                with numpy.errstate(all="ignore"):
                    try:
                        L = ns.LongitudinalElasticModulusPhononContribution(c, (fe_i, fe_i))
                        arr = numpy.asarray(L.value_isothermal, dtype=float)
                    except Exception as e:
                        chk.violation("corner:raises", "real class raises %s at T=%g K, omega~%g cm^-1" % (type(e).__name__, Tc, wc), dict(T=Tc, omega=wc))
                        break
                bad = None
                for idx in numpy.ndindex(*arr.shape):
                    want = Sym.of(res["long_iso"][idx]).evalf(dict(pt))
                    if want == want and abs(want) != float("inf") and not (PC.rel_diff(float(arr[idx]), want, floor=1e-6 * abs(want) + 1e-300) < 1e-6):
                        bad = (idx, float(arr[idx]), want)
                chk.validation_points += 1
                if bad:
                    chk.violation("corner:T=%g" % Tc, "at T=%g K, omega~%g cm^-1 the isothermal value of the real class is %r but the free-energy "
                                  "derivative gives %.6g" % (Tc, wc, bad[1], bad[2]), dict(T=Tc, omega=wc, index=list(bad[0])))
                    break


    try:
        paths = X.explore(run, name="C01:" + tag, max_paths=16, generic=True)
    except SymError as e:
        chk.harness_error("symbolic run failed: %s" % e)
        return
    sym_seconds = time.time() - t0
    for pi, p in enumerate(paths):
        if chk.violations:
            break       # one replayed violation is enough; the remaining paths would only repeat it
        with X.path_assumptions(p):
            if p.exception is not None:
                concrete_raise_check(p.exception)
                continue
            judge(p.result, tag if len(paths) == 1 else "%s@path%d" % (tag, pi), sym_seconds)


def constants_side_check(chk, ns):
    """Concrete side check (not a solver result): module constants vs. an independent CODATA route."""
    from cij.util import units
    Hv, Kv, HKv = PC.codata_constants()
    h = units.Quantity(ns._h, units.J * units.m).to(units.rydberg * units.cm).magnitude
    k = units.Quantity(ns._k, units.eV / units.K).to(units.rydberg / units.K).magnitude
    chk.side_check("h (Ry cm) vs CODATA", abs(h / Hv - 1) < 1e-8, dict(code=h, codata=Hv))
    chk.side_check("k (Ry/K) vs CODATA", abs(k / Kv - 1) < 1e-8, dict(code=k, codata=Kv))
    chk.side_check("h_div_k (cm K) vs CODATA", abs(ns.h_div_k / HKv - 1) < 1e-8, dict(code=ns.h_div_k, codata=HKv))
    chk.side_check("h_div_k * k == h", abs(ns.h_div_k * k / h - 1) < 1e-12, None)


def main():
    tier = os.environ.get("VERIF_TIER", "quick")
    if len(sys.argv) > 1:
        tier = sys.argv[1]
    chk = Check("C01", tier, "symbolic execution of the real nonshear.py classes on Sym arrays + z3 (QF_NRA) "
                             "identity queries against a sympy-differentiated free energy")
    import cij.core.phonon_contribution.nonshear as ns
    chk.encode(ns.LongitudinalElasticModulusPhononContribution, ns.OffDiagonalElasticModulusPhononContribution,
               ns.average_over_modes, ns.clear_gamma_point)
    Z.reset_log()
    if tier == "quick":
        # last shape: arbitrary finite data in the three Gamma acoustic slots (they must be excluded by position, whatever they hold)
        shapes = [(2, 6, 2, 1, True), (3, 6, 2, 1, True), (2, 3, 2, 1, False),
                  (1, 6, 2, 1, True), (2, 6, 1, 1, True)]      # ends of the quantifier: a Gamma-only mesh, a single volume
    else:
        shapes = [(1, 6, 2, 1, True), (2, 3, 2, 1, True), (2, 6, 2, 1, True), (3, 6, 3, 2, True),
                  (4, 12, 3, 2, True), (2, 6, 2, 1, False), (8, 3, 2, 1, True), (2, 6, 1, 1, True), (1, 30, 2, 1, True)]
    for nq, np_, nv, nT, acz in shapes:
        run_shape(chk, ns, nq, np_, nv, nT, acoustic_zero=acz)
    # temperature grids that do not start at T=0 / where the T=0 row is not the first (masking is by value, not position)
    run_shape(chk, ns, 2, 3, 2, 1, tgrid="no-T0")
    run_shape(chk, ns, 2, 3, 2, 1, tgrid="T0-last")
    constants_side_check(chk, ns)
    chk.bound(shapes=[dict(nq=a, np=b, nv=c, nT=dd + 1, acoustic_slots_zero=e) for a, b, c, dd, e in shapes],
              solver_timeout_ms=30000, paths_per_run=1)
    chk.stub("none (numpy runs for real on dtype=object arrays); physical constants h, k, h/k read as symbols "
             "H, K when within 1e-8 of the independent CODATA value")
    chk.assume("frequencies, volumes, weights, symbolic temperatures, strain fractions > 0")
    chk.assume("Bose atom u = exp(Q)-1 is a free positive real (more general than the true exp)")
    chk.assume("T grid = {0 (concrete), symbolic T>0}; Gamma acoustic slots hold exact zeros as interpolate_modes leaves them"
               " (thorough: one shape with arbitrary symbolic junk in those slots)")
    chk.out_of_claim("IEEE rounding of the float evaluation; array sizes beyond the listed shapes")
    return chk.finish(
        "Each obligation is a z3 query 'code polynomial != oracle polynomial' over all symbolic inputs of one grid "
        "point; unsat = identity holds for all real inputs of that shape. sat models are concretised and replayed "
        "through the real classes with real numpy before a VIOLATION is printed.")


if __name__ == "__main__":
    run_main(main)
