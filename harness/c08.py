"""C08 -- symmetry relations equal the Laue-class invariants; fill returns the invariant."""
from __future__ import annotations

import os
import random
import sys
import time
import warnings

import numpy
import pandas

from harness.common import Check, run_main, seed
from harness import fill_common as FC
from symnum import sym as S, solver as Z, executor as X
from symnum.sym import Sym, SymError, new_context
from symnum.npproxy import NumpyProxy, patched


def numeric_invariance_defect(system, tensor):
    """max |R.R.R.R C - C| over the generators, in floats (independent numpy evaluation for replay)."""
    C = numpy.zeros((3, 3, 3, 3))
    for i in range(3):
        for j in range(3):
            for k in range(3):
                for l in range(3):
                    C[i, j, k, l] = tensor[FC.key_of(i + 1, j + 1, k + 1, l + 1)]
    worst = 0.0
    for R in FC.laue_generators(system):
        Rf = numpy.array(R.evalf(), dtype=float)
        Cr = numpy.einsum("ip,jq,kr,ls,pqrs->ijkl", Rf, Rf, Rf, Rf, C)
        worst = max(worst, float(numpy.abs(Cr - C).max()))
    return worst


def real_fill(F, tensor, keys, system, **kw):
    df = pandas.DataFrame({"V": [100.0], **{k: [float(tensor[k])] for k in keys}})
    with warnings.catch_warnings():
        warnings.simplefilter("ignore")
        return F.fill_cij(df, system, **kw)


def subspace_obligations(chk, F, system, tier):
    ctx = new_context()
    cv = FC.tensor_vars(ctx)
    try:
        rows = FC.capture_relations(F, system)
    except Exception as e:
        # the capture runs the real code on a concrete probe: an exception here is the real code's
        chk.violation("%s:relations-unreadable" % system, "fill_cij(one-row table with c11, %r, both ignore flags) raises %s: %s"
                      % (system, type(e).__name__, e), dict(system=system))
        return None
    rel = FC.relation_forms(rows, cv)
    inv = FC.invariance_equations(system, cv)
    t0 = time.time()
    bad = None
    for n, E in enumerate(inv):
        v, env = Z.prove_zero(E, name="%s:relations=>invariant[%d]" % (system, n), extra=[("==", r) for r in rel],
                              use_assumptions=False, timeout_ms=10000)
        if v != "unsat":
            bad = (v, env, E)
            break
    chk.obligation("%s:relations=>Laue-invariant[%d equations]" % (system, len(inv)), "unsat" if bad is None else bad[0],
                   seconds=round(time.time() - t0, 3), logic="QF_NRA(linear in C, rt3)", kind="inclusion")
    if bad is not None:
        v, env, E = bad
        if v == "sat":
            tensor = {k: env.get(k, 0.0) for k in FC.KEYS}
            defect = numeric_invariance_defect(system, tensor)
            scale = max(1.0, max(abs(x) for x in tensor.values()))
            try:
                out = real_fill(F, tensor, FC.KEYS, system)
                accepted = all(abs(float(out[c].iloc[0]) - tensor[c]) < 1e-9 * scale for c in out.columns if c in tensor)
            except Warning:
                accepted = False
            if accepted and defect > 1e-9 * scale:
                chk.violation("%s:relations-admit-non-invariant" % system,
                              "a tensor that fill_cij(%s) accepts unchanged is not invariant under the Laue rotations (defect %.3g)"
                              % (system, defect), dict(system=system, tensor=tensor))
            else:
                chk.harness_error("%s: non-invariant model did not reproduce (accepted=%s defect=%.3g)" % (system, accepted, defect))
        else:
            chk.inconclusive(system, "relations=>invariant unknown")
    t0 = time.time()
    bad = None
    for n, r in enumerate(rel):
        v, env = Z.prove_zero(r, name="%s:invariant=>relations[%d]" % (system, n), extra=[("==", E) for E in inv],
                              use_assumptions=False, timeout_ms=10000)
        if v != "unsat":
            bad = (v, env, r)
            break
    chk.obligation("%s:Laue-invariant=>relations[%d relations]" % (system, len(rel)), "unsat" if bad is None else bad[0],
                   seconds=round(time.time() - t0, 3), logic="QF_NRA(linear in C, rt3)", kind="inclusion")
    if bad is not None:
        v, env, r = bad
        if v == "sat":
            tensor = {k: env.get(k, 0.0) for k in FC.KEYS}
            defect = numeric_invariance_defect(system, tensor)
            scale = max(1.0, max(abs(x) for x in tensor.values()))
            try:
                out = real_fill(F, tensor, FC.KEYS, system, residual_atol=1e-12 * scale * scale)
                moved = max(abs(float(out[c].iloc[0]) - tensor[c]) for c in out.columns if c in tensor)
                rejected = moved > 1e-7 * scale or any(k not in out.columns and abs(tensor[k]) > 1e-6 * scale for k in FC.KEYS)
            except Warning:
                rejected = True
            if rejected and defect < 1e-9 * scale:
                chk.violation("%s:relations-exclude-invariant" % system,
                              "a Laue-invariant tensor is rejected / altered by fill_cij(%s)" % system,
                              dict(system=system, tensor=tensor))
            else:
                chk.harness_error("%s: invariant model did not reproduce (rejected=%s defect=%.3g)" % (system, rejected, defect))
        else:
            chk.inconclusive(system, "invariant=>relations unknown")
    # vacuity witness: the relations are satisfiable with a non-zero tensor
    w, _ = Z.satisfiable([("==", r) for r in rel] + [("!=", cv["c11"])], name=system + ":witness", use_assumptions=False)
    chk.witness(system + ":relations-satisfiable-nonzero", w)
    dim = len(FC.invariant_basis(rows))
    chk.side_check("%s: dimension of the relation subspace" % system, dim == FC.EXPECTED_DIM[system],
                   dict(dim=dim, expected=FC.EXPECTED_DIM[system]))
    return rows


def supplied_families(rows, basis, rng, tier):
    nonzero = [k for k in FC.KEYS if any(b[k] for b in basis)]
    canon = []
    for k in FC.KEYS:
        if k in nonzero and not FC.sufficient(rows, canon):
            trial = canon + [k]
            # keep k only if it adds information
            import sympy
            m = [list(r) for r in rows] + [[int(kk == c) for kk in FC.KEYS] for c in canon]
            r0 = sympy.Matrix(m).rank() if m else 0
            r1 = sympy.Matrix(m + [[int(kk == k) for kk in FC.KEYS]]).rank()
            if r1 > r0:
                canon = trial
    # "again": the same supplied set a second time in the same process with its columns in another order (a result that depends on
    # an earlier call -- e.g. a cached design matrix -- fails it)
    fams = [("canonical", canon, 3), ("canonical again, other column order, same process", canon, 3), ("full-nonzero", nonzero, 1),
            ("canonical,one-parameter-zero-at-one-volume", canon, 3),
            # the caller's frame carries row labels of its own (sorted by volume, a filtered subset, V as the index ...)
            ("canonical, frame with row labels [7, 3, 5]", canon, 3)]
    exch = []
    for k in canon:
        for k2 in nonzero:
            if k2 in canon:
                continue
            s2 = [x for x in canon if x != k] + [k2]
            if FC.sufficient(rows, s2):
                exch.append(("exchange-%s-for-%s" % (k, k2), s2, 1))
    rng.shuffle(exch)
    fams += exch[: (3 if tier == "quick" else 12)]
    if tier != "quick":
        tries = 0
        extra = 0
        while extra < 6 and tries < 60:
            tries += 1
            sub = [k for k in nonzero if rng.random() < 0.6]
            if sub and FC.sufficient(rows, sub) and sorted(sub) != sorted(nonzero):
                fams.append(("random-%d" % extra, sub, 2))
                extra += 1
    return fams


def fill_obligations(chk, F, system, rows, tier, rng):
    basis = FC.invariant_basis(rows)
    last_order = []
    for fam, supplied, nrows in supplied_families(rows, basis, rng, tier):
        name = "%s:fill[%s,%d rows]" % (system, fam, nrows)
        ctx = new_context()
        zero_at = (len(basis) - 1, 1) if "zero-at-one-volume" in fam else None
        t_rows = FC.symbolic_invariant(ctx, basis, nrows, zero_at=zero_at)
        spell = {k: k.upper() for i, k in enumerate(supplied) if i % 3 == 1}
        order = list(supplied)
        rng.shuffle(order)
        if "again" in fam and len(order) > 1:
            order = list(last_order[1:]) + list(last_order[:1]) if sorted(last_order) == sorted(order) else order
            HISTORY[:] = [list(last_order)]      # concrete replays repeat the history: the earlier order first
        else:
            HISTORY[:] = []
        last_order = list(order)
        df = FC.make_table(t_rows, order, spell=spell)
        ROW_LABELS[:] = [7, 3, 5][:nrows] if "row labels" in fam else []
        if ROW_LABELS:
            df.index = list(ROW_LABELS)
        ex = X.Explorer(max_paths=64, name=name)
        ex.prefer = FC.no_drop_cut
        t0 = time.time()
        try:
            paths, proxy, ex = FC.run_fill(F, df, system, explorer=ex)
        except (SymError, X.PathBudgetExceeded) as e:
            # the symbolic exploration did not finish (the code took comparisons the cut does not cover): look at the real code
            # on concrete members of the family before calling it inconclusive
            nv0 = len(chk.violations)
            replay_fill(chk, F, system, basis, order, spell, nrows, rng, name, "exploration stopped: %s" % e, zero_at=zero_at, quiet=True)
            if len(chk.violations) == nv0:
                chk.inconclusive(name, str(e))
            continue
        ok = True
        detail = dict(supplied=order, paths=len(paths), cuts=len(ex.cuts))
        for p in paths:
            if p.exception is not None:
                ok = False
                replay_fill(chk, F, system, basis, order, spell, nrows, rng, name,
                            "fill raises %s: %s on a symmetry-consistent sufficient table" % (type(p.exception).__name__, p.exception), zero_at=zero_at)
                break
            out = p.result
            cols = {c.lower(): c for c in out.columns}
            if len(cols) != len(out.columns):
                ok = False
                replay_fill(chk, F, system, basis, order, spell, nrows, rng, name, "duplicate columns differing only in letter case", zero_at=zero_at)
                break
            if "v" not in cols or not numpy.array_equal(numpy.asarray(out[cols["v"]], dtype=float), numpy.asarray(df["V"], dtype=float)):
                ok = False
                replay_fill(chk, F, system, basis, order, spell, nrows, rng, name, "the non-modulus column V is altered", zero_at=zero_at)
                break
            for k in FC.KEYS:
                want = [t_rows[r][k] for r in range(nrows)]
                ident_zero = all(w.is_zero() for w in want)
                if k in cols:
                    got = [Sym.of(x) for x in out[cols[k]].tolist()]
                    if ident_zero:
                        ok = False
                        replay_fill(chk, F, system, basis, order, spell, nrows, rng, name,
                                    "vanishing component %s is not omitted" % k, zero_at=zero_at)
                        break
                    for r in range(nrows):
                        v, env = Z.prove_equal(got[r], want[r], name=name + ":" + k, use_assumptions=True, timeout_ms=10000)
                        if v != "unsat":
                            ok = False
                            replay_fill(chk, F, system, basis, order, spell, nrows, rng, name,
                                        "component %s of the filled table differs from the invariant tensor" % k, env=env, zero_at=zero_at)
                            break
                    if not ok:
                        break
                    if k in supplied and cols[k] != spell.get(k, k):
                        ok = False
                        replay_fill(chk, F, system, basis, order, spell, nrows, rng, name, "supplied column %s renamed" % k, zero_at=zero_at)
                        break
                elif not ident_zero:
                    ok = False
                    replay_fill(chk, F, system, basis, order, spell, nrows, rng, name,
                                "non-vanishing component %s is missing from the filled table" % k, zero_at=zero_at)
                    break
            if not ok:
                break
        chk.obligation(name, "unsat" if ok else "sat", seconds=round(time.time() - t0, 3), kind="fill-identity",
                       logic="QF_LRA", detail=detail)
        if fam == "canonical":
            chk.sample(dict(system=system, supplied=order, nrows=nrows,
                            filled={k: Sym.of(paths[0].result[{c.lower(): c for c in paths[0].result.columns}[k]].iloc[0]).short(3)
                                    for k in FC.KEYS if paths and paths[0].result is not None
                                    and k in {c.lower() for c in paths[0].result.columns}} if ok else None))


HISTORY = []
ROW_LABELS = []


def replay_fill(chk, F, system, basis, order, spell, nrows, rng, name, what, env=None, zero_at=None, quiet=False):
    """Concrete replay: a random (or model) invariant tensor, real numpy, real fill_cij (after the calls listed in HISTORY), on a fresh
    instance of the module so that only the replayed call sequence determines the outcome."""
    from harness.common import fresh_copy
    F = fresh_copy(F)
    for attempt in range(4):
        coeffs = [[rng.uniform(50, 400) * rng.choice((1, 1, -0.3)) for _ in basis] for _ in range(nrows)]
        if env and attempt == 0:
            coeffs = [[env.get("p%d_%d" % (k, r), coeffs[r][k]) for k in range(len(basis))] for r in range(nrows)]
        if zero_at is not None:
            coeffs[zero_at[1]][zero_at[0]] = 0.0
        t = [{k: sum(c * float(b[k]) for c, b in zip(coeffs[r], basis)) for k in FC.KEYS} for r in range(nrows)]
        data = {"V": [float(100 - 5 * i) for i in range(nrows)]}
        for k in order:
            data[spell.get(k, k)] = [t[r][k] for r in range(nrows)]
        df = pandas.DataFrame(data)
        if ROW_LABELS:
            df.index = list(ROW_LABELS)
        try:
            with warnings.catch_warnings():
                warnings.simplefilter("ignore")
                for earlier in HISTORY:
                    F.fill_cij(pandas.DataFrame(dict([("V", data["V"])] + [(spell.get(k, k), [t[r][k] for r in range(nrows)]) for k in earlier])), system)
                out = F.fill_cij(df.copy(), system)
        except BaseException as e:
            if isinstance(e, (KeyboardInterrupt, SystemExit)):
                raise
            chk.violation("%s:fill-raises" % system, "fill_cij(%s) raises %s: %s on a consistent sufficient table (supplied %s)"
                          % (system, type(e).__name__, e, order), dict(system=system, table=data))
            return
        cols = {c.lower(): c for c in out.columns}
        if len(cols) != len(out.columns):
            chk.violation("%s:fill-duplicates-column" % system,
                          "fill_cij(%s) returns columns that differ only in letter case: %s" % (system, list(out.columns)),
                          dict(system=system, table=data))
            return
        scale = max(abs(x) for r in t for x in r.values())
        for k in FC.KEYS:
            vals = [t[r][k] for r in range(nrows)]
            if k in cols:
                got = [float(x) for x in out[cols[k]].tolist()]
                if not max(abs(g - w) for g, w in zip(got, vals)) <= 1e-7 * scale:
                    chk.violation("%s:fill-deviates:%s" % (system, k),
                                  "fill_cij(%s): component %s = %s but the invariant tensor has %s (supplied %s)"
                                  % (system, k, got, vals, order), dict(system=system, table=data, component=k))
                    return
                if all(b[k] == 0 for b in basis):
                    chk.violation("%s:fill-keeps-vanishing:%s" % (system, k), "fill_cij(%s) keeps the vanishing component %s" % (system, k),
                                  dict(system=system, table=data))
                    return
            elif max(abs(v) for v in vals) > 1e-6 * scale:
                chk.violation("%s:fill-drops:%s" % (system, k), "fill_cij(%s) omits the non-vanishing component %s" % (system, k),
                              dict(system=system, table=data))
                return
        if list(out[cols["v"]]) != data["V"]:
            chk.violation("%s:fill-alters-V" % system, "fill_cij(%s) alters the V column" % system, dict(system=system, table=data))
            return
        for k in order:
            if spell.get(k, k) not in out.columns:
                chk.violation("%s:fill-renames" % system, "fill_cij(%s) renames supplied column %s" % (system, spell.get(k, k)),
                              dict(system=system, table=data))
                return
    if not quiet:
        chk.harness_error("%s: '%s' did not reproduce on the real code" % (name, what))


def elast_data_obligation(chk, F, system, rows, rng):
    """apply_symetry_on_elast_data on an ElastData built from the same symbols returns the same tensor under canonical keys."""
    import cij.io.traditional.elast_dat as ed
    from cij.util import c_
    basis = FC.invariant_basis(rows)
    ctx = new_context()
    nrows = 2
    t_rows = FC.symbolic_invariant(ctx, basis, nrows)
    fams = supplied_families(rows, basis, random.Random(1), "quick")
    supplied = fams[0][1]
    data = ed.ElastData(100.0, nrows, 50.0, [
        ed.ElastVolumeData(100.0 - 5 * r, dict((c_(k[1:]), t_rows[r][k]) for k in supplied)) for r in range(nrows)], [])
    name = "%s:apply_symetry_on_elast_data" % system
    ex = X.Explorer(max_paths=8, name=name)
    ex.prefer = FC.no_drop_cut
    ex.generic_eq = True
    proxy = NumpyProxy()

    def fn():
        import copy
        d = ed.ElastData(data.vref, data.nv, data.cellmass, list(data.volumes), [])
        with patched((F, {"numpy": proxy})):
            ed.apply_symetry_on_elast_data(d, {"system": system})
        return d

    t0 = time.time()
    try:
        paths = ex.run(fn)
    except (SymError, X.PathBudgetExceeded) as e:
        chk.inconclusive(name, str(e))
        return
    ok = True
    why = None
    for p in paths:
        if p.exception is not None:
            ok, why = False, "raises %s: %s" % (type(p.exception).__name__, p.exception)
            break
        d = p.result
        for r in range(nrows):
            mod = d.volumes[r].static_elastic_modulus
            for k in FC.KEYS:
                key = c_(k[1:])
                want = t_rows[r][k]
                if key in mod:
                    v, _ = Z.prove_equal(Sym.of(mod[key]), want, name=name + ":" + k, timeout_ms=10000)
                    if v != "unsat":
                        ok, why = False, "component %s differs" % k
                elif not want.is_zero():
                    ok, why = False, "component %s missing" % k
            if set(mod) - {c_(k[1:]) for k in FC.KEYS}:
                ok, why = False, "non-canonical keys %s" % (set(mod) - {c_(k[1:]) for k in FC.KEYS})
    chk.obligation(name, "unsat" if ok else "sat", seconds=round(time.time() - t0, 3), kind="fill-identity", logic="QF_LRA")
    if not ok:
        # concrete replay
        coeffs = [[rng.uniform(50, 400) for _ in basis] for _ in range(nrows)]
        t = [{k: sum(c * float(b[k]) for c, b in zip(coeffs[r], basis)) for k in FC.KEYS} for r in range(nrows)]
        d = ed.ElastData(100.0, nrows, 50.0, [ed.ElastVolumeData(100.0 - 5 * r, dict((c_(k[1:]), t[r][k]) for k in supplied))
                                               for r in range(nrows)], [])
        try:
            with warnings.catch_warnings():
                warnings.simplefilter("ignore")
                ed.apply_symetry_on_elast_data(d, {"system": system})
            bad = [k for k in FC.KEYS if abs(d.volumes[0].static_elastic_modulus.get(c_(k[1:]), 0.0) - t[0][k]) > 1e-7 * 400]
            if bad:
                chk.violation("%s:apply-symmetry-deviates" % system, "apply_symetry_on_elast_data(%s): %s wrong (%s)" % (system, bad[:3], why),
                              dict(system=system, supplied=supplied))
            else:
                chk.harness_error("%s: %s did not reproduce concretely" % (name, why))
        except BaseException as e:
            if isinstance(e, (KeyboardInterrupt, SystemExit)):
                raise
            chk.violation("%s:apply-symmetry-raises" % system, "apply_symetry_on_elast_data(%s) raises %s: %s" % (system, type(e).__name__, e),
                          dict(system=system, supplied=supplied))


def main():
    tier = os.environ.get("VERIF_TIER", "quick")
    if len(sys.argv) > 1:
        tier = sys.argv[1]
    chk = Check("C08", tier, "relations captured from the real fill_cij at the lstsq boundary vs Laue-invariance equations: "
                             "two subspace inclusions per system decided by z3 (linear real arithmetic with rt3); real fill_cij "
                             "executed on symbolic tables with an exact least-squares stub")
    import cij.util.fill as F
    import cij.io.traditional.elast_dat as ed
    chk.encode(F.fill_cij, ed.apply_symetry_on_elast_data)
    Z.reset_log()
    rng = random.Random(seed() + 8)
    for system in FC.SYSTEMS:
        rows = subspace_obligations(chk, F, system, tier)
        if rows is None:
            continue
        fill_obligations(chk, F, system, rows, tier, rng)
        if system != "triclinic":
            elast_data_obligation(chk, F, system, rows, rng)
    chk.bound(systems=FC.SYSTEMS, rows=[1, 2, 3], supplied_sets_per_system="canonical, full non-zero, %s single-key exchanges%s"
              % ("3" if tier == "quick" else "12", "" if tier == "quick" else ", 6 seeded random sufficient sets"),
              paths_per_fill=8)
    chk.stub("numpy.linalg.lstsq -> exact least-squares specification (exact pseudo-inverse, exact rank, residual sums)")
    chk.stub("numpy.allclose -> solver-decided |a-b| <= atol + rtol|b|")
    chk.assume("cut: for not-identically-zero symbolic columns only the 'not dropped' side of the drop test is explored")
    chk.out_of_claim("LAPACK's numerical rank decision (replaced by exact rank); supplied sets other than the listed families")
    return chk.finish(
        "Per system: z3 shows relations |= every Laue-invariance equation and invariance |= every relation (21 unknowns, exact "
        "coefficients in Q(sqrt 3)); then the real fill_cij is executed on symbolic invariant tables and every output column is "
        "shown equal to the invariant tensor's component, vanishing components omitted.")


if __name__ == "__main__":
    run_main(main)
