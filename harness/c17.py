"""C17 -- input files round-trip (the symbolically executable fragment).

The real readers run on files whose numeric fields are opaque *tokens*: the module-global name `float` of the reader
modules is rebound to a function that turns a token into a fresh symbol (and anything else into the real float), so the
readers' own line / column / count logic is executed for all numeric contents at once.  The data objects that come back
hold symbols; z3 equality with the symbol that was written at that place shows that no reader shifts by a line, drops a
q-point, mis-keys a column or mixes volumes.  The writer is executed on symbolic P, V, E and frequencies (f-string
formatting of a symbol prints its token), its text is read back by the real reader."""
from __future__ import annotations

import builtins
import os
import random
import sys
import tempfile
import time

import numpy

from harness.common import Check, run_main, seed
from symnum import sym as S, solver as Z, executor as X
from symnum.sym import Sym, SymError, new_context
from symnum.npproxy import patched


class Tokens:
    def __init__(self, ctx):
        self.ctx = ctx
        self.names = {}

    def new(self, name):
        self.names[name] = self.ctx.var(name)
        return name

    def float(self, s):
        if isinstance(s, str) and s.strip() in self.names:
            return self.names[s.strip()]
        return builtins.float(s)


def same(a, b, name):
    if isinstance(a, Sym) or isinstance(b, Sym):
        return Z.prove_equal(Sym.of(a), Sym.of(b), name=name, timeout_ms=5000)[0] == "unsat"
    return a == b


def static_table(chk, ed, tier, rng):
    from cij.util import c_
    # (rows, component columns, lattice block, label of the volume column -- it is only a label, whatever it is called)
    shapes = [(3, ["c11", "C12", "c_44", "C_1123"], True, "V"), (2, ["C44", "c11"], False, "V_bohr3"), (2, ["c11", "c12"], False, "V0")]
    if tier != "quick":
        shapes += [(4, ["c11", "c22", "c33", "c12", "c13", "c23", "c44", "c55", "c66", "c15", "c25", "c35", "c46"], True, "Volume"), (1, ["c11"], False, "V(bohr^3)")]
    for nv, cols, lattice, vlabel in shapes:
        name = "read_elast_data[nv=%d, columns=%s %s, lattice block=%s]" % (nv, vlabel, cols, lattice)
        ctx = new_context()
        tk = Tokens(ctx)
        lines = ["comment line with words 1 2 3", "%s %d %s" % (tk.new("tVref"), nv, tk.new("tMass")), vlabel + " " + " ".join(cols)]
        vol = [tk.new("tV%d" % i) for i in range(nv)]
        tab = [[tk.new("t_%d_%d" % (i, j)) for j in range(len(cols))] for i in range(nv)]
        for i in range(nv):
            lines.append(" ".join([vol[i]] + tab[i]))
        lat = []
        if lattice:
            lines.append("lattice parameters")
            lat = [[tk.new("tL_%d_%d" % (i, a)) for a in range(3)] for i in range(nv)]
            for i in range(nv):
                lines.append("   ".join(lat[i]))
        # one path for all shapes: a reader answering from an earlier parse of the same path fails the next shape
        fn = os.path.join(tempfile.gettempdir(), "c17_static_%d.dat" % os.getpid())
        with open(fn, "w") as fp:
            fp.write("\n".join(lines) + "\n")
        t0 = time.time()
        try:
            with patched((ed, {"float": tk.float})):
                data = X.run_single_path(lambda: ed.read_elast_data(fn), name=name)
        except Exception as e:
            chk.obligation(name, "sat", kind="reader-structure", detail="raises %s: %s" % (type(e).__name__, e))
            replay_static(chk, ed, nv, cols, lattice, rng, "raises %s: %s" % (type(e).__name__, e), vlabel=vlabel)
            continue
        finally:
            os.unlink(fn)
        fails = []
        if not same(data.vref, tk.names["tVref"], name) or data.nv != nv or not same(data.cellmass, tk.names["tMass"], name):
            fails.append("header fields (reference volume, count, cell mass)")
        if len(data.volumes) != nv:
            fails.append("%d volume rows instead of %d" % (len(data.volumes), nv))
        else:
            for i in range(nv):
                if not same(data.volumes[i].volume, tk.names[vol[i]], name):
                    fails.append("volume of row %d" % i)
                mod = data.volumes[i].static_elastic_modulus
                want_keys = {c_("".join(ch for ch in c if ch.isdigit())) for c in cols}     # canonical Voigt key whatever prefix / case
                if set(mod) != want_keys:
                    fails.append("keys of row %d are %s instead of the canonical %s" % (i, list(mod), sorted(map(repr, want_keys))))
                    continue
                for j, cname in enumerate(cols):
                    digits = "".join(ch for ch in cname if ch.isdigit())
                    key = c_(digits)
                    if not same(mod[key], tk.names[tab[i][j]], name):
                        fails.append("component %s of row %d is not the tabulated entry" % (cname, i))
        if lattice:
            if len(data.lattice_parmeters) != nv or not all(same(data.lattice_parmeters[i][a], tk.names[lat[i][a]], name) for i in range(min(nv, len(data.lattice_parmeters))) for a in range(3)):
                fails.append("lattice block")
        elif len(data.lattice_parmeters) != 0:
            fails.append("lattice parameters invented")
        chk.obligation(name, "unsat" if not fails else "sat", seconds=round(time.time() - t0, 3), kind="reader-structure", detail=fails[:3])
        if fails:
            replay_static(chk, ed, nv, cols, lattice, rng, fails[0], vlabel=vlabel)
    chk.sample(dict(file=["comment", "tVref 3 tMass", "V c11 C12 c_44 C_1123", "tV0 t_0_0 t_0_1 ...", "...", "lattice parameters", "tL_0_0 tL_0_1 tL_0_2"]))


NUMBER_SPELLINGS = {"plain": "%.3f", "exponent": "%.6e", "EXPONENT": "%.6E", "signed": "%+.3f", "many digits": "%.11f"}


def replay_static(chk, ed, nv, cols, lattice, rng, what, vlabel="V"):
    """Concrete replay of the static-table reader, once per spelling of the numbers that float() accepts (the symbolic run works on opaque
    tokens, so a reader that looks *into* the numeric text fails there for every token; which real spelling it mis-reads is found here)."""
    from cij.util import c_
    for style, f in NUMBER_SPELLINGS.items():
        txt = lambda x: f % x
        vals_t = [[txt(rng.uniform(-500, 900)) for _ in cols] for _ in range(nv)]
        vol_t = [txt(400.0 - 17.5 * i) for i in range(nv)]
        lat_t = [[txt(rng.uniform(3, 12)) for _ in range(3)] for _ in range(nv)]
        mass_t = txt(123.456)
        vals = [[float(t) for t in row] for row in vals_t]
        vol = [float(t) for t in vol_t]
        lat = [[float(t) for t in row] for row in lat_t]
        lines = ["comment", "%s %d %s" % (vol_t[0], nv, mass_t), vlabel + " " + " ".join(cols)]
        lines += [" ".join([vol_t[i]] + vals_t[i]) for i in range(nv)]
        if lattice:
            lines += ["lattice"] + [" ".join(lat_t[i]) for i in range(nv)]
        with tempfile.NamedTemporaryFile("w", suffix=".dat", delete=False) as fp:
            fp.write("\n".join(lines) + "\n")
            fn = fp.name
        try:
            d = ed.read_elast_data(fn)
        except Exception as e:
            chk.violation("read_elast_data:raises", "read_elast_data raises %s: %s on a well-formed table (columns %s %s, numbers written in '%s' form)"
                          % (type(e).__name__, str(e)[:80], vlabel, cols, style), dict(lines=lines))
            return
        finally:
            os.unlink(fn)
        bad = None
        if d.vref != vol[0] or d.nv != nv or d.cellmass != float(mass_t) or len(d.volumes) != nv:
            bad = "header / row count (reference volume %r, rows %r, cell mass %r instead of %r, %r, %r)" % (d.vref, d.nv, d.cellmass, vol[0], nv, float(mass_t))
        else:
            for i in range(nv):
                if d.volumes[i].volume != vol[i]:
                    bad = "volume of row %d" % i
                for j, cn in enumerate(cols):
                    key = c_("".join(ch for ch in cn if ch.isdigit()))
                    if d.volumes[i].static_elastic_modulus.get(key) != vals[i][j]:
                        bad = "component %s of row %d: %r instead of %r" % (cn, i, d.volumes[i].static_elastic_modulus.get(key), vals[i][j])
            if lattice and [tuple(x) for x in d.lattice_parmeters] != [tuple(x) for x in lat]:
                bad = "lattice block"
            if not lattice and len(d.lattice_parmeters):
                bad = "lattice parameters invented"
        if bad:
            chk.violation("read_elast_data:wrong", "read_elast_data mis-reads a well-formed table whose numbers are written in '%s' form: %s" % (style, bad), dict(lines=lines))
            return
    chk.harness_error("C17 static table: '%s' did not reproduce" % what)


def phonon_reader_tokens(chk, qi, tier, rng):
    """read_energy on a hand-written phonon file in the documented layout in which EVERY numeric field -- q coordinates and weights
    included -- is an opaque token: every field of the returned object is the symbol at that place (whatever notation a number is
    written in is then float()'s business alone).  The concrete replay writes the numbers in fixed, exponent and signed notation."""
    shapes = [(2, 2, 3)] if tier == "quick" else [(2, 2, 3), (1, 3, 3), (3, 1, 6)]
    for nv, nq, np_ in shapes:
        name = "read_energy[hand-written file, nv=%d, nq=%d, np=%d, all numeric fields symbolic]" % (nv, nq, np_)
        ctx = new_context()
        tk = Tokens(ctx)
        lines = ["hand written", "", "  nv   nq   np   nm   na", "%4d %4d %4d %4d %4d" % (nv, nq, np_, 2, np_ // 3), ""]
        for i in range(nv):
            lines.append("P= %s V= %s E= %s" % (tk.new("tP%d" % i), tk.new("tV%d" % i), tk.new("tE%d" % i)))
            for j in range(nq):
                lines.append(" ".join(tk.new("tq_%d_%d_%d" % (i, j, a)) for a in range(3)))
                lines += [tk.new("tw_%d_%d_%d" % (i, j, k)) for k in range(np_)]
        lines += ["", "weight"] + [" ".join([tk.new("tc_%d_%d" % (j, a)) for a in range(3)] + [tk.new("tW%d" % j)]) for j in range(nq)]
        fn = os.path.join(tempfile.gettempdir(), "c17_hand_%d.txt" % os.getpid())
        with open(fn, "w") as fp:
            fp.write("\n".join(lines) + "\n")
        fails = []
        t0 = time.time()
        try:
            with patched((qi, {"float": tk.float})):
                d = X.run_single_path(lambda: qi.read_energy(fn), name=name)
            n = tk.names
            if (d.nv, d.nq, d.np, d.nm, d.na) != (nv, nq, np_, 2, np_ // 3) or len(d.volumes) != nv or len(d.weights) != nq:
                fails.append("counts")
            else:
                for i in range(nv):
                    v = d.volumes[i]
                    if not (same(v.pressure, n["tP%d" % i], name) and same(v.volume, n["tV%d" % i], name) and same(v.energy, n["tE%d" % i], name)):
                        fails.append("P/V/E of block %d" % i)
                    for j in range(nq):
                        if not all(same(v.q_points[j].coord[a], n["tq_%d_%d_%d" % (i, j, a)], name) for a in range(3)):
                            fails.append("q coordinates of block %d q-point %d" % (i, j))
                        if len(v.q_points[j].modes) != np_ or not all(same(v.q_points[j].modes[k], n["tw_%d_%d_%d" % (i, j, k)], name) for k in range(np_)):
                            fails.append("frequencies of block %d q-point %d" % (i, j))
                for j in range(nq):
                    if not all(same(d.weights[j][0][a], n["tc_%d_%d" % (j, a)], name) for a in range(3)) or not same(d.weights[j][1], n["tW%d" % j], name):
                        fails.append("weight line %d" % j)
        except Exception as e:
            fails.append("raises %s: %s" % (type(e).__name__, e))
        finally:
            os.unlink(fn)
        chk.obligation(name, "unsat" if not fails else "sat", seconds=round(time.time() - t0, 3), kind="reader-structure", detail=fails[:3])
        if fails:
            replay_hand_written(chk, qi, fails[0])


def replay_hand_written(chk, qi, what):
    """A hand-written file whose numbers use fixed, exponent, signed and leading-dot notation (all accepted by float())."""
    nums = dict(P=["-1.5e+00", "2.50E1"], V=["4.0e2", "380.125"], E=["-1.2345e3", "-1230.5"])
    freqs = [["1.25e2", "300.5", ".5e3"], ["7.5E+01", "+210.0", "999"]]
    wts = ["3.125e-05", "6.25e-05"]
    lines = ["hand written", "", "  nv   nq   np   nm   na", "   2    2    3    2    1", ""]
    for i in range(2):
        lines.append("P= %s V= %s E= %s" % (nums["P"][i], nums["V"][i], nums["E"][i]))
        for j in range(2):
            lines.append("0.0 %s 1e-1" % ("2.5e-1" if j else "0"))
            lines += freqs[j]
    lines += ["", "weight", "0.0 0 1e-1 %s" % wts[0], "0.0 2.5e-1 1e-1 %s" % wts[1]]
    fn = os.path.join(tempfile.gettempdir(), "c17_handr_%d.txt" % os.getpid())
    with open(fn, "w") as fp:
        fp.write("\n".join(lines) + "\n")
    try:
        d = qi.read_energy(fn)
    except Exception as e:
        chk.violation("phonon-file:hand-written:raises", "read_energy raises %s: %s on a hand-written file with numbers in exponent notation" % (type(e).__name__, e),
                      dict(lines=lines))
        return
    finally:
        os.unlink(fn)
    bad = None
    for j in range(2):
        if abs(d.weights[j][1] - builtins.float(wts[j])) > 1e-12:
            bad = "weight %s is read as %r" % (wts[j], d.weights[j][1])
        if abs(d.weights[j][0][2] - 0.1) > 1e-12:
            bad = "weight-line coordinate 1e-1 is read as %r" % (d.weights[j][0][2],)
    for i in range(2):
        v = d.volumes[i]
        for got, txt in ((v.pressure, nums["P"][i]), (v.volume, nums["V"][i]), (v.energy, nums["E"][i])):
            if abs(got - builtins.float(txt)) > 1e-9:
                bad = "%s is read as %r" % (txt, got)
        for j in range(2):
            for got, txt in zip(v.q_points[j].modes, freqs[j]):
                if abs(got - builtins.float(txt)) > 1e-9:
                    bad = "frequency %s is read as %r" % (txt, got)
            if abs(v.q_points[j].coord[2] - 0.1) > 1e-12:
                bad = "q coordinate 1e-1 is read as %r" % (v.q_points[j].coord[2],)
    if bad:
        chk.violation("phonon-file:hand-written", "read_energy mis-reads a hand-written phonon file: %s" % bad, dict(lines=lines))
    else:
        chk.harness_error("C17 hand-written phonon file: '%s' did not reproduce" % what)


def fill_command(chk, tier, rng):
    """`cij fill`: the real click callback runs on a token static file.  pandas.read_table is replaced by the contract it is used for (a
    whitespace-separated table with one header line: tokens -> symbols), fill_cij runs symbolically (exact least squares) and the frame
    handed to to_string is captured.  Decided: the two header lines and everything after the modulus block (lattice block) are re-emitted
    unchanged, exactly N+1 lines are consumed for the table, the options reach fill_cij, and the emitted table is fill_cij of the parsed
    table (which C08 / C09 decide)."""
    import contextlib
    import io
    import pandas
    import cij.cli.fill as cf
    import cij.util.fill as F
    from harness import fill_common as FC
    from symnum.npproxy import NumpyProxy
    chk.encode(cf.main.callback if hasattr(cf.main, "callback") else cf.main)
    cases = [("cubic", ["c11", "C12", "c44"], dict(ignore_residuals=False, ignore_rank=False, drop_atol=1e-8)),
             ("hexagonal", ["c11", "c12"], dict(ignore_residuals=False, ignore_rank=True, drop_atol=1e-6))]
    if tier != "quick":
        cases.append(("trigonal6", ["c11", "c12", "c13", "c14", "c33", "c44"], dict(ignore_residuals=True, ignore_rank=False, drop_atol=1e-8)))
    # column spellings the static-table reader accepts (prefix with underscore, four-index form)
    cases.append(("cubic", ["C_11", "c12", "c2323"], dict(ignore_residuals=False, ignore_rank=False, drop_atol=1e-8)))
    for system, cols, opts in cases:
        name = "cij fill -s %s %s" % (system, " ".join("--%s %s" % (k.replace("_", "-"), v) for k, v in opts.items() if v not in (False, 1e-8)))
        ctx = new_context()
        tk = Tokens(ctx)
        nv = 2
        head = ["a comment line 1 2 3", "%s %d %s" % (tk.new("tVref"), nv, tk.new("tMass"))]
        vol = [tk.new("tV%d" % i) for i in range(nv)]
        tab = [[tk.new("t_%d_%d" % (i, j)) for j in range(len(cols))] for i in range(nv)]
        table_lines = ["V " + " ".join(cols)] + [" ".join([vol[i]] + tab[i]) for i in range(nv)]
        tail = ["lattice parameters"] + ["  ".join(tk.new("tL_%d_%d" % (i, a)) for a in range(3)) for i in range(nv)]
        text = "\n".join(head + table_lines + tail) + "\n"
        fn = os.path.join(tempfile.gettempdir(), "c17_fill_%d.dat" % os.getpid())
        with open(fn, "w") as fp:
            fp.write(text)
        seen = {}

        def read_table(sio, header=0, index_col=None, sep=None, **kw):
            rows = [ln.split() for ln in sio.read().splitlines() if ln.strip()]
            seen["rows"] = len(rows) - 1
            data = {c: [tk.float(r[j]) for r in rows[1:]] for j, c in enumerate(rows[0])}
            return pandas.DataFrame(data, dtype=object)
        proxy = NumpyProxy()
        real_fill = F.fill_cij

        def fill_recorder(elast, **kw):
            seen["kwargs"] = dict(kw)
            seen["parsed"] = elast.copy()
            return real_fill(elast, **kw)
        cap = {}
        orig_ts, orig_rt = pandas.DataFrame.to_string, pandas.read_table

        def fake_to_string(frame, *a, **k):
            cap["df"] = frame
            cap["kw"] = k
            return "<<TABLE>>"
        t0 = time.time()
        fails = []
        out = io.StringIO()
        try:
            pandas.DataFrame.to_string, pandas.read_table = fake_to_string, read_table
            ex = X.Explorer(max_paths=32, name="C17:fill")
            ex.prefer = FC.no_drop_cut
            ex.generic_eq = True

            def run():
                out.seek(0)
                out.truncate()
                with patched((F, {"numpy": proxy, "fill_cij": fill_recorder})), contextlib.redirect_stdout(out):
                    cap.clear()
                    cf.main.callback(input02=fn, system=system, **opts)
                return out.getvalue(), cap.get("df"), dict(cap.get("kw") or {}), dict(seen)
            paths = ex.run(run)
        except (SymError, X.PathBudgetExceeded) as e:
            chk.inconclusive(name, str(e))
            continue
        finally:
            pandas.DataFrame.to_string, pandas.read_table = orig_ts, orig_rt
            os.unlink(fn)
        direct_cache = {}
        for p in paths:
            if fails:
                break
            if p.exception is not None:
                fails.append("raises %s: %s" % (type(p.exception).__name__, p.exception))
                continue
            p_text, p_df, p_kw, p_seen = p.result
            want_text = "\n".join(head) + "\n" + "<<TABLE>>\n" + "\n".join(tail) + "\n"
            if p_text != want_text:
                fails.append("header lines / lattice block are not re-emitted unchanged around the table")
            if p_seen.get("rows") != nv:
                fails.append("%s table rows handed to the filling instead of %d" % (p_seen.get("rows"), nv))
            if p_seen.get("kwargs") != dict(system=system, **opts):
                fails.append("options reach fill_cij as %s" % p_seen.get("kwargs"))
            if (p_kw or {}).get("index", True) is not False:
                fails.append("the row index is printed as an extra column")
            # the emitted frame is fill_cij of the parsed table, row by row in the order of the input (the lattice block that follows is
            # re-emitted in the input's order) -- on every path, whatever the order of the symbolic volumes
            try:
                if "d" not in direct_cache:
                    ex2 = X.Explorer(max_paths=32, name="C17:fill:direct")
                    ex2.prefer = FC.no_drop_cut
                    parsed = pandas.DataFrame({c: [tk.float(t_) for t_ in ([vol[i] for i in range(nv)] if c == "V" else [tab[i][cols.index(c)] for i in range(nv)])]
                                               for c in ["V"] + cols}, dtype=object)
                    direct, _, _ = FC.run_fill(F, parsed, system, explorer=ex2, **opts)
                    direct_cache["d"] = direct[0].result
                d = direct_cache["d"]
                got = p_df
                if got is None or list(got.columns) != list(d.columns):
                    fails.append("emitted columns %s instead of %s" % (list(got.columns) if got is not None else None, list(d.columns)))
                elif len(got) != len(d):
                    fails.append("%d rows emitted instead of %d" % (len(got), len(d)))
                else:
                    with X.path_assumptions(p):
                        for c in d.columns:
                            if not all(same(a, b, name) for a, b in zip(got[c].tolist(), d[c].tolist())):
                                fails.append("emitted column %s is not the symmetry-filled column, row by row in the order of the input "
                                             "(path: %s)" % (c, "; ".join(X.cond_str(c_) for c_ in p.path_condition())[:120]))
                                break
            except Exception as e:
                fails.append("direct fill for comparison failed: %s: %s" % (type(e).__name__, e))
        chk.obligation(name + ": header and lattice block preserved, N+1 lines consumed, options forwarded, emitted table == fill_cij(parsed table)",
                       "unsat" if not fails else "sat", seconds=round(time.time() - t0, 2), kind="command-structure", detail=fails[:3])
        if fails:
            replay_fill_command(chk, system, cols, opts, fails[0])


def canon_col(c):
    d = "".join(ch for ch in c if ch.isdigit())
    if len(d) == 4:
        v = {(1, 1): 1, (2, 2): 2, (3, 3): 3, (2, 3): 4, (1, 3): 5, (1, 2): 6}
        a, b = v[tuple(sorted((int(d[0]), int(d[1]))))], v[tuple(sorted((int(d[2]), int(d[3]))))]
        d = "%d%d" % tuple(sorted((a, b)))
    return "c" + d


def _replay_fill_command_once(chk, system, cols, opts, what, volumes, latt):
    from click.testing import CliRunner
    import cij.cli.fill as cf
    import cij.util.fill as F
    import cij.io.traditional.elast_dat as ed
    import pandas
    vals = {"c11": [300.0, 320.0], "c12": [100.0, 110.0], "c13": [90.0, 95.0], "c14": [10.0, 11.0], "c33": [280.0, 300.0], "c44": [80.0, 85.0]}
    if opts.get("drop_atol", 1e-8) != 1e-8:
        vals["c12"] = [300.0 - 1e-7, 320.0 - 1e-7]       # (c11 - c12)/2 lies between the default and the requested drop tolerance
    spelled = any(canon_col(c) != c.lower() for c in cols)
    lines = ["comment", "%.3f 2 123.456" % volumes[0], "V " + " ".join(cols)] + ["%.3f " % v + " ".join("%.9f" % vals[canon_col(c)][i] for c in cols) for i, v in enumerate(volumes)]
    tail = ["lattice parameters"] + [" ".join(repr(x) for x in row) for row in latt]
    fn = os.path.join(tempfile.gettempdir(), "c17_fillr_%d.dat" % os.getpid())
    with open(fn, "w") as fp:
        fp.write("\n".join(lines + tail) + "\n")
    try:
        args = [fn, "-s", system] + (["--ignore-rank"] if opts.get("ignore_rank") else []) + (["--ignore-residuals"] if opts.get("ignore_residuals") else []) + ["--drop-atol", repr(opts.get("drop_atol", 1e-8))]
        r = CliRunner().invoke(cf.main, args)
        if r.exit_code != 0:
            if spelled:
                chk.violation("fill-command:column-spellings", "cij fill %s fails with %r on a static table whose columns are spelled %s (spellings the "
                              "static-table reader accepts)" % (" ".join(args[1:3]), r.exception, cols), dict(lines=lines))
            else:
                chk.violation("fill-command:raises", "cij fill %s fails: %r" % (" ".join(args[1:]), r.exception), dict(lines=lines))
            return True
        outl = r.output.splitlines()
        if outl[:2] != lines[:2] or outl[-len(tail):] != tail:
            chk.violation("fill-command:frame", "cij fill does not re-emit the header lines / lattice block unchanged", dict(output=outl[:3] + outl[-4:]))
            return True
        with open(fn, "w") as fp:
            fp.write(r.output)
        try:
            back = ed.read_elast_data(fn)
        except Exception as e:
            chk.violation("fill-command:not-a-table", "the output of cij fill is not a readable static table: %s: %s" % (type(e).__name__, e), dict(output=outl[:5]))
            return True
        if [tuple(x) for x in back.lattice_parmeters] != [tuple(r_) for r_ in latt] or back.nv != 2 or abs(back.cellmass - 123.456) > 1e-9:
            chk.violation("fill-command:frame-parse", "the output of cij fill parses with lattice block %s, count %s, cell mass %s instead of the input's"
                          % (back.lattice_parmeters, back.nv, back.cellmass), dict(output=outl[:3] + outl[-4:]))
            return True
        import warnings
        with warnings.catch_warnings():
            warnings.simplefilter("ignore")
            want = F.fill_cij(pandas.DataFrame(dict([("V", list(volumes))] + [(canon_col(c), vals[canon_col(c)]) for c in cols])), system=system, **opts)
        for i in range(2):
            if abs(back.volumes[i].volume - volumes[i]) > 1e-6 * volumes[i]:
                chk.violation("fill-command:row-order", "cij fill -s %s: row %d of the output has volume %s, the input's row %d has %s -- the rows "
                              "no longer go with the lattice-parameter lines that follow the table in the input's order" % (
                                  system, i, back.volumes[i].volume, i, volumes[i]), dict(lines=lines))
                return True
            got = {("c%d%d" % k.v): v for k, v in back.volumes[i].static_elastic_modulus.items()}
            if sorted(got) != sorted(c.lower() for c in want.columns if c != "V"):
                chk.violation("fill-command:columns", "cij fill %s emits components %s, fill_cij with these options gives %s" % (
                    " ".join(args[1:]), sorted(got), sorted(c.lower() for c in want.columns if c != "V")), dict(lines=lines))
                return True
            for c in want.columns:
                if c == "V":
                    continue
                if c.lower() not in got or abs(got[c.lower()] - float(want[c].iloc[i])) > 1e-4 * (1 + abs(float(want[c].iloc[i]))):
                    chk.violation("fill-command:content", "cij fill -s %s: component %s of row %d is %s in the output, fill_cij gives %s" % (
                        system, c, i, got.get(c.lower()), float(want[c].iloc[i])), dict(lines=lines))
                    return True
    finally:
        if os.path.exists(fn):
            os.unlink(fn)
    return False


def replay_fill_command(chk, system, cols, opts, what):
    """Concrete: the table with decreasing volumes (as the shipped files list them), then with increasing volumes."""
    for volumes, latt in (((400.0, 380.0), ((5.1, 5.2, 5.3), (5.0, 5.1, 5.2))), ((380.0, 400.0), ((5.0, 5.1, 5.2), (5.1, 5.2, 5.3)))):
        if _replay_fill_command_once(chk, system, cols, opts, what, volumes, latt):
            return
    chk.harness_error("C17 fill command: '%s' did not reproduce" % what)


def fill_precision_twin(chk):
    """Stage R twin: `cij fill` re-emits the table through pandas' default float format -- are the volumes (and supplied values) of the input
    preserved to the precision they were given with?"""
    from click.testing import CliRunner
    import cij.cli.fill as cf
    import cij.io.traditional.elast_dat as ed
    lines = ["comment", "42.47767123 2 123.456", "V c11 c12 c44", "42.47767123 300.1234567 124.3001234 80.7654321", "40.12345678 320.7654321 130.1234567 85.1234567",
             "", "lattice parameters", "5.1 5.2 5.3", "5.0 5.1 5.2"]
    fn = os.path.join(tempfile.gettempdir(), "c17_prec_%d.dat" % os.getpid())
    with open(fn, "w") as fp:
        fp.write("\n".join(lines) + "\n")
    try:
        r = CliRunner().invoke(cf.main, [fn, "-s", "cubic"])
        if r.exit_code != 0:
            chk.note("precision twin: cij fill failed: %r" % (r.exception,))
            return
        with open(fn, "w") as fp:
            fp.write(r.output)
        back = ed.read_elast_data(fn)
        worst = max(abs(back.volumes[i].volume - v) for i, v in enumerate((42.47767123, 40.12345678)))
        if worst > 5e-9:
            chk.violation("fill-command:precision", "cij fill re-emits the volume 42.47767123 as %r (and the supplied components likewise to six decimals): the "
                          "volumes of the input table are not preserved to the precision they were given with" % back.volumes[0].volume, dict(lines=lines))
        else:
            chk.side_check("precision twin: volumes re-emitted by cij fill equal the input's to 5e-9", True)
    finally:
        if os.path.exists(fn):
            os.unlink(fn)


def build_phonon(tk, md, nv, nq, np_, symbolic=True, rng=None):
    vols = []
    for i in range(nv):
        qps = []
        for j in range(nq):
            modes = [tk.names[tk.new("tw_%d_%d_%d" % (i, j, k))] if symbolic else round(rng.uniform(-50, 1500), 6) for k in range(np_)]
            qps.append(md.QPointData((0.25 * j, 0.5, -0.125 * i), modes))
        if symbolic:
            p, v, e = (tk.names[tk.new("t%s%d" % (c, i))] for c in "PVE")
        else:
            p, v, e = round(rng.uniform(-5, 200), 6), round(rng.uniform(100, 900), 6), round(rng.uniform(-9e4, 9e4), 6)
        vols.append(md.VolumeData(p, v, e, qps))
    weights = [md.QPointWeight((0.25 * j, 0.5, 0.0), float(1 + j)) for j in range(nq)]
    return md.QHAInputData(nv, nq, np_, 2, np_ // 3 if np_ >= 3 else 1, weights, vols)


def phonon_roundtrip(chk, qi, md, tier, rng):
    shapes = [(2, 2, 3), (3, 1, 6), (2, 1, 9)] if tier == "quick" else [(1, 1, 3), (2, 2, 3), (3, 1, 6), (4, 3, 6), (2, 4, 9)]
    # history: all data sets are written to and read from ONE path in turn (and the first shape once more at the end), so that a read
    # which answers from an earlier parse of the same path instead of the file's current content is a failed obligation
    shapes = shapes + [shapes[0]]
    with tempfile.NamedTemporaryFile("w", suffix=".txt", delete=False) as fp:
        shared = fp.name
    os.unlink(shared)
    for step, (nv, nq, np_) in enumerate(shapes):
        name = "write_energy -> read_energy[nv=%d, nq=%d, np=%d; step %d at the same path]" % (nv, nq, np_, step)
        ctx = new_context()
        ctx.format_tokens = True
        tk = Tokens(ctx)
        data = build_phonon(tk, md, nv, nq, np_)
        fn = shared
        t0 = time.time()
        try:
            with patched((qi, {"float": tk.float})):
                back = X.run_single_path(lambda: (qi.write_energy(fn, data, comment="symbolic"), qi.read_energy(fn))[1], name=name)
        except Exception as e:
            chk.obligation(name, "sat", kind="round-trip", detail="raises %s: %s" % (type(e).__name__, e))
            replay_phonon(chk, qi, md, nv, nq, np_, rng, "raises %s: %s" % (type(e).__name__, e))
            continue
        fails = []
        if (back.nv, back.nq, back.np, back.nm, back.na) != (data.nv, data.nq, data.np, data.nm, data.na):
            fails.append("counts %s" % ((back.nv, back.nq, back.np, back.nm, back.na),))
        if len(back.volumes) != nv:
            fails.append("%d volume blocks" % len(back.volumes))
        else:
            for i in range(nv):
                a, b = back.volumes[i], data.volumes[i]
                if not (same(a.pressure, b.pressure, name) and same(a.volume, b.volume, name) and same(a.energy, b.energy, name)):
                    fails.append("P/V/E of block %d" % i)
                if len(a.q_points) != nq:
                    fails.append("q-point count of block %d" % i)
                    continue
                for j in range(nq):
                    if tuple(a.q_points[j].coord) != tuple(b.q_points[j].coord):
                        fails.append("q coordinates (%d,%d)" % (i, j))
                    if len(a.q_points[j].modes) != np_ or not all(same(x, y, name) for x, y in zip(a.q_points[j].modes, b.q_points[j].modes)):
                        fails.append("frequencies of block %d q-point %d" % (i, j))
        if [(tuple(c), w) for c, w in back.weights] != [(tuple(c), w) for c, w in data.weights]:
            fails.append("weights")
        chk.obligation(name + ": counts, P/V/E and every frequency come back at their place (symbolic); q coordinates and weights (concrete)",
                       "unsat" if not fails else "sat", seconds=round(time.time() - t0, 3), kind="round-trip", detail=fails[:3])
        if fails:
            replay_phonon(chk, qi, md, nv, nq, np_, rng, fails[0])
    if os.path.exists(shared):
        os.unlink(shared)


def replay_phonon(chk, qi, md, nv, nq, np_, rng, what):
    """Concrete replay; the data set is written and read at a path that held another data set (already read once) before."""
    tk = Tokens(S.current())
    data = build_phonon(tk, md, nv, nq, np_, symbolic=False, rng=rng)
    with tempfile.NamedTemporaryFile("w", suffix=".txt", delete=False) as fp:
        fn = fp.name
    try:
        qi.write_energy(fn, build_phonon(tk, md, nv + 1, nq, np_, symbolic=False, rng=rng))
        qi.read_energy(fn)
        qi.write_energy(fn, data)
        back = qi.read_energy(fn)
    except Exception as e:
        chk.violation("phonon-file:raises", "write_energy/read_energy raises %s: %s" % (type(e).__name__, e), dict(shape=[nv, nq, np_]))
        return
    finally:
        os.unlink(fn)
    bad = None
    if (back.nv, back.nq, back.np, back.nm, back.na) != (data.nv, data.nq, data.np, data.nm, data.na) or len(back.volumes) != nv:
        bad = "counts"
    else:
        for i in range(nv):
            a, b = back.volumes[i], data.volumes[i]
            if max(abs(a.pressure - b.pressure), abs(a.volume - b.volume), abs(a.energy - b.energy)) > 1e-6:
                bad = "P/V/E of block %d" % i
            if len(a.q_points) != nq:
                bad = "q-points of block %d" % i
                continue
            for j in range(nq):
                if len(a.q_points[j].modes) != np_ or max(abs(x - y) for x, y in zip(a.q_points[j].modes, b.q_points[j].modes)) > 1e-6:
                    bad = "frequencies (%d,%d)" % (i, j)
                if max(abs(x - y) for x, y in zip(a.q_points[j].coord, b.q_points[j].coord)) > 1e-4:
                    bad = "q coordinates (%d,%d)" % (i, j)
        if len(back.weights) != nq or any(abs(back.weights[j][1] - data.weights[j][1]) > 1e-6 for j in range(nq)):
            bad = "weights"
    if bad:
        chk.violation("phonon-file:round-trip", "writing and re-reading a phonon data set changes %s (nv=%d, nq=%d, np=%d)" % (bad, nv, nq, np_),
                      dict(shape=[nv, nq, np_]))
    else:
        chk.harness_error("C17 phonon file: '%s' did not reproduce" % what)


def main():
    tier = os.environ.get("VERIF_TIER", "quick")
    if len(sys.argv) > 1:
        tier = sys.argv[1]
    chk = Check("C17", tier, "symbolic execution of the real readers / writer on files whose numeric fields are opaque tokens (module-global "
                             "`float` rebound to a token -> symbol map); z3 equality of every field of the returned data objects with the "
                             "symbol written at that place")
    import importlib
    ed = importlib.import_module("cij.io.traditional.elast_dat")
    qi = importlib.import_module("cij.io.traditional.qha_input")
    md = importlib.import_module("cij.io.traditional.models")
    chk.encode(ed.read_elast_data, ed._find_modulus_key, qi.read_energy, qi.write_energy, qi._read_volume_data, qi._read_weights)
    Z.reset_log()
    rng = random.Random(seed() + 17)
    static_table(chk, ed, tier, rng)
    phonon_roundtrip(chk, qi, md, tier, rng)
    phonon_reader_tokens(chk, qi, tier, rng)
    fill_command(chk, tier, rng)
    fill_precision_twin(chk)
    chk.witness("readers-reached", "sat" if chk.obligations else "unsat")
    chk.bound(static_tables="1-4 rows, 1-13 columns in mixed spellings, with and without lattice block", phonon_files="1-4 volumes, 1-4 q-points, 3-9 modes")
    chk.stub("module-global `float` of elast_dat.py / qha_input.py -> token-aware float (tokens become symbols, everything else is the real float); "
             "f-string formatting of a symbol prints its token")
    chk.assume("tokens contain no white space; counts (nv, nq, np, nm, na), q coordinates and weights are concrete (%-formatting realises them)")
    chk.out_of_claim("numeric precision of the written text (%12.6f etc.) and float() parsing itself; the `cij fill` command's re-emission "
                     "(pandas C parser and to_string); evec / matdyn files")
    return chk.finish("Reader and writer structure is decided for all numeric contents at once: every field of the parsed objects is proved equal "
                      "to the symbol that stands at that place of the file, for several table / file shapes and column spellings.")


if __name__ == "__main__":
    run_main(main)
