"""Shared check infrastructure: obligations, witnesses, replay files, known findings,
evidence files, exit codes (0 ok / 1 violation / 3 harness error or inconclusive)."""
from __future__ import annotations

import hashlib
import inspect
import json
import os
import sys
import time
import traceback

VERIF = os.path.dirname(os.path.dirname(os.path.abspath(__file__)))
REPO = os.environ.get("CIJ_REPO", "/repo")
EVIDENCE_DIR = os.environ.get("VERIF_EVIDENCE_DIR") or os.path.join(VERIF, "evidence")
REPLAY_DIR = os.environ.get("VERIF_REPLAY_DIR") or os.path.join(VERIF, "replays")
KNOWN_FINDINGS = os.path.join(VERIF, "known_findings.json")

EXIT_OK, EXIT_VIOLATION, EXIT_HARNESS = 0, 1, 3


def seed():
    try:
        return int(os.environ.get("VERIF_SEED", "0"))
    except ValueError:
        return 0


def source_hash(obj):
    try:
        src = inspect.getsource(obj)
    except Exception:
        return None
    return hashlib.sha256(src.encode()).hexdigest()[:16]


def qualname(obj):
    mod = getattr(obj, "__module__", None) or getattr(obj, "__name__", "?")
    qn = getattr(obj, "__qualname__", None)
    return "%s.%s" % (mod, qn) if qn else str(mod)


_fresh_n = [0]


def fresh_copy(module):
    """A second, independent instance of a module loaded from the same source file: module-level state (caches, registries) starts
    empty, as in a new process.  Used by concrete replays so that what they observe comes from the replayed call sequence alone and
    not from values the symbolic stage left behind in a module-level cache."""
    import importlib.util
    _fresh_n[0] += 1
    name = "%s__fresh%d" % (module.__name__, _fresh_n[0])
    spec = importlib.util.spec_from_file_location(name, module.__file__)
    mod = importlib.util.module_from_spec(spec)
    mod.__package__ = module.__package__
    spec.loader.exec_module(mod)
    return mod


def load_known_findings():
    try:
        with open(KNOWN_FINDINGS) as fp:
            data = json.load(fp)
    except FileNotFoundError:
        return {"known": [], "fixed": []}
    data.setdefault("known", [])
    data.setdefault("fixed", [])
    return data


def _jsonable(x):
    from fractions import Fraction
    try:
        import numpy
    except Exception:  # pragma: no cover
        numpy = None
    if isinstance(x, dict):
        return {str(k): _jsonable(v) for k, v in x.items()}
    if isinstance(x, (list, tuple, set, frozenset)):
        return [_jsonable(v) for v in x]
    if isinstance(x, Fraction):
        return str(x)
    if numpy is not None:
        if isinstance(x, numpy.ndarray):
            return _jsonable(x.tolist())
        if isinstance(x, (numpy.floating,)):
            return float(x)
        if isinstance(x, (numpy.integer,)):
            return int(x)
        if isinstance(x, numpy.bool_):
            return bool(x)
    if isinstance(x, (str, int, float, bool)) or x is None:
        return x
    return repr(x)


class Check:
    """One run of one property's check."""

    def __init__(self, prop, tier, technique):
        self.prop = prop
        self.tier = tier
        self.technique = technique
        self.t0 = time.time()
        from symnum import solver as _Z
        _Z.CROSS.update(enabled=(tier == "thorough" or os.environ.get("VERIF_CROSSCHECK") == "1"), seen=0, sampled=0, agree=0, unknown=0,
                        disagree=[], seconds=0.0)
        # wall-clock budget of the whole check: once it is spent every further solver query answers `unknown` at once, so the run ends
        # as inconclusive (exit 3) instead of grinding on (seen on a tree where an added guard made every branch undecidable)
        budget = float(os.environ.get("VERIF_BUDGET_S", 1500 if tier == "quick" else 5 * 3600))
        _Z.BUDGET.update(deadline=self.t0 + budget, seconds=budget, skipped=0)
        self.obligations = []      # dict(name, verdict, ...)
        self.witnesses = []        # reachability twins
        self.violations = []       # replayed, not known
        self.known_hits = []       # replayed, listed in known_findings.json
        self.harness_errors = []
        self.side_checks = []      # concrete side checks (not solver results)
        self.functions = {}        # qualname -> source hash
        self.stubs = []
        self.assumptions = []
        self.bounds = {}
        self.outside = []
        self.samples = []
        self.replays_run = 0
        self.notes = []
        self.validation_points = 0
        self.known = load_known_findings()
        os.makedirs(EVIDENCE_DIR, exist_ok=True)
        os.makedirs(REPLAY_DIR, exist_ok=True)

    # -- bookkeeping -----------------------------------------------------------
    def encode(self, *objs):
        for o in objs:
            self.functions[qualname(o)] = source_hash(o)

    def stub(self, text):
        if text not in self.stubs:
            self.stubs.append(text)

    def assume(self, text):
        if text not in self.assumptions:
            self.assumptions.append(text)

    def bound(self, **kw):
        self.bounds.update(kw)

    def out_of_claim(self, text):
        if text not in self.outside:
            self.outside.append(text)

    def sample(self, obj):
        if len(self.samples) < 12:
            self.samples.append(_jsonable(obj))

    def note(self, text):
        self.notes.append(text)

    def side_check(self, name, ok, detail=None):
        self.side_checks.append(dict(name=name, ok=bool(ok), detail=_jsonable(detail)))
        return ok

    # -- obligations -------------------------------------------------------------
    def obligation(self, name, verdict, seconds=None, solver="z3", logic="QF_NRA", detail=None, kind="identity"):
        """verdict: 'unsat' (discharged), 'sat' (candidate), 'unknown', or 'trivial' (empty residual
        before the solver; still sent to the solver by callers that want the verdict from it)."""
        self.obligations.append(dict(name=name, verdict=verdict, seconds=seconds, solver=solver, logic=logic,
                                     kind=kind, detail=_jsonable(detail)))

    def witness(self, name, verdict, seconds=None, detail=None):
        """Reachability twin: must be 'sat' (the assumptions are satisfiable and the assertion is reached)."""
        self.witnesses.append(dict(name=name, verdict=verdict, seconds=seconds, detail=_jsonable(detail)))
        if verdict != "sat":
            self.harness_error("vacuity witness %s came back %s" % (name, verdict))

    def harness_error(self, text):
        self.harness_errors.append(text)
        print("HARNESS-ERROR property=%s %s" % (self.prop, text), flush=True)

    def inconclusive(self, name, why):
        self.harness_error("inconclusive obligation %s: %s" % (name, why))

    # -- violations ----------------------------------------------------------------
    def write_replay(self, key, payload):
        fn = os.path.join(REPLAY_DIR, "%s_%s.json" % (self.prop, "".join(ch if ch.isalnum() else "_" for ch in key)[:80]))
        payload = dict(payload)
        payload.setdefault("property", self.prop)
        payload.setdefault("key", key)
        with open(fn, "w") as fp:
            json.dump(_jsonable(payload), fp, indent=1, sort_keys=True)
        return fn

    def violation(self, key, what, payload):
        """A replayed (reproduced against the real code) violation.  `key` is the stable
        finding key matched against known_findings.json."""
        self.replays_run += 1
        # a replay that fails on the harness's own stand-in objects (the duck calculators are `Obj` instances, token files carry
        # tokens ...) says that the code now reads something the stand-in does not provide -- a limit of the harness, not a finding
        if "'Obj' object has no attribute" in what or "object has no attribute" in what and "Obj" in what.split("object has no attribute")[0][-12:]:
            self.harness_error("replay could not be carried out on the harness's stand-in object (%s)" % what[:160])
            return False
        if any(v["key"] == key for v in self.violations) or any(v["key"] == key for v in self.known_hits):
            return False   # one line per finding key
        for k in self.known.get("known", []):
            if k.get("property") == self.prop and k.get("key") == key:
                self.known_hits.append(dict(key=key, what=what))
                print("KNOWN-FINDING: property=%s %s" % (self.prop, k.get("what", what)), flush=True)
                return False
        path = self.write_replay(key, dict(payload, what=what))
        self.violations.append(dict(key=key, what=what, replay=path))
        print("VIOLATION property=%s replay=%s" % (self.prop, path), flush=True)
        print("  what: %s" % what, flush=True)
        return True

    # -- finish ----------------------------------------------------------------------
    def finish(self, explanation):
        from symnum import solver as Z
        wall = time.time() - self.t0
        n_obl = len(self.obligations)
        n_dis = sum(1 for o in self.obligations if o["verdict"] == "unsat")
        undecided = [o["name"] for o in self.obligations if o["verdict"] not in ("unsat",)]
        # an obligation that came back sat must have produced a violation / known finding / harness error
        solver_time = sum(q["seconds"] for q in Z.QUERY_LOG)
        distinct = len(set(o["name"] for o in self.obligations))
        for dis in Z.CROSS["disagree"][:3]:
            self.harness_error("second solver disagrees: %s -- z3 says %s, cvc5 says %s" % (dis["name"], dis["z3"], dis["cvc5"]))
        if Z.BUDGET["skipped"]:
            self.harness_error("wall-clock budget of %d s spent: %d solver queries were not attempted (answered unknown)" % (Z.BUDGET["seconds"], Z.BUDGET["skipped"]))
        from symnum import executor as _X
        if _X.GENERIC_CUTS[0]:
            self.assume("inputs in general position: %d undecided exact equality tests (==, !=, .any(), array_equal) between structurally different "
                        "symbolic values were taken as 'not equal', and undecided magnitude guards |x| > c (c <= 1e-3) as 'x is not tiny' (recorded cuts; "
                        "equal arguments are covered where a case uses the same symbol for both, vanishing ones where it uses the constant 0)" % _X.GENERIC_CUTS[0])
        from symnum import npproxy as _npp
        for which, c in sorted(_npp.CAP_CUTS):
            self.assume("numpy.%s(x, %g) with a symbolic x is taken as x: the claims are restricted to x %s %g (for the Bose argument "
                        "Q = h*omega/(k*T) capped in nonshear.Q the region beyond the cap is decided by the QF_FP kernel obligations of C12)"
                        % (which, c, "<=" if which == "minimum" else ">=", c))
        cov = dict(
            explanation=explanation,
            obligations=n_obl,
            discharged=n_dis,
            evaluations=max(1, n_obl),
            distinct_nontrivial=max(2, distinct) if distinct >= 2 else distinct,
            rule="one evaluation = one solver obligation (identity / entailment / refusal condition) over symbolic "
                 "inputs within the stated bounds; distinct = distinct obligation names; non-trivial = the obligation "
                 "mentions at least one symbolic input",
            samples=self.samples[:12] or [o["name"] for o in self.obligations[:5]],
            functions_encoded=self.functions,
            bounds=self.bounds,
            stubs=self.stubs,
            outside_claim=self.outside,
            queries_discharged=len(Z.QUERY_LOG),
            solver_seconds=round(solver_time, 3),
            slowest_queries=sorted(Z.QUERY_LOG, key=lambda q: -q["seconds"])[:8],
            solver_verdicts={v: sum(1 for q in Z.QUERY_LOG if q["verdict"] == v) for v in ("sat", "unsat", "unknown")},
            second_solver_cross_check=(dict(solver="cvc5 (binary on PATH)", sampled=Z.CROSS["sampled"], agree=Z.CROSS["agree"],
                                            undecided_by_cvc5=Z.CROSS["unknown"], disagree=Z.CROSS["disagree"][:5],
                                            seconds=round(Z.CROSS["seconds"], 1)) if Z.CROSS["enabled"] else None),
            witnesses=self.witnesses,
            side_checks=self.side_checks,
            not_discharged=undecided[:50],
            known_findings_hit=self.known_hits,
            violations=self.violations,
            harness_errors=self.harness_errors,
            replays_run=self.replays_run,
            validation_points=self.validation_points,
            notes=self.notes,
            obligation_records=self.obligations[:400],
            technique=self.technique,
        )
        ev = dict(
            property_id=self.prop,
            tier=self.tier,
            seed=seed(),
            level="other",
            coverage=cov,
            assumptions=self.assumptions,
            wall_s=round(wall, 3),
            violations=len(self.violations),
        )
        with open(os.path.join(EVIDENCE_DIR, self.prop + ".json"), "w") as fp:
            json.dump(_jsonable(ev), fp, indent=1)
        if self.violations:
            code = EXIT_VIOLATION
        elif self.harness_errors:
            code = EXIT_HARNESS
        else:
            code = EXIT_OK
        print("RESULT property=%s tier=%s obligations=%d discharged=%d witnesses=%d violations=%d known=%d "
              "harness_errors=%d queries=%d solver_s=%.2f wall_s=%.1f exit=%d" % (
                  self.prop, self.tier, n_obl, n_dis, len(self.witnesses), len(self.violations), len(self.known_hits),
                  len(self.harness_errors), len(Z.QUERY_LOG), solver_time, wall, code), flush=True)
        return code


def run_main(fn):
    """Wrap a harness main so that unexpected exceptions are harness errors (exit 3), never 1."""
    try:
        code = fn()
    except SystemExit:
        raise
    except BaseException:
        traceback.print_exc()
        print("HARNESS-ERROR unexpected exception", flush=True)
        code = EXIT_HARNESS
    sys.exit(code)
