"""C13 -- results do not depend on how the same physical data are presented."""
from __future__ import annotations

import itertools
import os
import random
import sys
import time
import warnings
from fractions import Fraction

import numpy

from harness.common import Check, run_main, seed
from harness import phonon_common as PC
from harness import pipeline as PL
from harness.fill_common import KEYS
from symnum import sym as S, solver as Z, executor as X
from symnum.sym import Sym, SymError, new_context, symvars, symarray
from symnum.npproxy import NumpyProxy, patched
from symnum.exactlift import exact_lstsq


def entries(arr):
    a = numpy.asarray(arr, dtype=object)
    return [(idx, Sym.of(a[idx])) for idx in numpy.ndindex(*a.shape)]


def same_results(a, b, name):
    bad = []
    for which in ("iso", "adi"):
        for k in a[which]:
            for (idx, x), (_, y) in zip(entries(a[which][k]), entries(b[which][k])):
                if x.same(y):
                    continue
                v, env = Z.prove_zero(x - y, name=name + ":" + k, timeout_ms=20000)
                if v != "unsat":
                    bad.append((which, k, idx, v))
    return bad


def represent(duck, qperm=None, mperm=None, wscale=None):
    """A re-presented copy of the same physical data."""
    d = PC.Obj()
    d.__dict__.update(duck.__dict__)
    freq, gam, dlt, wts = duck.freq_array, duck.gamma, duck.delta, duck.weights
    if qperm is not None:
        freq, gam, dlt = freq[:, qperm, :], gam[:, qperm, :], dlt[:, qperm, :]
        wts = wts[list(qperm)]
    if mperm is not None:
        freq, gam, dlt = freq.copy(), gam.copy(), dlt.copy()
        for q, perm in mperm.items():
            freq[:, q, :] = freq[:, q, perm]
            gam[:, q, :] = gam[:, q, perm]
            dlt[:, q, :] = dlt[:, q, perm]
    if wscale is not None:
        wts = wts * wscale
    d.freq_array, d.gamma, d.delta, d.weights = freq, gam, dlt, wts
    d.mode_gamma = [dlt, gam, gam ** 2]
    d.qha_input = PC.Obj()
    d.qha_input.weights = [((0.0, 0.0, float(i)), w) for i, w in enumerate(wts)]
    return d


def phonon_side(chk, tier, rng):
    nq, np_, nv = (3, 3, 1) if tier == "quick" else (3, 6, 2)
    keys = ["c11", "c12", "c44", "c15", "c36", "c33"] if tier == "quick" else KEYS
    ctx = new_context()
    H, K, _ = PC.declare_constants(ctx)
    duck = PC.make_duck(ctx, nq, np_, nv, n_sym_T=1)
    strain = symvars("e", (nv, 3), positive=True)
    try:
        base, _ = PL.run_pipeline(duck, strain, keys)
    except Exception as e:
        chk.inconclusive("C13 base run", str(e))
        return
    variants = []
    qperms = [p for p in itertools.permutations(range(1, nq))][1:]
    for p in qperms:
        variants.append(("q-points %s" % ((0,) + p,), dict(qperm=[0] + list(p))))
    mp = list(range(np_))
    for trial in range(2 if tier == "quick" else 5):
        m1 = mp[:]
        rng.shuffle(m1)
        m0 = [0, 1, 2] + rng.sample(list(range(3, np_)), np_ - 3)   # Gamma: acoustic slots stay in place
        variants.append(("modes (q1: %s, Gamma: %s)" % (m1, m0), dict(mperm={1: m1, 0: m0})))
    s = ctx.var("wscale", positive=True)
    variants.append(("weights x s (s>0 symbolic)", dict(wscale=s)))
    variants.append(("weights x 7/3", dict(wscale=Fraction(7, 3))))
    for name, kw in variants:
        t0 = time.time()
        d2 = represent(duck, **kw)
        try:
            alt, _ = PL.run_pipeline(d2, strain, keys)
        except Exception as e:
            chk.obligation("phonon:" + name, "sat", kind="identity", detail="raises %s" % e)
            replay_phonon(chk, rng, kw, keys, name)
            continue
        bad = same_results(base, alt, "C13:" + name)
        chk.obligation("phonon: " + name, "unsat" if not bad else "sat", seconds=round(time.time() - t0, 2), kind="identity",
                       detail=dict(keys=keys))
        if bad:
            replay_phonon(chk, rng, kw, keys, name)
    w = Z.witness([("!=", entries(base["iso"]["c11"])[-1][1])], name="C13:witness", rng=rng)
    chk.witness("phonon:c11-nonzero", w[0])
    chk.sample(dict(variant=variants[0][0], keys=keys))


def replay_phonon(chk, rng, kw, keys, name):
    d = PL.float_duck(3, 6, 2, 2, rng)
    d.gamma = d.mode_gamma[1]
    d.delta = d.mode_gamma[0]
    d.weights = numpy.array([w for _, w in d.qha_input.weights])
    kw = dict(kw)
    if isinstance(kw.get("wscale"), Sym):
        kw["wscale"] = 2.5
    if kw.get("wscale") is not None:
        kw["wscale"] = float(kw["wscale"])
    if kw.get("mperm"):
        np_ = d.np
        kw["mperm"] = {1: list(reversed(range(np_))), 0: [0, 1, 2] + list(reversed(range(3, np_)))}
    d2 = represent(d, **kw)
    strain = numpy.array([[0.25, 0.35, 0.40], [0.22, 0.36, 0.42]])
    try:
        with numpy.errstate(all="ignore"):
            a, a2, _ = PL.real_pipeline(d, strain, keys)
            b, b2, _ = PL.real_pipeline(d2, strain, keys)
    except Exception as e:
        chk.violation("phonon:raises", "real pipeline raises %s: %s on re-presented data (%s)" % (type(e).__name__, str(e)[:120], name), {})
        return
    for k in keys:
        sc = max(numpy.abs(a[k]).max(), 1e-6 * max(numpy.abs(v).max() for v in a.values())) + 1e-300
        if numpy.abs(a[k][1:] - b[k][1:]).max() > 1e-9 * sc or numpy.abs(a2[k][1:] - b2[k][1:]).max() > 1e-9 * sc:
            chk.violation("phonon:presentation:%s" % name.split()[0], "%s changes %s by %.3g relative" % (
                name, k, numpy.abs(a[k][1:] - b[k][1:]).max() / sc), dict(variant=name, key=k))
            return
    chk.harness_error("C13 phonon: '%s' did not reproduce" % name)


def lattice_scale(chk, tier, rng):
    """Lattice parameters in another unit: the three columns of the lattice block multiplied by one symbolic positive factor s (bohr, Angstrom,
    nm, cm, m ...).  The real get_axial_strains runs on symbolic axis lengths L and on s*L (concrete volumes, exact least squares); every
    comparison it makes on the data (a tolerance test such as allclose) is decided by the solver and forks; on every path z3 must show the
    strain fractions of s*L equal those of L."""
    import cij.core.full_modulus as fm
    import cij.io.traditional.elast_dat as ed
    chk.encode(fm.FullThermalElasticModulus.get_axial_strains)
    nvol = 5
    vols = [Fraction(400 - 25 * i) for i in range(nvol)]
    v_array = numpy.array([405.0, 360.0, 310.0])
    ctx = new_context()
    L = [[ctx.var("L_%d_%d" % (i, a), positive=True) for a in range(3)] for i in range(nvol)]
    sc = ctx.var("scale", positive=True)

    def polyfit_exact(x, y, deg, rcond=None, full=False, w=None, cov=False):
        if full or cov:
            raise SymError("polyfit stub: full/cov output not modelled")
        na = numpy.vander(numpy.asarray(x, dtype=float), deg + 1)
        yy = numpy.asarray(y, dtype=object)
        if w is not None:
            wf = numpy.asarray(w, dtype=float)
            na = na * wf[:, None]
            yy = yy * wf
        coef, res, rank, sv = exact_lstsq(na, yy)
        return coef

    def strains_of(lat):
        proxy = NumpyProxy()            # close_mode "solver": a tolerance test on the data is a branch the solver decides
        proxy.polyfit_impl = polyfit_exact
        obj = object.__new__(fm.FullThermalElasticModulus)
        obj.calculator = PC.Obj()
        obj.calculator.v_array = v_array
        obj.elast_data = ed.ElastData(float(vols[0]), nvol, 100.0, [ed.ElastVolumeData(float(v), {}) for v in vols], [tuple(r) for r in lat])
        with patched((fm, {"numpy": proxy})):
            return numpy.asarray(obj.get_axial_strains(), dtype=object)

    def fn():
        return strains_of(L), strains_of([[sc * x for x in row] for row in L])
    t0 = time.time()
    ex = X.Explorer(max_paths=64, name="C13:lattice-scale", decision_timeout_ms=8000)
    try:
        paths = ex.run(fn)
    except (SymError, X.PathBudgetExceeded) as e:
        chk.inconclusive("lattice scale", str(e))
        return
    bad = None
    for p in paths:
        if p.feasibility_unknown:
            chk.inconclusive("lattice scale", "a branch feasibility query returned unknown")
        pc = p.path_condition()
        if p.exception is not None:
            bad = ("raises %s: %s" % (type(p.exception).__name__, p.exception), None)
            break
        a, b = p.result
        if a.shape != b.shape:
            bad = ("shape of the strain fractions changes with the unit of the lattice parameters", None)
            break
        for x, y in zip(a.ravel().tolist(), b.ravel().tolist()):
            x, y = Sym.of(x), Sym.of(y)
            if x.same(y):
                continue
            v, env = Z.prove_equal(x, y, name="C13:lattice-scale", conds=pc, timeout_ms=20000)
            if v == "sat":
                bad = ("strain fractions change when all lattice parameters are multiplied by one factor", env)
                break
            if v != "unsat":
                chk.inconclusive("lattice scale", "identity undecided on one path")
        if bad:
            break
    chk.obligation("lattice parameters x one symbolic positive factor (another length unit): get_axial_strains returns the same strain fractions "
                   "on every path of its data-dependent tests [%d paths, %d volumes, solver-decided allclose]" % (len(paths), nvol),
                   "unsat" if not bad else "sat", seconds=round(time.time() - t0, 2), kind="identity", detail=bad[0] if bad else None)
    if bad:
        replay_lattice_scale(chk, fm, ed, bad[0], bad[1], vols, v_array)


def replay_lattice_scale(chk, fm, ed, what, env, vols, v_array):
    """Concrete: the real get_axial_strains on the solver's lattice parameters (or a default anisotropic cell) and on a family of unit factors."""
    nvol = len(vols)
    lat = None
    scales = [0.529177, 10.0, 0.1, 1e-8, 1e-10, 1e8]
    if env:
        try:
            lat = [[float(env["L_%d_%d" % (i, a)]) for a in range(3)] for i in range(nvol)]
            scales = [float(env["scale"])] + scales
        except Exception:
            lat = None
    cands = ([lat] if lat else []) + [[[5.0 - 0.10 * i, 5.2 - 0.06 * i, 13.0 - 0.45 * i] for i in range(nvol)]]

    def run(rows):
        obj = object.__new__(fm.FullThermalElasticModulus)
        obj.calculator = PC.Obj()
        obj.calculator.v_array = v_array
        obj.elast_data = ed.ElastData(float(vols[0]), nvol, 100.0, [ed.ElastVolumeData(float(v), {}) for v in vols], [tuple(r) for r in rows])
        return numpy.asarray(obj.get_axial_strains(), dtype=float)
    for rows in cands:
        try:
            base = run(rows)
            if not numpy.all(numpy.isfinite(base)):
                continue
            for f in scales:
                got = run([[f * x for x in r] for r in rows])
                dev = numpy.abs(got - base).max()
                if not dev <= 1e-7:
                    chk.violation("lattice:unit", "the strain fractions change by %.3g when every lattice parameter is multiplied by %g (the same cell in "
                                  "another length unit): first row %s instead of %s" % (dev, f, got[0].tolist(), base[0].tolist()),
                                  dict(lattice=rows, factor=f))
                    return
        except Exception as e:
            chk.violation("lattice:unit:raises", "get_axial_strains raises %s: %s on a rescaled lattice block" % (type(e).__name__, str(e)[:120]), {})
            return
    chk.harness_error("C13 lattice scale: '%s' did not reproduce" % what)


def static_side(chk, tier, rng):
    """Row order of the static table (row 0 = strain reference stays first), column order / case."""
    import cij.core.full_modulus as fm
    import cij.io.traditional.elast_dat as ed
    from cij.util import c_
    chk.encode(fm.FullThermalElasticModulus.fit_modulus, fm.FullThermalElasticModulus.get_static_modulus, ed._find_modulus_key)
    nvol = 6
    vols = [Fraction(400 - 20 * i) for i in range(nvol)]
    v_array = numpy.array([410.0, 380.0, 350.0, 330.0, 300.0, 290.0])
    ctx = new_context()
    mod = {k: [ctx.var("m_%s_%d" % (k, i)) for i in range(nvol)] for k in ("c11", "c12", "c44")}

    def polyfit_exact(x, y, deg, rcond=None, full=False, w=None, cov=False):
        """numpy.polyfit contract: least squares on the Vandermonde matrix, rows scaled by w if given."""
        if full or cov:
            raise SymError("polyfit stub: full/cov output not modelled")
        na = numpy.vander(numpy.asarray(x, dtype=float), deg + 1)
        yy = numpy.asarray(y, dtype=object)
        if w is not None:
            wf = numpy.asarray(w, dtype=float)
            na = na * wf[:, None]
            yy = yy * wf
        coef, res, rank, sv = exact_lstsq(na, yy)
        return coef

    def build(order_rows, col_spelling):
        proxy = NumpyProxy()
        proxy.polyfit_impl = polyfit_exact
        volumes = []
        for r in order_rows:
            sem = {}
            for name in col_spelling:
                key = ed._find_modulus_key(name)
                kk = "c%d%d" % key.v
                sem[key] = mod[kk][r]
            volumes.append(ed.ElastVolumeData(float(vols[r]), sem))
        data = ed.ElastData(float(vols[0]), nvol, 100.0, volumes, [])
        obj = object.__new__(fm.FullThermalElasticModulus)
        obj.calculator = PC.Obj()
        obj.calculator.v_array = v_array
        obj.elast_data = data
        out = {}

        def fn():
            with patched((fm, {"numpy": proxy})):
                for key in (c_("11"), c_("12"), c_("44")):
                    out["c%d%d" % key.v] = obj.get_static_modulus(key)
            return out
        return X.run_single_path(fn, name="C13:static")

    t0 = time.time()
    try:
        base = build(list(range(nvol)), ["c11", "c12", "c44"])
    except Exception as e:
        chk.inconclusive("C13 static base", "%s: %s" % (type(e).__name__, e))
        return
    variants = []
    for t in range(2 if tier == "quick" else 6):
        rest = list(range(1, nvol))
        rng.shuffle(rest)
        variants.append(("rows [0]+%s" % rest, [0] + rest, ["c11", "c12", "c44"]))
    variants.append(("columns reordered + upper case", list(range(nvol)), ["C44", "c12", "C_11"]))
    variants.append(("columns as 4-index / swapped", list(range(nvol)), ["c1122", "c2323", "c11"]))
    for name, rows, cols in variants:
        try:
            alt = build(rows, cols)
        except Exception as e:
            chk.obligation("static: " + name, "sat", kind="identity", detail="raises %s" % e)
            replay_static(chk, fm, ed, c_, rng, rows, cols, name)
            continue
        good = True
        for k in base:
            for (idx, a), (_, b) in zip(entries(base[k]), entries(alt[k])):
                if a.same(b):
                    continue
                v, env = Z.prove_zero(a - b, name="C13:static:" + name, timeout_ms=20000)
                if v != "unsat":
                    good = False
        chk.obligation("static: " + name, "unsat" if good else "sat", kind="identity", seconds=round(time.time() - t0, 2))
        if not good:
            replay_static(chk, fm, ed, c_, rng, rows, cols, name)
    # rows re-ordered so that another row comes first: the code's strain reference V0 = volumes[0] changes.  eps(V0', V) is an affine
    # function of eps(V0, V) and a cubic least-squares fit is invariant under affine maps of the abscissa, so the result must not move --
    # but only "to rounding", because the float design matrices are not exactly affinely related.  Both results are exact linear forms in
    # the symbolic table entries; z3 (LRA) is asked for entries in [-1, 1] on which they differ by more than 1e-6 of the form's own bound
    # (measured: the exact solutions on the two float design matrices differ by up to 1e-8 relative -- 1e-16 rounding of the strains times
    # the conditioning of the cubic Vandermonde system -- so 1e-6 is "to rounding" for this fit, and a genuine reference slip is O(1)).
    import z3 as _z3
    moved = [("rows reversed (reference row moves)", list(reversed(range(nvol)))), ("rows rotated by two (reference row moves)", [2, 3, 4, 5, 0, 1])]
    if tier != "quick":
        for t in range(4):
            rr = list(range(nvol))
            rng.shuffle(rr)
            if rr[0] != 0:
                moved.append(("rows %s (reference row moves)" % rr, rr))
    for name, rows in moved:
        t1 = time.time()
        try:
            alt = build(rows, ["c11", "c12", "c44"])
        except Exception as e:
            chk.obligation("static: " + name, "sat", kind="identity", detail="raises %s" % e)
            replay_static(chk, fm, ed, c_, rng, rows, ["c11", "c12", "c44"], name)
            continue
        worst = None
        for k in base:
            for (idx, a), (_, b) in zip(entries(base[k]), entries(alt[k])):
                d = a - b
                if d.is_zero():
                    continue
                bound = sum((abs(c) for c in a.t.values()), Fraction(0))       # sup of |a| over the box (a is linear in the entries)
                if os.environ.get("C13_DEBUG"):
                    print("DBG", name, k, idx, float(sum((abs(c) for c in d.t.values()), Fraction(0)) / bound), len(d.t), list(d.t.items())[:2])
                enc = Z.Encoder()
                td = enc.term(d)
                cons = [_z3.Or(td > _z3.RealVal(str(bound / 10 ** 6)), td < -_z3.RealVal(str(bound / 10 ** 6)))]
                for n_ in list(enc.zvars):
                    cons += [enc.zvars[n_] >= -1, enc.zvars[n_] <= 1]
                v, env = Z.check(cons, name="C13:static:" + name, enc=enc, logic="QF_LRA")
                if v != "unsat":
                    worst = (k, idx, v)
                    break
            if worst:
                break
        chk.obligation("static: %s: interpolated moduli agree to 1e-6 (relative to the form's bound) for all table entries in [-1,1]" % name,
                       "unsat" if not worst else worst[2], kind="identity(LRA, exact least squares on the float design matrix)", logic="QF_LRA",
                       seconds=round(time.time() - t1, 2), detail=dict(first_difference=str(worst[:2])) if worst else None)
        if worst and worst[2] == "sat":
            replay_static(chk, fm, ed, c_, rng, rows, ["c11", "c12", "c44"], name)
        elif worst:
            chk.inconclusive("static: " + name, "LRA query unknown")


def phonon_volume_order(chk, tier, rng):
    """Volume blocks of the phonon file listed in another order: same results or an error, never different numbers.

    V1 (hand-over): the real Calculator._load is executed with the file readers replaced by symbolic data objects whose blocks come in
        order pi; what it stores and what it hands to the QHA adapter must be the same object sequence for every pi (or it raises).
    V2 (only if V1 fails): the data are order-dependent when they reach the QHA layer; the real QHACalculator.read_input and qha's own
        Calculator.refine_grid / FinerGrid.refine_grid are executed on them with symbolic free energies F[t, block] (the numba fit kernel
        replaced by the exact least-squares specification on the float design matrix).  The dense free energies are linear forms in F;
        z3 (LRA) is asked for F in [-1,1]^n on which the two presentations differ by more than 1e-9.  A model is replayed through the
        real Calculator on the shipped example with permuted blocks."""
    import itertools
    import cij.core.calculator as cc
    import cij.core.qha_adapter as qa
    import cij.io.traditional.models as md
    import qha.grid_interpolation as gi
    chk.encode(cc.Calculator._load, qa.QHACalculator.read_input, gi.FinerGrid.refine_grid, gi.VolumeExpander.interpolate_volumes)
    nv, nq, np_, nt = 4, 2, 3, 2
    vol_values = [420.0, 395.0, 371.0, 350.0]
    perms = [tuple(range(nv)), tuple(reversed(range(nv))), (1, 2, 3, 0), (0, 2, 1, 3)]
    if tier != "quick":
        perms = list(itertools.permutations(range(nv)))
    ctx = new_context()
    E = [ctx.var("E%d" % i) for i in range(nv)]
    P = [ctx.var("P%d" % i) for i in range(nv)]
    W = symvars("w", (nv, nq, np_), positive=True)
    F = symvars("F", (nt, nv), lo=-1, hi=1)

    def blocks(perm):
        vols = [md.VolumeData(P[r], vol_values[r], E[r], [md.QPointData((0.0, 0.0, 0.25 * j), list(W[r, j])) for j in range(nq)]) for r in perm]
        return md.QHAInputData(nv, nq, np_, 1, np_ // 3, [md.QPointWeight((0.0, 0.0, 0.25 * j), 1.0) for j in range(nq)], vols)

    def load(perm):
        rec = {}
        fake = PC.Obj()
        fake.io = PC.Obj()
        fake.io.traditional = PC.Obj()
        fake.io.read_config = lambda fn: {"qha": {"input": "input01", "settings": {}}, "elast": {"input": "input02", "settings": {}}}
        fake.io.apply_default_config = lambda c: c
        fake.io.traditional.read_energy = lambda fn: blocks(perm)
        fake.io.traditional.read_elast_data = lambda fn: "elast-data"

        def adapter(settings, qha_input):
            rec["adapter"] = qha_input
            return "adapter"
        calc = object.__new__(cc.Calculator)
        with patched((cc, {"cij": fake, "QHACalculatorAdapter": adapter})):
            calc._load("settings.yaml")
        rec["stored"] = calc.qha_input
        return rec

    def signature(qin):
        return [(float(v.volume), Sym.of(v.energy).key(), Sym.of(v.pressure).key(),
                 tuple(tuple(Sym.of(x).key() for x in q.modes) for q in q_points_of(v))) for v in qin.volumes]

    def q_points_of(v):
        return v.q_points

    t0 = time.time()
    handover = {}
    stored = {}
    raised = {}
    # the spectrum handed on is the file's: within every (volume, q-point) block the modes keep the order they are listed in (the columns
    # are branches followed through the volumes); a loader that compares frequencies is explored on every outcome of its comparisons
    try:
        paths0 = X.explore(lambda: load(perms[0]), name="C13:_load(modes)", max_paths=24)
        want_modes = {float(v.volume): tuple(tuple(Sym.of(x).key() for x in q.modes) for q in v.q_points) for v in blocks(perms[0]).volumes}
        moved = None
        for p in paths0:
            if p.exception is not None:
                continue
            for which in ("adapter", "stored"):
                for v in p.result[which].volumes:
                    got = tuple(tuple(Sym.of(x).key() for x in q.modes) for q in v.q_points)
                    if got != want_modes[float(v.volume)]:
                        moved = moved or (which, float(v.volume))
        chk.obligation("Calculator._load hands every (volume, q-point) block on with its modes in the listed order [%d paths]" % len(paths0),
                       "unsat" if moved is None else "sat", kind="wiring", detail=moved)
        if moved is not None:
            replay_mode_order(chk, "modes of the block at V = %s re-ordered (%s)" % (moved[1], moved[0]))
            return
    except SymError as e:
        n0 = len(chk.violations) + len(chk.known_hits)
        replay_mode_order(chk, "symbolic run stopped: %s" % e)
        if len(chk.violations) + len(chk.known_hits) == n0:
            chk.inconclusive("mode order at the hand-over", str(e))
        return
    for perm in perms:
        try:
            rec = X.run_single_path(lambda: load(perm), name="C13:_load")
            handover[perm] = (signature(rec["adapter"]), signature(rec["stored"]))
            stored[perm] = (rec["adapter"], rec["stored"])
        except SymError as e:
            chk.inconclusive("phonon volume-block order: hand-over %s" % (perm,), str(e))
            return
        except Exception as e:
            raised[perm] = e
    base = handover.get(perms[0])
    differing = [pm for pm in perms if pm in handover and handover[pm] != base]
    if base is not None and not differing:
        chk.obligation("phonon volume blocks in %d orders: Calculator._load stores and hands to the QHA layer the same block sequence "
                       "(or rejects the order)" % len(perms), "unsat", seconds=round(time.time() - t0, 2), kind="wiring",
                       detail=dict(rejected=[list(pm) for pm in raised]))
        return
    # V2: the order reaches the QHA layer -- is the QHA grid refinement invariant under it?
    from symnum.exactlift import exact_lstsq

    def fit_exact(strains_sparse, free_energies, strains_dense, order=3):
        xs = numpy.vander(numpy.asarray(strains_sparse, dtype=float), order + 1, increasing=True)
        xd = numpy.vander(numpy.asarray(strains_dense, dtype=float), order + 1, increasing=True)
        fe = numpy.asarray(free_energies, dtype=object)
        out = numpy.empty((fe.shape[0], xd.shape[0]), dtype=object)
        for i in range(fe.shape[0]):
            a, _, _, _ = exact_lstsq(xs, fe[i])
            for j in range(xd.shape[0]):
                out[i, j] = sum((Sym.of(a[k]) * Fraction(float(xd[j, k])) for k in range(order + 1)), Sym({}))
        return out

    def refine(qin, perm):
        calc = object.__new__(qa.QHACalculator)
        calc._settings = {"P_MIN": 0.0, "p_min_modifier": 1.0, "NTV": 5, "order": 3, "volume_ratio": 1.2}
        qa.QHACalculator.read_input(calc, qin)
        if calc._volumes.dtype == object:
            calc._volumes = calc._volumes.astype(float)
        block_of = [vol_values.index(float(v)) for v in calc._volumes]         # free energies belong to blocks, whatever read_input did to the order
        calc.__dict__["_vib_ry"] = numpy.array([[F[t, r] for r in block_of] for t in range(nt)], dtype=object)
        with patched((gi, {"apply_finite_strain_fitting": fit_exact})):
            calc.refine_grid()
        return numpy.asarray(calc._finer_volumes_bohr3, dtype=float), numpy.asarray(calc._f_tv_ry, dtype=object)

    try:
        settings_ok = True
        ref_v, ref_f = X.run_single_path(lambda: refine(blocks(perms[0]), perms[0]), name="C13:refine")
    except Exception as e:
        chk.inconclusive("phonon volume-block order: QHA grid refinement (base order)", "%s: %s" % (type(e).__name__, e))
        return
    bad = None
    for perm in differing:
        order_seen = [vol_values.index(x[0]) for x in handover[perm][0]]
        try:
            v, f = X.run_single_path(lambda: refine(stored[perm][0], tuple(order_seen)), name="C13:refine")
        except Exception:
            continue     # rejected with an error: allowed
        if numpy.abs(v - ref_v).max() > 1e-9 * numpy.abs(ref_v).max():
            bad = (perm, "the refined volume grid itself differs", None)
            break
        for idx in numpy.ndindex(*ref_f.shape):
            d = Sym.of(f[idx]) - Sym.of(ref_f[idx])
            tol = Fraction(1, 10 ** 9)
            enc = Z.Encoder()
            t = enc.term(d)
            import z3 as _z3
            cons = [_z3.Or(t > _z3.RealVal(str(tol)), t < -_z3.RealVal(str(tol)))] + enc.side_conditions()
            verdict, env = Z.check(cons, name="C13:volume-order:F(T,V)", enc=enc, logic="QF_LRA")
            if verdict != "unsat":
                bad = (perm, "dense free energy F[%d,%d] differs by more than 1e-9 for free energies in [-1,1]" % idx, env)
                break
        if bad:
            break
    chk.obligation("phonon volume blocks in %d orders: the order reaches the QHA layer; qha's grid refinement (reference volumes[0] vs "
                   "largest volume) gives the same dense free energies" % len(perms), "unsat" if not bad else "sat",
                   seconds=round(time.time() - t0, 2), kind="identity(LRA, exact least squares)", logic="QF_LRA",
                   detail=dict(order=list(bad[0]), what=bad[1]) if bad else None)
    if bad:
        replay_volume_order(chk, bad[0], bad[1])
        return
    # V3: the stored data (what interpolate_modes receives) still carry the file order -- is the mode interpolation invariant under it?
    import cij.core.mode_gamma as mg
    import scipy.interpolate as real_si
    from harness.c11 import make_scipy_stub, Interp
    chk.encode(mg.interpolate_modes)
    v_arr = symvars("vg", (2,), positive=True)
    bad3 = None
    t3 = time.time()
    for method, order in (("lsq_poly", 2), ("krogh", 2), ("lagrange", 3)):
        outs = {}
        for perm in [perms[0]] + [pm for pm in differing if signature(stored[pm][1]) != signature(stored[perms[0]][1])]:
            created = []
            proxy = NumpyProxy()

            def polyder(p_, m=1):
                if isinstance(p_, Interp):
                    return Interp(p_.kind, p_.x, p_.y, p_.kwargs, nu=p_.nu + m)
                return numpy.polyder(p_, m)
            proxy.extra["polyder"] = polyder
            sstub = PC.Obj()
            sstub.interpolate = make_scipy_stub(real_si, created)
            try:
                def run_modes():
                    with patched((mg, {"numpy": proxy, "scipy": sstub})):
                        return mg.interpolate_modes(stored[perm][1], v_arr, method=method, order=order)
                ex = X.Explorer(max_paths=4, name="C13:modes")
                ex.prefer = lambda cond: (True if cond[1] == "!=" else (False if cond[1] == "==" else None)) if cond[0] == "rel" else None
                pths = ex.run(run_modes)
                if pths[0].exception is not None:
                    raise pths[0].exception
                outs[perm] = pths[0].result
            except Exception as e_:
                if os.environ.get("C13_DEBUG"):
                    import traceback; traceback.print_exc()
                outs[perm] = None          # rejected with an error: allowed
        ref = outs.get(perms[0])
        if os.environ.get("C13_DEBUG"):
            print("DBG3", method, {k: (None if v is None else str(numpy.asarray(v[1], dtype=object).ravel()[-1])[:150]) for k, v in outs.items()})
        if ref is None:
            continue
        for perm, o in outs.items():
            if o is None or perm == perms[0]:
                continue
            for a, b in zip(ref, o):
                fa, fb = numpy.asarray(a, dtype=object).ravel(), numpy.asarray(b, dtype=object).ravel()
                if fa.shape != fb.shape or not all(Sym.of(x).same(y) or Z.prove_equal(Sym.of(x), Sym.of(y), name="C13:modes:" + method)[0] == "unsat" for x, y in zip(fa, fb)):
                    bad3 = (perm, method, order)
                    break
            if bad3:
                break
        if bad3:
            break
    chk.obligation("phonon volume blocks: the file order reaches interpolate_modes; interpolated (omega, gamma, V dgamma/dV) identical for every "
                   "order (lsq_poly exact least squares; krogh / lagrange as uninterpreted interpolants of their node sets)",
                   "unsat" if not bad3 else "sat", seconds=round(time.time() - t3, 2), kind="identity(uninterpreted interpolants)",
                   detail=dict(order=list(bad3[0]), method=bad3[1]) if bad3 else None)
    if bad3:
        replay_volume_order(chk, bad3[0], "interpolate_modes(%s) depends on the order of the volume blocks" % bad3[1], method=bad3[1], order=bad3[2])


def static_rows_handover(chk, tier, rng):
    """Rows of the static table (with its lattice block) presented in another order: whatever Calculator._load does with them (it may
    re-order them), each row's volume must stay paired with that row's components and that row's lattice parameters, and the hand-over must
    be the same for every presentation (or an error)."""
    import itertools
    import cij.core.calculator as cc
    import cij.io.traditional.models as md
    import cij.io.traditional.elast_dat as ed
    from cij.util import c_
    nv = 4
    vol_values = [420.0, 395.0, 371.0, 350.0]
    perms = [tuple(range(nv)), tuple(reversed(range(nv))), (1, 2, 3, 0), (0, 2, 1, 3), (2, 0, 3, 1)]
    if tier != "quick":
        perms = list(itertools.permutations(range(nv)))
    ctx = new_context()
    TAB = {k: [ctx.var("t_%s_%d" % (k, r)) for r in range(nv)] for k in ("c11", "c12", "c44")}
    LAT = [[ctx.var("lat_%d_%d" % (r, a), positive=True) for a in range(3)] for r in range(nv)]
    E = [ctx.var("E%d" % i) for i in range(nv)]

    def phonon():
        vols = [md.VolumeData(0.0, vol_values[r], E[r], [md.QPointData((0.0, 0.0, 0.0), [1.0, 2.0, 3.0])]) for r in range(nv)]
        return md.QHAInputData(nv, 1, 3, 1, 1, [md.QPointWeight((0.0, 0.0, 0.0), 1.0)], vols)

    def table(perm):
        rows = [ed.ElastVolumeData(vol_values[r], {c_(k[1:]): TAB[k][r] for k in TAB}) for r in perm]
        return ed.ElastData(vol_values[0], nv, 100.0, rows, [list(LAT[r]) for r in perm])

    def load(perm):
        fake = PC.Obj()
        fake.io = PC.Obj()
        fake.io.traditional = PC.Obj()
        fake.io.read_config = lambda fn: {"qha": {"input": "input01", "settings": {}}, "elast": {"input": "input02", "settings": {}}}
        fake.io.apply_default_config = lambda c: c
        fake.io.traditional.read_energy = lambda fn: phonon()
        fake.io.traditional.read_elast_data = lambda fn: table(perm)
        calc = object.__new__(cc.Calculator)
        with patched((cc, {"cij": fake, "QHACalculatorAdapter": lambda settings, qha_input: "adapter"})):
            calc._load("settings.yaml")
        return calc.elast_data

    def triples(data):
        lat = list(data.lattice_parmeters)
        out = []
        for i, row in enumerate(data.volumes):
            out.append((float(row.volume), tuple(sorted((repr(k), Sym.of(v).key()) for k, v in row.static_elastic_modulus.items())),
                        tuple(Sym.of(x).key() for x in lat[i]) if i < len(lat) else None))
        return out
    want = sorted(triples(table(perms[0])))
    t0 = time.time()
    fails = []
    seen = {}
    for perm in perms:
        try:
            got = triples(X.run_single_path(lambda: load(perm), name="C13:_load(static)"))
        except SymError as e:
            chk.inconclusive("static rows hand-over %s" % (perm,), str(e))
            return
        except Exception:
            continue            # rejected with an error: allowed
        if sorted(got) != want:
            fails.append((perm, "rows presented in order %s: a row's volume is no longer paired with its own components / lattice parameters" % (perm,)))
        seen[perm] = got
    chk.obligation("static-table rows (with lattice block) in %d orders: Calculator._load keeps every row's volume, components and lattice "
                   "parameters together" % len(perms), "unsat" if not fails else "sat", seconds=round(time.time() - t0, 2), kind="wiring",
                   detail=[f[1] for f in fails[:2]])
    chk.witness("static rows hand-over: at least one permuted presentation was accepted", "sat" if len(seen) > 1 or fails else "unsat")
    if fails:
        replay_static_rows(chk, fails[0][0], fails[0][1])


def replay_static_rows(chk, perm, what):
    """Real Calculator on the shipped akimotoite example (it has a lattice block) with the rows of input02 -- and the lattice rows with them --
    rotated / shuffled; results compared with the shipped presentation."""
    import shutil
    import tempfile
    import yaml
    from cij.core.calculator import Calculator
    src = os.path.join(os.environ.get("CIJ_REPO", "/repo"), "examples", "akimotoite")
    lines = open(os.path.join(src, "input02")).read().split("\n")
    n = int(lines[1].split()[1])
    rows = lines[3:3 + n]
    rest = lines[3 + n:]
    lat_at = next(i for i, l in enumerate(rest) if l.strip() and not l.strip()[0].isdigit())
    lat_rows = [l for l in rest[lat_at + 1:] if l.strip()]

    def run(order):
        d = tempfile.mkdtemp(prefix="c13sr_")
        try:
            shutil.copy(os.path.join(src, "input01"), d)
            with open(os.path.join(d, "input02"), "w") as fp:
                fp.write("\n".join(lines[:3] + [rows[i] for i in order] + rest[:lat_at + 1] + [lat_rows[i] for i in order]) + "\n")
            cfg = yaml.safe_load(open(os.path.join(src, "settings.yaml")))
            cfg["qha"]["settings"].update(NT=6, NTV=41)
            with open(os.path.join(d, "settings.yaml"), "w") as fp:
                yaml.safe_dump(cfg, fp)
            c = Calculator(os.path.join(d, "settings.yaml"))
            return {"adiabatic c%d%d(T,V)" % k.v: numpy.array(v) for k, v in c.modulus_adiabatic.items()}
        finally:
            shutil.rmtree(d, ignore_errors=True)
    import logging
    logging.disable(logging.CRITICAL)
    try:
        with numpy.errstate(all="ignore"), warnings.catch_warnings():
            warnings.simplefilter("ignore")
            base = run(list(range(n)))
            for name, order in (("rotated by one", list(range(1, n)) + [0]), ("rotated by three", list(range(3, n)) + [0, 1, 2]), ("reversed", list(range(n))[::-1])):
                try:
                    alt = run(order)
                except Exception:
                    continue
                for k in base:
                    a, b = base[k], alt[k]
                    if a.shape != b.shape or not numpy.nanmax(numpy.abs(a - b)) <= 1e-6 * numpy.nanmax(numpy.abs(a)):
                        chk.violation("static:row-order", "examples/akimotoite with the rows of the static table (and of its lattice block) %s: no error, but %s "
                                      "differs by %.3g relative from the shipped order" % (name, k, float(numpy.nanmax(numpy.abs(a - b)) / numpy.nanmax(numpy.abs(a)))),
                                      dict(order=name))
                        return
    finally:
        logging.disable(logging.NOTSET)
    chk.harness_error("C13 static rows: '%s' did not reproduce on the real calculator" % what)


def replay_mode_order(chk, what):
    """Real readers + real Calculator._load (QHA adapter not built) on the akimotoite phonon file in which two branches of one q-point cross
    (listed by branch, not by frequency): the loaded spectrum must be the file's, block by block."""
    import shutil
    import tempfile
    import cij.core.calculator as cc
    import cij.io.traditional.qha_input as qi
    src = os.path.join(os.environ.get("CIJ_REPO", "/repo"), "examples", "akimotoite")
    d = tempfile.mkdtemp(prefix="c13mo_")
    try:
        data = qi.read_energy(os.path.join(src, "input01"))
        vols = []
        for iv, v in enumerate(data.volumes):
            qps = list(v.q_points)
            if iv < len(data.volumes) // 2:
                m = list(qps[1].modes)
                m[3], m[4] = m[4], m[3]          # the two branches cross between the first and the second half of the volumes
                qps[1] = qps[1]._replace(modes=m)
            vols.append(v._replace(q_points=qps))
        qi.write_energy(os.path.join(d, "input01"), data._replace(volumes=vols))
        shutil.copy(os.path.join(src, "input02"), d)
        shutil.copy(os.path.join(src, "settings.yaml"), d)
        listed = {round(v.volume, 6): [list(q.modes) for q in v.q_points] for v in qi.read_energy(os.path.join(d, "input01")).volumes}
        calc = object.__new__(cc.Calculator)
        import logging
        logging.disable(logging.CRITICAL)
        try:
            with patched((cc, {"QHACalculatorAdapter": lambda settings, qha_input: None})):
                calc._load(os.path.join(d, "settings.yaml"))
        finally:
            logging.disable(logging.NOTSET)
        for v in calc.qha_input.volumes:
            got = [list(q.modes) for q in v.q_points]
            if got != listed[round(v.volume, 6)]:
                j = next(i for i in range(len(got)) if got[i] != listed[round(v.volume, 6)][i])
                chk.violation("phonon:mode-order", "Calculator._load re-orders the modes inside a (volume, q-point) block: file lists %s ... for V = %.4f, q-point %d, "
                              "the calculation works with %s ... (branches that cross are no longer followed through the volumes)" % (
                                  [round(x, 3) for x in listed[round(v.volume, 6)][j][2:6]], v.volume, j + 1, [round(x, 3) for x in got[j][2:6]]), {})
                return
    except Exception as e:
        chk.harness_error("C13 mode order replay failed: %s: %s" % (type(e).__name__, e))
        return
    finally:
        shutil.rmtree(d, ignore_errors=True)
    chk.harness_error("C13 mode order: '%s' did not reproduce on the real loader" % what)


def replay_volume_order(chk, perm, what, method="lsq_poly", order=3):
    """Real Calculator on the shipped akimotoite example with the volume blocks of input01 re-ordered (lsq_poly, the packaged default)."""
    import shutil
    import tempfile
    import yaml
    import cij.io.traditional.qha_input as qi
    from cij.core.calculator import Calculator
    src = os.path.join(os.environ.get("CIJ_REPO", "/repo"), "examples", "akimotoite")
    if not os.path.exists(os.path.join(src, "input01")):
        chk.harness_error("C13 volume order: example files missing, '%s' not replayed" % what)
        return

    def run(arrangement):
        d = tempfile.mkdtemp(prefix="c13vo_")
        try:
            data = qi.read_energy(os.path.join(src, "input01"))
            vols = list(data.volumes)
            if arrangement == "reversed":
                vols = vols[::-1]
            elif arrangement == "rotated":
                vols = vols[1:] + vols[:1]
            qi.write_energy(os.path.join(d, "input01"), data._replace(volumes=vols))
            shutil.copy(os.path.join(src, "input02"), os.path.join(d, "input02"))
            cfg = yaml.safe_load(open(os.path.join(src, "settings.yaml")))
            cfg["elast"]["settings"]["mode_gamma"] = {"interpolator": method, "order": order}
            cfg["qha"]["settings"]["NT"] = 6
            with open(os.path.join(d, "settings.yaml"), "w") as fp:
                yaml.safe_dump(cfg, fp)
            c = Calculator(os.path.join(d, "settings.yaml"))
            out = {"QHA pressure P(T,V)": numpy.array(c.qha_calculator.volume_base.pressures)}
            for k, v in c.modulus_adiabatic.items():
                out["adiabatic c%d%d(T,V)" % k.v] = numpy.array(v)
            return numpy.array(c.qha_calculator.v_array), out
        finally:
            shutil.rmtree(d, ignore_errors=True)
    import logging
    logging.disable(logging.CRITICAL)
    try:
        with numpy.errstate(all="ignore"):
            v0, base = run("original")
            for arrangement in ("reversed", "rotated"):
                try:
                    v1, alt = run(arrangement)
                except Exception:
                    continue      # rejected with an error: allowed by the property
                for k in base:
                    a, b = base[k], alt[k]
                    if a.shape != b.shape or v0.shape != v1.shape or numpy.nanmax(numpy.abs(a - b)) > 1e-6 * numpy.nanmax(numpy.abs(a)):
                        rel = float(numpy.nanmax(numpy.abs(a - b)) / numpy.nanmax(numpy.abs(a))) if a.shape == b.shape else None
                        chk.violation("phonon:volume-order", ("examples/akimotoite with the volume blocks of input01 listed in %s order (interpolator " + method + "): no error, "
                                       "but %s differs by %s relative from the original order") % (arrangement, k, "%.3g" % rel if rel is not None else "shape"),
                                      dict(order=arrangement, quantity=k, relative=rel, interpolator=method))
                        return
    finally:
        logging.disable(logging.NOTSET)
    chk.harness_error("C13 volume order: '%s' did not reproduce on the real calculator" % what)


def static_reader_side(chk, tier, rng):
    """Rows of the static file (modulus block and lattice block permuted together) in any order: the real reader must return the same
    physical records -- volume, its moduli and its lattice parameters stay together.  Numeric fields are opaque tokens (C17 mechanism);
    the volume tokens carry an assumed strict order so that any ordering logic in the reader is decided by the solver."""
    import itertools
    import tempfile
    import cij.io.traditional.elast_dat as ed
    from harness.c17 import Tokens
    from cij.util import c_
    chk.encode(ed.read_elast_data)
    nv = 3 if tier == "quick" else 4
    cols = ["c11", "C12", "c_44"]
    perms = [p for p in itertools.permutations(range(nv))]
    if tier == "quick":
        perms = [(0, 1, 2), (1, 2, 0), (2, 0, 1), (2, 1, 0), (0, 2, 1)]
    for descending in (True, False):
        for perm in perms:
            name = "static file rows in order %s (volumes %s): records intact through read_elast_data" % (list(perm), "descending by row id" if descending else "ascending by row id")
            ctx = new_context()
            tk = Tokens(ctx)
            vol = [tk.new("tV%d" % i) for i in range(nv)]
            for i in range(nv - 1):
                d = tk.names[vol[i]] - tk.names[vol[i + 1]]
                ctx.assume(">", d if descending else -d)
            ctx.assume(">", tk.names[vol[-1] if descending else vol[0]])
            tab = [[tk.new("t_%d_%d" % (i, j)) for j in range(len(cols))] for i in range(nv)]
            lat = [[tk.new("tL_%d_%d" % (i, a)) for a in range(3)] for i in range(nv)]
            lines = ["comment", "%s %d %s" % (tk.new("tVref"), nv, tk.new("tMass")), "V " + " ".join(cols)]
            lines += [" ".join([vol[r]] + tab[r]) for r in perm]
            lines += ["lattice parameters"] + ["  ".join(lat[r]) for r in perm]
            with tempfile.NamedTemporaryFile("w", suffix=".dat", delete=False) as fp:
                fp.write("\n".join(lines) + "\n")
                fn = fp.name
            t0 = time.time()
            fails = []
            try:
                with patched((ed, {"float": tk.float})):
                    paths = X.Explorer(max_paths=64, name="C13:reader").run(lambda: ed.read_elast_data(fn))
            except (SymError, X.PathBudgetExceeded) as e:
                chk.inconclusive(name, str(e))
                continue
            finally:
                os.unlink(fn)
            for p in paths:
                pc = p.path_condition()
                if p.exception is not None:
                    fails.append("raises %s: %s" % (type(p.exception).__name__, p.exception))
                    continue
                data = p.result
                if len(data.volumes) != nv or len(data.lattice_parmeters) != nv:
                    fails.append("%d rows / %d lattice rows returned" % (len(data.volumes), len(data.lattice_parmeters)))
                    continue
                seen = set()
                for i in range(nv):
                    src = [r for r in range(nv) if Z.prove_equal(Sym.of(data.volumes[i].volume), tk.names[vol[r]], name="C13:reader:volume", conds=pc)[0] == "unsat"]
                    if len(src) != 1:
                        fails.append("returned row %d is not one of the file's volumes" % i)
                        continue
                    r = src[0]
                    seen.add(r)
                    mod = data.volumes[i].static_elastic_modulus
                    for j, cn in enumerate(cols):
                        key = c_("".join(ch for ch in cn if ch.isdigit()))
                        if key not in mod or Z.prove_equal(Sym.of(mod[key]), tk.names[tab[r][j]], name="C13:reader:modulus", conds=pc)[0] != "unsat":
                            fails.append("modulus %s returned with the volume of file record %d is not that record's" % (cn, r))
                    for a in range(3):
                        if Z.prove_equal(Sym.of(data.lattice_parmeters[i][a]), tk.names[lat[r][a]], name="C13:reader:lattice", conds=pc)[0] != "unsat":
                            fails.append("lattice parameter %d paired with the volume of file record %d is not that record's" % (a, r))
                if len(seen) != nv:
                    fails.append("a record is lost or duplicated")
            chk.obligation(name, "unsat" if not fails else "sat", seconds=round(time.time() - t0, 2), kind="reader-structure", detail=fails[:3])
            if fails:
                replay_reader(chk, ed, c_, perm, descending, cols, fails[0])


def replay_reader(chk, ed, c_, perm, descending, cols, what):
    import tempfile
    nv = len(perm)
    vol = [400.0 - 20 * i if descending else 300.0 + 20 * i for i in range(nv)]
    tab = [[100.0 * (i + 1) + 7 * j for j in range(len(cols))] for i in range(nv)]
    lat = [[5.0 + 0.1 * i + 0.01 * a for a in range(3)] for i in range(nv)]
    lines = ["comment", "%.3f %d %.3f" % (vol[0], nv, 100.0), "V " + " ".join(cols)]
    lines += [" ".join(["%.3f" % vol[r]] + ["%.3f" % x for x in tab[r]]) for r in perm]
    lines += ["lattice parameters"] + ["  ".join("%.4f" % x for x in lat[r]) for r in perm]
    with tempfile.NamedTemporaryFile("w", suffix=".dat", delete=False) as fp:
        fp.write("\n".join(lines) + "\n")
        fn = fp.name
    try:
        d = ed.read_elast_data(fn)
    except Exception as e:
        chk.violation("static-file:raises", "read_elast_data raises %s: %s for rows in order %s" % (type(e).__name__, e, list(perm)), dict(lines=lines))
        return
    finally:
        os.unlink(fn)
    for i in range(len(d.volumes)):
        r = vol.index(d.volumes[i].volume) if d.volumes[i].volume in vol else None
        if r is None or len(d.lattice_parmeters) != nv or [round(x, 6) for x in d.lattice_parmeters[i]] != [round(x, 6) for x in lat[r]] or any(
                d.volumes[i].static_elastic_modulus.get(c_("".join(ch for ch in cn if ch.isdigit()))) != tab[r][j] for j, cn in enumerate(cols)):
            chk.violation("static-file:records", "static table with rows listed in order %s: the record returned for V=%s carries lattice parameters %s "
                          "(file: %s) -- volume, moduli and lattice parameters of one row are separated" % (
                              list(perm), d.volumes[i].volume, list(d.lattice_parmeters[i]) if len(d.lattice_parmeters) > i else None,
                              lat[r] if r is not None else None), dict(lines=lines))
            return
    chk.harness_error("C13 reader: '%s' did not reproduce" % what)


def replay_static(chk, fm, ed, c_, rng, rows, cols, name):
    nvol = len(rows)
    vols = [400.0 - 20 * i for i in range(nvol)]
    v_array = numpy.array([410.0, 380.0, 350.0, 330.0, 300.0, 290.0])
    vals = {k: [rng.uniform(50, 400) + 3 * i for i in range(nvol)] for k in ("c11", "c12", "c44")}

    def run(order_rows, spelling):
        volumes = []
        for r in order_rows:
            sem = {}
            for nm in spelling:
                key = ed._find_modulus_key(nm)
                sem[key] = vals["c%d%d" % key.v][r]
            volumes.append(ed.ElastVolumeData(vols[r], sem))
        obj = object.__new__(fm.FullThermalElasticModulus)
        obj.calculator = PC.Obj()
        obj.calculator.v_array = v_array
        obj.elast_data = ed.ElastData(vols[0], nvol, 100.0, volumes, [])
        return {k: obj.get_static_modulus(c_(k[1:])) for k in ("c11", "c12", "c44")}
    try:
        a = run(list(range(nvol)), ["c11", "c12", "c44"])
        b = run(rows, cols)
    except Exception as e:
        chk.violation("static:raises", "static interpolation raises %s: %s for %s" % (type(e).__name__, str(e)[:120], name), {})
        return
    for k in a:
        if numpy.abs(a[k] - b[k]).max() > 1e-8 * numpy.abs(a[k]).max():
            chk.violation("static:presentation", "%s changes the interpolated static %s by %.3g relative" % (
                name, k, numpy.abs(a[k] - b[k]).max() / numpy.abs(a[k]).max()), dict(variant=name))
            return
    chk.harness_error("C13 static: '%s' did not reproduce" % name)


def main():
    tier = os.environ.get("VERIF_TIER", "quick")
    if len(sys.argv) > 1:
        tier = sys.argv[1]
    chk = Check("C13", tier, "symbolic execution of the real phonon pipeline and of the static fit on re-presented symbolic data; z3 "
                             "decides equality of the output polynomials")
    tk, sh, ns, c_ = PL.modules()
    chk.encode(ns.average_over_modes, tk.PhononContributionTaskList)
    Z.reset_log()
    rng = random.Random(seed() + 13)
    phonon_side(chk, tier, rng)
    static_side(chk, tier, rng)
    lattice_scale(chk, tier, rng)
    static_reader_side(chk, tier, rng)
    phonon_volume_order(chk, tier, rng)
    static_rows_handover(chk, tier, rng)
    chk.bound(shape="nq=3, np=3 (thorough np=6, nv=2)", q_permutations="all of q-points 2..nq", mode_permutations="seeded, Gamma acoustic slots fixed",
              static="6 volumes, rows permuted with row 0 (strain reference) first")
    chk.stub("numpy.polyfit -> exact least squares on the concrete Vandermonde matrix (static fit); eigh -> exact lift")
    chk.assume("exact-identity re-presentations keep row 0 of the static table (the code's strain reference) first; re-orderings that move it "
               "are decided to 1e-6 on concrete volume grids with symbolic table entries")
    chk.out_of_claim("executing qha and scipy on permuted phonon volume blocks (the order is normalised before they are reached, which is what "
                     "is decided); the affine invariance of the static fit for symbolic volumes (decided on concrete grids only); rounding")
    return chk.finish("Each re-presentation is executed symbolically through the same real code and every output polynomial is shown "
                      "equal to the one of the original presentation (weights scale symbolic).")


if __name__ == "__main__":
    run_main(main)
