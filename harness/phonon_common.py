"""Shared pieces of the phonon-contribution harnesses (C01, C02, C04, C12, C13):
symbolic duck calculator, physical constants as named symbols, oracle assembly,
concrete replay of solver models against the real (unstubbed) classes."""
from __future__ import annotations

import math
import random
from fractions import Fraction

import numpy

from symnum import sym as S
from symnum.sym import Sym, symarray, symvars


class Obj:
    pass


# --------------------------------------------------------------------------------------
# constants: independent CODATA route (scipy.constants only; no pint, no cij)
# --------------------------------------------------------------------------------------
def codata_constants():
    import scipy.constants as sc
    pc = sc.physical_constants
    ry_j = pc["Rydberg constant times hc in J"][0]
    H = pc["Planck constant"][0] * pc["speed of light in vacuum"][0] * 100.0 / ry_j     # Ry*cm
    K = pc["Boltzmann constant"][0] / ry_j                                              # Ry/K
    HK = pc["second radiation constant"][0] * 100.0                                     # cm*K
    return H, K, HK


def declare_constants(ctx):
    """H (Ry cm), K (Ry/K) as positive symbols; doubles within 1e-8 of small multiples of the
    independently derived CODATA values (and of H/K, K^2) are read as those symbols."""
    Hv, Kv, HKv = codata_constants()
    H = ctx.var("H", positive=True, kind="const")
    K = ctx.var("K", positive=True, kind="const")
    ctx.vars["H"]["value_hint"] = Hv
    ctx.vars["K"]["value_hint"] = Kv
    ctx.name_float(Hv, H, rtol=1e-8, max_den=64)
    ctx.name_float(Kv, K, rtol=1e-8, max_den=64)
    ctx.name_float(HKv, H / K, rtol=1e-8, max_den=64)
    ctx.name_float(Kv * Kv, K * K, rtol=1e-8, max_den=64)
    return H, K, (Hv, Kv, HKv)


# --------------------------------------------------------------------------------------
# symbolic duck calculator
# --------------------------------------------------------------------------------------
def make_duck(ctx, nq, np_, nv, n_sym_T=1, with_T0=True, gamma_acoustic_zero=True, tag="", t0_last=False):
    """A plain object exposing exactly what the anchored classes read."""
    temps = ([Sym({})] if with_T0 else []) + [ctx.var("T%d%s" % (i + 1, tag), positive=True) for i in range(n_sym_T)]
    if t0_last and with_T0:
        temps = temps[1:] + temps[:1]      # the T=0 row is not the first one: masking must go by value, not by position
    nt = len(temps)
    d = Obj()
    d.nq, d.np, d.nv, d.na = nq, np_, nv, np_ // 3
    d.t_array = symarray(temps)
    d.v_array = symvars("V" + tag, (nv,), positive=True)
    freq = symvars("w" + tag, (nv, nq, np_), positive=True)
    gam = symvars("g" + tag, (nv, nq, np_))
    dlt = symvars("d" + tag, (nv, nq, np_))
    if gamma_acoustic_zero:
        for a in (freq, gam, dlt):
            a[:, 0, 0:3] = Sym({})
    d.freq_array = freq
    d.gamma = gam
    d.delta = dlt
    d.mode_gamma = [dlt, gam, gam ** 2]
    d.weights = symvars("wt" + tag, (nq,), positive=True)
    d.qha_input = Obj()
    d.qha_input.weights = [((0.0, 0.0, float(i)), w) for i, w in enumerate(d.weights)]
    d.static_p_array = symvars("Pst" + tag, (nv,))
    d.qha_calculator = Obj()
    d.qha_calculator.volume_base = Obj()
    d.pressures = symvars("P" + tag, (nt, nv))
    d.heat_capacity = symvars("CV" + tag, (nt, nv), positive=True)
    d.qha_calculator.volume_base.pressures = d.pressures
    d.qha_calculator.volume_base.heat_capacity = d.heat_capacity
    d.nt = nt
    return d


def concretise_duck(d, env, gamma_zero=True):
    """Float copy of the duck calculator at the point `env` (name -> float)."""
    def ev(a):
        arr = numpy.empty(a.shape, dtype=float)
        for idx in numpy.ndindex(*a.shape):
            arr[idx] = Sym.of(a[idx]).evalf(dict(env))
        return arr
    c = Obj()
    c.nq, c.np, c.nv, c.na = d.nq, d.np, d.nv, d.na
    c.t_array = ev(d.t_array)
    c.v_array = ev(d.v_array)
    c.freq_array = ev(d.freq_array)
    gam = ev(d.gamma)
    dlt = ev(d.delta)
    c.mode_gamma = [dlt, gam, gam ** 2]
    c.qha_input = Obj()
    wts = ev(d.weights)
    c.qha_input.weights = [((0.0, 0.0, float(i)), float(w)) for i, w in enumerate(wts)]
    c.static_p_array = ev(d.static_p_array)
    c.qha_calculator = Obj()
    c.qha_calculator.volume_base = Obj()
    c.qha_calculator.volume_base.pressures = ev(d.pressures)
    c.qha_calculator.volume_base.heat_capacity = ev(d.heat_capacity)
    return c


def random_env(ctx, rng, base=None):
    """A physically reasonable float point for every input variable (frequencies 30..1500 cm^-1,
    T 50..3000 K, volumes 50..500 bohr^3, strain fractions 0.05..0.9, ...)."""
    env = dict(base or {})
    for name, info in ctx.vars.items():
        if name in env:
            continue
        kind = info.get("kind")
        if kind == "const":
            env[name] = info["value_hint"]
        elif kind == "input":
            p = name.split("_")[0].rstrip("0123456789") or name
            if name.startswith("w_") or p == "w":
                env[name] = rng.uniform(30.0, 1500.0)
            elif name.startswith("wt"):
                env[name] = rng.uniform(0.5, 8.0)
            elif name.startswith("T"):
                env[name] = rng.uniform(50.0, 3000.0)
            elif name.startswith("V"):
                env[name] = rng.uniform(50.0, 500.0)
            elif name.startswith("e"):
                env[name] = rng.uniform(0.05, 0.9)
            elif name.startswith("CV"):
                env[name] = rng.uniform(1e-5, 1e-3)
            elif name.startswith("P"):
                env[name] = rng.uniform(-0.001, 0.01)
            elif name.startswith("g"):
                env[name] = rng.uniform(-1.0, 3.0)
            elif name.startswith("d"):
                env[name] = rng.uniform(-2.0, 2.0)
            elif info.get("positive"):
                env[name] = rng.uniform(0.2, 3.0)
            else:
                env[name] = rng.uniform(-2.0, 2.0)
    return env


def env_from_model(ctx, model_env, rng):
    """Keep the solver's values for input variables (they are the counterexample), fill the rest;
    atoms (exp!, inv!, ...) are always recomputed from their definitions."""
    base = {}
    for n, v in (model_env or {}).items():
        info = ctx.vars.get(n, {})
        if info.get("kind") == "input" and v == v and abs(v) < 1e12:
            base[n] = v
    return random_env(ctx, rng, base)


# --------------------------------------------------------------------------------------
# oracle assembly
# --------------------------------------------------------------------------------------
def oracle_sums(d, H, K, iv, t):
    """Weighted mode sums of the per-mode oracle terms at volume index iv and temperature t."""
    from oracles.free_energy import mode_terms
    sw = Sym({})
    for w in d.weights:
        sw = sw + w
    tot = {}
    for q in range(d.nq):
        for m in range(d.np):
            if q == 0 and m < 3:
                continue   # Gamma-point acoustic modes excluded (statement)
            terms = mode_terms(d.freq_array[iv, q, m], d.gamma[iv, q, m], d.delta[iv, q, m], d.v_array[iv], t, H, K)
            for k, val in terms.items():
                tot[k] = tot.get(k, Sym({})) + d.weights[q] * val
    inv_sw = Sym.const(1) / sw
    return {k: v * inv_sw for k, v in tot.items()}


def rel_diff(a, b, floor=0.0):
    a, b = float(a), float(b)
    if a != a or b != b or a in (math.inf, -math.inf) or b in (math.inf, -math.inf):
        return math.inf if not (a == b) else 0.0
    s = max(abs(a), abs(b), floor)
    return abs(a - b) / s if s else 0.0
