"""Real tasks.py + shear.py + nonshear.py pipeline on a symbolic duck calculator (shared by C02d, C04, C12, C13)."""
from __future__ import annotations

import itertools
import random
import time

import numpy

from harness import phonon_common as PC
from harness.fill_common import KEYS
from symnum import sym as S, solver as Z, executor as X
from symnum.sym import Sym, SymError, new_context, symvars, symarray
from symnum.npproxy import NumpyProxy, patched

SHEAR = [k for k in KEYS if int(k[1]) >= 4 or int(k[2]) >= 4]
NONSHEAR = [k for k in KEYS if k not in SHEAR]


def modules():
    import cij.core.tasks as tk
    import cij.core.phonon_contribution.shear as sh
    import cij.core.phonon_contribution.nonshear as ns
    from cij.util import c_
    return tk, sh, ns, c_


def run_pipeline(duck, strain, keys, close_mode="structural", explorer=None, calculate=True):
    """Run the real PhononContributionTaskList on the duck calculator.  Returns list of path results; each result is
    dict(iso, adi, order_ok, tl)."""
    tk, sh, ns, c_ = modules()
    proxy = NumpyProxy()
    proxy.close_mode = close_mode
    ckeys = [c_(k[1:]) for k in keys]

    def fn():
        with patched((tk, {"numpy": proxy}), (sh, {"numpy": proxy}), (ns, {"numpy": proxy})):
            tl = tk.PhononContributionTaskList(duck)
            tl.resolve(strain, ckeys)
            if not calculate:
                return dict(tl=tl)
            tl.calculate()
            iso = tl.get_isothermal_results()
            adi = tl.get_adiabatic_results()
        return dict(tl=tl, iso={"c%d%d" % k.v: v for k, v in iso.items()}, adi={"c%d%d" % k.v: v for k, v in adi.items()})

    if explorer is None:
        return X.run_single_path(fn, name="pipeline", generic=True), proxy
    return explorer.run(fn), proxy


def run_pipeline_reused(duck, strain_a, strain_b, keys, close_mode="structural"):
    """One PhononContributionTaskList object used twice: resolve + calculate for strain_a, then for strain_b.  Returns the results read
    after the second calculation."""
    tk, sh, ns, c_ = modules()
    proxy = NumpyProxy()
    proxy.close_mode = close_mode
    ckeys = [c_(k[1:]) for k in keys]

    def fn():
        with patched((tk, {"numpy": proxy}), (sh, {"numpy": proxy}), (ns, {"numpy": proxy})):
            tl = tk.PhononContributionTaskList(duck)
            tl.resolve(strain_a, ckeys)
            tl.calculate()
            tl.get_isothermal_results()
            tl.resolve(strain_b, ckeys)
            tl.calculate()
            iso = tl.get_isothermal_results()
            adi = tl.get_adiabatic_results()
        return dict(tl=tl, iso={"c%d%d" % k.v: v for k, v in iso.items()}, adi={"c%d%d" % k.v: v for k, v in adi.items()})
    return X.run_single_path(fn, name="pipeline-reused", generic=True), proxy


def real_pipeline_reused(duck, strain_a, strain_b, keys):
    tk, sh, ns, c_ = modules()
    tl = tk.PhononContributionTaskList(duck)
    ck = [c_(k[1:]) for k in keys]
    tl.resolve(numpy.asarray(strain_a, dtype=float), ck)
    tl.calculate()
    tl.resolve(numpy.asarray(strain_b, dtype=float), ck)
    tl.calculate()
    iso = {"c%d%d" % k.v: numpy.asarray(v) for k, v in tl.get_isothermal_results().items()}
    adi = {"c%d%d" % k.v: numpy.asarray(v) for k, v in tl.get_adiabatic_results().items()}
    return iso, adi


def order_facts(tl):
    """Read dependency order facts off the real task list objects."""
    import networkx as nx
    acyclic = nx.is_directed_acyclic_graph(tl._graph)
    pos = {id(t): i for i, t in enumerate(tl.data)}
    bad = []
    tk, sh, ns, c_ = modules()
    for t in tl.data:
        for strain, key in t.get_dependencies():
            params = tk.PhononContributionTaskParams.create(strain, key)
            dep = next((u for u in tl.data if _params_same(u.task_params, params)), None)
            if dep is None:
                bad.append(("missing", repr(t.key), repr(key)))
            elif pos[id(dep)] >= pos[id(t)]:
                bad.append(("late", repr(t.key), repr(key)))
    return acyclic, bad


def _params_same(a, b):
    if a.calc_type != b.calc_type:
        return False
    from cij.util import ElasticModulusCalculationType as T
    if a.calc_type == T.SHEAR:
        if a.params[1] != b.params[1]:
            return False
        return _arr_same(a.params[0], b.params[0])
    return _arr_same(a.params[0], b.params[0]) and _arr_same(a.params[1], b.params[1])


def _arr_same(x, y):
    x = numpy.asarray(x, dtype=object)
    y = numpy.asarray(y, dtype=object)
    if x.shape != y.shape:
        return False
    for a, b in zip(x.ravel().tolist(), y.ravel().tolist()):
        if isinstance(a, Sym) or isinstance(b, Sym):
            if not Sym.of(a).same(b):
                return False
        elif abs(float(a) - float(b)) > 1e-9 * max(1.0, abs(float(b))):
            return False
    return True


def float_duck(nq, np_, nv, nt, rng, t0=True):
    """A concrete duck calculator for replay (random physical values)."""
    d = PC.Obj()
    d.nq, d.np, d.nv, d.na = nq, np_, nv, np_ // 3
    d.t_array = numpy.array(([0.0] if t0 else []) + [rng.uniform(100, 2000) for _ in range(nt - (1 if t0 else 0))])
    d.v_array = numpy.array(sorted([rng.uniform(200, 400) for _ in range(nv)], reverse=True))
    freq = numpy.array([[[rng.uniform(50, 1200) for _ in range(np_)] for _ in range(nq)] for _ in range(nv)])
    gam = numpy.array([[[rng.uniform(0.3, 2.0) for _ in range(np_)] for _ in range(nq)] for _ in range(nv)])
    dlt = numpy.array([[[rng.uniform(-1.0, 1.0) for _ in range(np_)] for _ in range(nq)] for _ in range(nv)])
    for a in (freq, gam, dlt):
        a[:, 0, 0:3] = 0.0
    d.freq_array = freq
    d.mode_gamma = [dlt, gam, gam ** 2]
    d.qha_input = PC.Obj()
    d.qha_input.weights = [((0.0, 0.0, float(i)), rng.uniform(0.5, 4.0)) for i in range(nq)]
    d.static_p_array = numpy.array([rng.uniform(0, 0.005) for _ in range(nv)])
    d.qha_calculator = PC.Obj()
    d.qha_calculator.volume_base = PC.Obj()
    d.qha_calculator.volume_base.pressures = numpy.array([[rng.uniform(0, 0.006) for _ in range(nv)] for _ in range(len(d.t_array))])
    d.qha_calculator.volume_base.heat_capacity = numpy.array([[rng.uniform(1e-5, 1e-4) for _ in range(nv)] for _ in range(len(d.t_array))])
    return d


def real_pipeline(duck, strain, keys):
    """The real, unstubbed pipeline on floats."""
    tk, sh, ns, c_ = modules()
    tl = tk.PhononContributionTaskList(duck)
    tl.resolve(numpy.asarray(strain, dtype=float), [c_(k[1:]) for k in keys])
    tl.calculate()
    iso = {"c%d%d" % k.v: numpy.asarray(v) for k, v in tl.get_isothermal_results().items()}
    adi = {"c%d%d" % k.v: numpy.asarray(v) for k, v in tl.get_adiabatic_results().items()}
    return iso, adi, tl


# ----------------------------------------------------------------------------------------------------
# C02 (d): shear adiabatic == isothermal, fed by isothermal dependencies only
# ----------------------------------------------------------------------------------------------------
def c02_shear_obligations(chk, tier):
    tk, sh, ns, c_ = modules()
    chk.encode(tk.PhononContributionTaskList, tk.PhononContributionTask, sh.ShearElasticModulusPhononContribution)
    ctx = new_context()
    H, K, _ = PC.declare_constants(ctx)
    nq, np_, nv = 2, 3, 1
    duck = PC.make_duck(ctx, nq, np_, nv, n_sym_T=1)
    strain = symvars("e", (nv, 3), positive=True)
    keys = SHEAR if tier != "quick" else ["c44", "c45", "c14", "c15", "c66", "c36"]
    t0 = time.time()
    try:
        res, proxy = run_pipeline(duck, strain, keys)
    except SymError as e:
        chk.inconclusive("C02d", "pipeline symbolic run: %s" % e)
        return
    except Exception as e:
        rng = random.Random(5)
        _c02_replay(chk, keys, rng, "pipeline raised %s: %s" % (type(e).__name__, e))
        return
    ok = True
    cv_names = {n for n in ctx.vars if n.startswith("CV")}
    for k in keys:
        iso = numpy.asarray(res["iso"][k], dtype=object)
        adi = numpy.asarray(res["adi"][k], dtype=object)
        good = iso.shape == adi.shape
        dep_cv = False
        if good:
            for idx in numpy.ndindex(*iso.shape):
                a, b = Sym.of(adi[idx]), Sym.of(iso[idx])
                if not a.same(b):
                    v, env = Z.prove_equal(a, b, name="C02d:%s adiabatic==isothermal" % k, timeout_ms=20000)
                    good = good and v == "unsat"
                if Z._closure_vars(a) & cv_names:
                    dep_cv = True
        chk.obligation("shear:%s:adiabatic==isothermal,no-C_V-in-support" % k, "unsat" if (good and not dep_cv) else "sat", kind="identity",
                       detail=dict(depends_on_heat_capacity=dep_cv))
        ok = ok and good and not dep_cv
    chk.note("C02d pipeline run %.1fs, structural de-dup cuts %d" % (time.time() - t0, proxy.structural_cuts))
    if not ok:
        _c02_replay(chk, keys, random.Random(5), "shear adiabatic differs from isothermal / depends on C_V")


def _c02_replay(chk, keys, rng, what):
    d = float_duck(2, 3, 1, 2, rng)
    strain = numpy.array([[0.3, 0.33, 0.37]])
    try:
        iso, adi, tl = real_pipeline(d, strain, keys)
        d2 = float_duck(2, 3, 1, 2, random.Random(5))   # same data ...
        d2.qha_calculator.volume_base.heat_capacity = d2.qha_calculator.volume_base.heat_capacity * 3.0   # ... other C_V
        iso2, adi2, _ = real_pipeline(d2, strain, keys)
    except Exception as e:
        chk.violation("shear:pipeline-raises", "real task pipeline raises %s: %s for shear keys" % (type(e).__name__, str(e)[:160]),
                      dict(keys=keys))
        return
    for k in keys:
        sc = numpy.abs(iso[k]).max() + 1e-300
        if numpy.abs(adi[k] - iso[k]).max() > 1e-9 * sc:
            chk.violation("shear:adiabatic!=isothermal", "adiabatic and isothermal phonon values of %s differ (max %.3g)" % (
                k, numpy.abs(adi[k] - iso[k]).max()), dict(key=k))
            return
        if numpy.abs(adi2[k] - adi[k]).max() > 1e-9 * sc:
            chk.violation("shear:depends-on-heat-capacity", "adiabatic phonon value of %s changes with C_V" % k, dict(key=k))
            return
    chk.harness_error("C02d: '%s' did not reproduce on the real code" % what)


# ----------------------------------------------------------------------------------------------------
# reference evaluation that does not go through tasks.py (used by concrete replays)
# ----------------------------------------------------------------------------------------------------
def reference_phonon(duck, strain, key, which="iso", _depth=0):
    """Phonon contribution of one component computed by direct recursion over the real contribution classes
    (no task list, no de-duplication, no result store): non-shear keys from the Longitudinal/OffDiagonal class at the
    normalised strain fractions of the frame, shear keys from the shear class fed with recursively computed dependencies."""
    tk, sh, ns, c_ = modules()
    strain = numpy.asarray(strain, dtype=float)
    ck = c_(key[1:]) if isinstance(key, str) else key
    if not ck.is_shear:
        i, j, k, l = ck.standard
        tot = strain.sum(axis=1)
        e = (strain[:, i - 1] / tot, strain[:, k - 1] / tot)
        cls = ns.LongitudinalElasticModulusPhononContribution if ck.is_longitudinal else ns.OffDiagonalElasticModulusPhononContribution
        o = cls(duck, e)
        return numpy.asarray(o.value_isothermal if which == "iso" else o.value_adiabatic)
    if _depth > 3:
        raise RuntimeError("reference recursion too deep")
    o = sh.ShearElasticModulusPhononContribution(strain, ck)
    # shear dependencies are always taken from the isothermal values (statement of C02)
    o.modulus = {k: reference_phonon(duck, strain, k, "iso", _depth + 1) for k in o.get_modulus_keys()}
    sr = numpy.real(numpy.asarray(o.strain_rotated))
    o.modulus_rotated = {k: reference_phonon(duck, sr, k, "iso", _depth + 1) for k in o.get_modulus_keys_rotated()}
    return numpy.asarray(o.get_target_elastic_modulus())
