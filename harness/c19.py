"""C19 -- extract and extract-geotherm return table values faithfully (the decidable fragments).

extract: the real click callback runs on symbolic tables (real pandas, object columns) with a *symbolic* requested
temperature / pressure; the forking executor enumerates every feasible outcome of the nearest-index selection and z3
shows, per path, that the selected row (column) is a nearest one and that the output carries exactly that row's entries
labelled by the other coordinate.  extract-geotherm: the bivariate spline is an uninterpreted function; z3 equality shows
every output value is SPLINE[T-grid, P-grid, table](T_i, P_i) of the geotherm row, for default and custom column options."""
from __future__ import annotations

import io
import os
import random
import sys
import tempfile
import time
import types
import warnings
from fractions import Fraction

import numpy
import pandas

from harness.common import Check, run_main, seed, REPO
from symnum import sym as S, solver as Z, executor as X
from symnum.sym import Sym, SymError, new_context, symvars, symarray
from symnum.npproxy import patched


def sym_table(ctx, name, temps, press):
    vals = symvars(name, (len(temps), len(press)))
    df = pandas.DataFrame(vals, index=list(temps), columns=list(press), dtype=object)
    return df, vals


class Capture:
    def __enter__(self):
        self.df = None
        self.orig = pandas.DataFrame.to_string
        cap = self

        def fake(frame, *a, **k):
            cap.df = frame
            cap.kwargs = k
            return ""
        pandas.DataFrame.to_string = fake
        self.stdout = sys.stdout
        sys.stdout = io.StringIO()
        return self

    def __exit__(self, *a):
        pandas.DataFrame.to_string = self.orig
        sys.stdout = self.stdout


def extract_obligations(chk, ex_mod, tier, rng):
    temps = [0.0, 100.0, 250.0, 300.0] if tier == "quick" else [0.0, 100.0, 250.0, 300.0, 475.0, 600.0, 900.0, 1300.0]
    press = [0.0, 10.0, 25.0] if tier == "quick" else [0.0, 10.0, 25.0, 40.0, 70.0, 115.0]
    for mode in ("temperature", "pressure"):
        for variant in ("one grid", "each variable tabulated on its own grid along the selected axis"):
            name = "extract[-%s y, y symbolic, %s]" % ("T" if mode == "temperature" else "P", variant)
            ctx = new_context()
            grid = temps if mode == "temperature" else press
            # tables of two runs with different steps in one directory: the second variable's grid along the selected axis is another one
            grid2 = grid if variant == "one grid" else [g + (35.0 if mode == "temperature" else 4.0) * (i + 1) for i, g in enumerate(grid)]
            grids = {"c11s": grid, "bm": grid2}
            y = ctx.var("y", lo=Fraction(-50), hi=Fraction(int(max(grid2)) + 50))
            tables = {}
            for var in ("c11s", "bm"):
                tables[var] = sym_table(ctx, var, grids[var] if mode == "temperature" else temps, press if mode == "temperature" else grids[var])

            def fn():
                with Capture() as cap, patched((ex_mod, {"load_data": lambda v: tables[v][0].copy()})):
                    kw = dict(variables="c11s,bm", hide_header=False, temperature=None, pressure=None)
                    kw[mode] = y
                    ex_mod.main.callback(**kw)
                return cap.df
            ex = X.Explorer(max_paths=400, name=name, decision_timeout_ms=4000)
            t0 = time.time()
            try:
                paths = ex.run(fn)
            except (SymError, X.PathBudgetExceeded) as e:
                chk.inconclusive(name, str(e))
                continue
            ok = True
            rows_seen = set()
            for p in paths:
                if p.exception is not None:
                    ok = False
                    replay_extract(chk, ex_mod, mode, None, "raises %s: %s" % (type(p.exception).__name__, p.exception), own_grid=(variant != "one grid"))
                    break
                out = p.result
                other = press if mode == "temperature" else temps
                if [float(i) for i in out.index] != [float(v) for v in other] or list(out.columns) != ["c11s", "bm"]:
                    ok = False
                    replay_extract(chk, ex_mod, mode, None, "output is not labelled by the other coordinate", own_grid=(variant != "one grid"))
                    break
                sels = {}
                for var in ("c11s", "bm"):
                    for r in range(len(grids[var])):
                        want = tables[var][1][r, :] if mode == "temperature" else tables[var][1][:, r]
                        if all(Sym.of(a).same(b) for a, b in zip(out[var].tolist(), want)):
                            sels[var] = r
                if len(sels) != 2:
                    ok = False
                    replay_extract(chk, ex_mod, mode, None, "an output column is not a row/column of that variable's table", own_grid=(variant != "one grid"))
                    break
                if variant == "one grid" and sels["c11s"] != sels["bm"]:
                    ok = False
                    replay_extract(chk, ex_mod, mode, None, "variables are taken from different grid lines")
                    break
                rows_seen.add(sels["c11s"])
                # obligation: on this path each variable's selected grid value is a nearest one of its own table
                pc = p.path_condition()
                for var in ("c11s", "bm"):
                    g, sel = grids[var], sels[var]
                    near = X.cond_and(*[X.cond_or(
                        X.cond_and(X.cond_abs_le(y - g[sel], Sym.of(Fraction(g[k])) - y)),
                        X.cond_and(X.cond_abs_le(y - g[sel], y - Sym.of(Fraction(g[k]))))) for k in range(len(g)) if k != sel])
                    enc = Z.Encoder()
                    cons = [X._cond_z3(c, enc) for c in pc] + [X._cond_z3(X.cond_not(near), enc)] + enc.assumptions() + enc.side_conditions()
                    v, env = Z.check(cons, name=name + ":selected-is-nearest", enc=enc, timeout_ms=10000)
                    if v != "unsat":
                        ok = False
                        if v == "sat":
                            replay_extract(chk, ex_mod, mode, env.get("y"), "line %s of %s selected although another grid value is nearer" % (g[sel], var),
                                           own_grid=(variant != "one grid"))
                        else:
                            chk.inconclusive(name, "unknown")
                        break
                if not ok:
                    break
            chk.obligation(name + ": selected line is a nearest grid value; output = that line of every variable, labelled by the other coordinate "
                           "[%d paths, lines reached %s]" % (len(paths), sorted(rows_seen)), "unsat" if ok else "sat", seconds=round(time.time() - t0, 2),
                           kind="all-paths", logic="QF_LRA")
            chk.witness(name + ":every-grid-line-reachable", "sat" if (not ok or rows_seen == set(range(len(grid)))) else "unsat")
    chk.sample(dict(command="extract -v c11s,bm -T y", temperatures=temps, pressures=press, y="symbolic in (-50, 350)"))


def write_tables(tmp, temps, press, fn):
    Zv = numpy.array([[fn(t, p) for p in press] for t in temps])
    with open(os.path.join(tmp, "bm_tp_gpa.txt"), "w") as fp:
        fp.write(pandas.DataFrame(Zv, index=temps, columns=press).to_string())
    return Zv


def replay_extract_two(chk, ex_mod, mode, yval):
    """Two variables whose tables (of two runs with different steps) differ along the selected axis: each column of the output must be the
    nearest line of its own table.  Returns True when a violation was reported."""
    from click.testing import CliRunner
    temps = [0.0, 100.0, 250.0, 300.0]
    press = [0.0, 10.0, 25.0]
    grid = temps if mode == "temperature" else press
    grid2 = [g + (35.0 if mode == "temperature" else 4.0) * (i + 1) for i, g in enumerate(grid)]
    fa = lambda t, p: 100 + 0.37 * t + 2.1 * p
    fb = lambda t, p: 300 - 0.11 * t + 1.3 * p
    tmp = tempfile.mkdtemp(prefix="c19two_")
    cwd = os.getcwd()
    try:
        ta, pa = (grid, press) if mode == "temperature" else (temps, grid)
        tb, pb = (grid2, press) if mode == "temperature" else (temps, grid2)
        A = numpy.array([[fa(t, p) for p in pa] for t in ta])
        B = numpy.array([[fb(t, p) for p in pb] for t in tb])
        for nm, M, tt, pp in (("c11s", A, ta, pa), ("bm", B, tb, pb)):
            with open(os.path.join(tmp, nm + "_tp_gpa.txt"), "w") as fp:
                fp.write(pandas.DataFrame(M, index=tt, columns=pp).to_string(float_format=lambda x: "%.15e" % x))
        os.chdir(tmp)
        ys = ([yval] if yval is not None else []) + [g + d for g in grid2 for d in (-3.0, 2.0)] + [g + 1.0 for g in grid]
        for yv in ys:
            with warnings.catch_warnings():
                warnings.simplefilter("ignore")
                r = CliRunner().invoke(ex_mod.main, ["-v", "c11s,bm", "-T" if mode == "temperature" else "-P", str(yv)])
            if r.exit_code != 0:
                chk.violation("extract:raises[two grids]", "cij extract -v c11s,bm -%s %s fails for tables on different grids: %r" % ("T" if mode == "temperature" else "P", yv, r.exception), dict(y=yv))
                return True
            got = pandas.read_table(io.StringIO(r.output), sep=r"\s+", index_col=0)
            for nm, M, g in (("c11s", A, grid), ("bm", B, grid2)):
                d = sorted(abs(x - yv) for x in g)
                if len(d) > 1 and abs(d[0] - d[1]) < 1e-9:
                    continue
                k = int(numpy.argmin([abs(x - yv) for x in g]))
                want = M[k, :] if mode == "temperature" else M[:, k]
                if len(got[nm]) != len(want) or not numpy.abs(got[nm].to_numpy() - want).max() <= 1e-9:
                    chk.violation("extract:wrong-line[two grids,%s]" % mode, "cij extract -v c11s,bm -%s %s with the two tables on different grids %s / %s: column %s is %s, "
                                  "the line of its table nearest to the request (%s) is %s" % ("T" if mode == "temperature" else "P", yv, g if nm == "c11s" else grid, grid2,
                                                                                             nm, got[nm].tolist()[:3], g[k], want.tolist()[:3]), dict(y=yv, mode=mode))
                    return True
    finally:
        os.chdir(cwd)
        import shutil
        shutil.rmtree(tmp, ignore_errors=True)
    return False


def replay_extract(chk, ex_mod, mode, yval, what, own_grid=False):
    from click.testing import CliRunner
    if own_grid and replay_extract_two(chk, ex_mod, mode, yval):
        return
    temps = [0.0, 100.0, 250.0, 300.0]
    press = [0.0, 10.0, 25.0]
    tmp = tempfile.mkdtemp(prefix="c19_")
    cwd = os.getcwd()
    try:
        Zv = write_tables(tmp, temps, press, lambda t, p: 100 + 0.37 * t + 2.1 * p + 0.001 * t * p)
        os.chdir(tmp)
        grid = temps if mode == "temperature" else press
        ys = [yval] if yval is not None else []
        ys += [g + d for g in grid for d in (-3.0, 0.0, 4.0)] + [(grid[i] + grid[i + 1]) / 2 + 1 for i in range(len(grid) - 1)]
        for yv in ys:
            with warnings.catch_warnings():
                warnings.simplefilter("ignore")
                r = CliRunner().invoke(ex_mod.main, ["-v", "bm", "-T" if mode == "temperature" else "-P", str(yv)])
            if r.exit_code != 0:
                chk.violation("extract:raises", "cij extract %s %s fails: %r" % (mode, yv, r.exception), dict(y=yv))
                return
            got = pandas.read_table(io.StringIO(r.output), sep=r"\s+", index_col=0)
            k = int(numpy.argmin([abs(g - yv) for g in grid]))
            dists = sorted(abs(g - yv) for g in grid)
            if len(dists) > 1 and abs(dists[0] - dists[1]) < 1e-9:
                continue
            want = Zv[k, :] if mode == "temperature" else Zv[:, k]
            lab = press if mode == "temperature" else temps
            if got.shape[0] != len(want) or numpy.abs(got["bm"].to_numpy() - want).max() > 1e-6 or \
                    numpy.abs(numpy.array(got.index, dtype=float) - numpy.array(lab)).max() > 1e-6:
                chk.violation("extract:wrong-line[%s]" % mode, "cij extract -%s %s returns %s instead of the table line at %s" % (
                    "T" if mode == "temperature" else "P", yv, got["bm"].tolist()[:3], grid[k]), dict(y=yv, mode=mode))
                return
    finally:
        os.chdir(cwd)
        import shutil
        shutil.rmtree(tmp, ignore_errors=True)
    chk.harness_error("C19 extract: '%s' did not reproduce" % what)


def directory_twin(chk, ex_mod, ge_mod):
    """Environment twin: the table of a variable sits next to other entries with the same stem (the package's own `cij plot` writes
    VAR_tp_UNIT.png next to each table; editors leave .bak / ~ copies).  glob returns matches in arbitrary order (its documented
    contract), so every order of the matches is tried: extract / extract-geotherm must read the table whatever comes first."""
    import glob as globmod
    import itertools
    from click.testing import CliRunner
    temps = [0.0, 100.0, 250.0, 300.0, 400.0]
    press = [0.0, 10.0, 25.0, 30.0, 40.0]
    f = lambda t, p: 100 + 0.37 * t + 2.1 * p
    tmp = tempfile.mkdtemp(prefix="c19dir_")
    cwd = os.getcwd()
    real_glob = globmod.glob
    bad = None
    try:
        Zv = write_tables(tmp, temps, press, f)
        with open(os.path.join(tmp, "bm_tp_gpa.png"), "wb") as fp:
            fp.write(b"\x89PNG\r\n\x1a\n" + bytes(range(200, 256)) * 4)
        with open(os.path.join(tmp, "bm_tp_gpa.txt.bak"), "w") as fp:
            fp.write(pandas.DataFrame(2 * Zv, index=temps, columns=press).to_string())
        with open(os.path.join(tmp, "geo.txt"), "w") as fp:
            fp.write("P T D\n10 100 1\n25 300 2\n")
        os.chdir(tmp)
        n_orders = 0
        for perm_id in range(6):
            def adversarial(pattern, *a, **k):
                found = sorted(real_glob(pattern, *a, **k))
                perms = list(itertools.permutations(found))
                return list(perms[perm_id % len(perms)]) if found else found
            globmod.glob = adversarial
            try:
                for cmd, args, want in ((ex_mod.main, ["-v", "bm", "-T", "300"], Zv[3, :]), (ge_mod.main, ["-g", "geo.txt", "-v", "bm"], numpy.array([f(100, 10), f(300, 25)]))):
                    with warnings.catch_warnings():
                        warnings.simplefilter("ignore")
                        r = CliRunner().invoke(cmd, args)
                    n_orders += 1
                    if r.exit_code != 0:
                        bad = bad or ("%s %s fails: %r" % (cmd.name, " ".join(args), r.exception))
                        continue
                    got = pandas.read_table(io.StringIO(r.output), sep=r"\s+")
                    if len(got["bm"]) != len(want) or numpy.abs(got["bm"].to_numpy() - want).max() > 1e-6:
                        bad = bad or ("%s %s returns %s, the table holds %s" % (cmd.name, " ".join(args), got["bm"].tolist()[:3], want.tolist()[:3]))
            finally:
                globmod.glob = real_glob
    finally:
        globmod.glob = real_glob
        os.chdir(cwd)
        import shutil
        shutil.rmtree(tmp, ignore_errors=True)
    if bad:
        chk.violation("extract:reads-sibling-file", "with bm_tp_gpa.png and bm_tp_gpa.txt.bak next to bm_tp_gpa.txt (glob may list them in any order): %s" % bad, {})
    else:
        chk.side_check("directory twin: table read whatever other VAR_tp_* entries exist and in whatever order glob lists them (%d runs)" % n_orders, True)


def precision_twin(chk, ex_mod, ge_mod):
    """Printing twin: tables written the way the package writes them (qha's save_x_tp: '%.15e') are read back, a line / the nodes are
    selected, and the result is printed.  'Exactly the table row' / 'the table entry itself' / 'columns unchanged' includes what the
    user finally gets on stdout: the printed numbers parse back to the table's (relative 1e-12)."""
    from click.testing import CliRunner
    temps = [300.0, 400.0, 500.0, 600.0, 700.0]
    press = [0.0, 10.0, 20.0, 30.0, 40.0]
    f = lambda t, p: (1000.0 + 0.37 * t + 2.1 * p) / 7.3
    tmp = tempfile.mkdtemp(prefix="c19p_")
    cwd = os.getcwd()
    bad = []
    try:
        Zv = numpy.array([[f(t, p) for p in press] for t in temps])
        with open(os.path.join(tmp, "bm_tp_gpa.txt"), "w") as fp:
            fp.write(pandas.DataFrame(Zv, index=temps, columns=press).to_string(float_format=lambda x: "%.15e" % x))
        with open(os.path.join(tmp, "geo.txt"), "w") as fp:
            fp.write("P T D\n10 400 1.123456789\n30 600.123456789 2\n")
        os.chdir(tmp)
        rel = lambda a, b: float(numpy.max(numpy.abs(numpy.asarray(a, dtype=float) - numpy.asarray(b, dtype=float)) / numpy.abs(numpy.asarray(b, dtype=float))))
        with warnings.catch_warnings():
            warnings.simplefilter("ignore")
            r = CliRunner().invoke(ex_mod.main, ["-v", "bm", "-T", "400"])
            g = CliRunner().invoke(ge_mod.main, ["-g", "geo.txt", "-v", "bm"])
        if r.exit_code != 0 or g.exit_code != 0:
            chk.note("precision twin: command failed: %r %r" % (r.exception, g.exception))
            return
        got = pandas.read_table(io.StringIO(r.output), sep=r"\s+", index_col=0)
        d = rel(got["bm"].to_numpy(), Zv[1, :])
        if d > 1e-12:
            bad.append(("extract:precision", "cij extract -v bm -T 400 prints the table line %s as %s (relative change %.1e): the values are "
                        "cut to six decimals whatever their magnitude" % ([repr(v) for v in Zv[1, :2]], r.output.split("\n")[1:3], d)))
        gg = pandas.read_table(io.StringIO(g.output), sep=r"\s+")
        d2 = rel([gg["bm"][0]], [f(400, 10)])
        d3 = max(rel([gg["T"][1]], [600.123456789]), rel([gg["D"][0]], [1.123456789]))
        if d2 > 1e-10 or d3 > 1e-12:
            bad.append(("geotherm:precision", "cij extract-geotherm prints the node entry %r as %r and the geotherm's own T = 600.123456789, "
                        "D = 1.123456789 as %r, %r: six decimals whatever the magnitude" % (f(400, 10), float(gg["bm"][0]), float(gg["T"][1]), float(gg["D"][0]))))
    finally:
        os.chdir(cwd)
        import shutil
        shutil.rmtree(tmp, ignore_errors=True)
    for key, what in bad:
        chk.violation(key, what, dict(temps=temps, press=press, table="(1000 + 0.37 T + 2.1 P) / 7.3 written with %.15e"))
    if not bad:
        chk.side_check("precision twin: printed values parse back to the table's to 1e-12 (extract) / 1e-10 (geotherm node)", True)


def geotherm_obligations(chk, ge_mod, tier, rng):
    temps = [300.0, 500.0, 700.0] if tier == "quick" else [300.0, 500.0, 700.0, 1100.0, 1900.0, 2500.0]
    press = [0.0, 10.0, 20.0, 30.0] if tier == "quick" else [0.0, 10.0, 20.0, 30.0, 60.0, 135.0]
    for opts, cols in ((dict(), ("P", "T")), (dict(p_col="Pres", t_col="Temp"), ("Pres", "Temp"))):
        name = "geotherm[%s]" % ("default column names" if not opts else "--p-col Pres --t-col Temp")
        ctx = new_context()
        tab, vals = sym_table(ctx, "bm", temps, press)
        n = 3 if tier == "quick" else 6
        # the property quantifies over geotherm paths inside the tabulated range
        Pg = symvars("Pgeo", (n,), lo=Fraction(press[0]), hi=Fraction(press[-1]))
        Tg = symvars("Tgeo", (n,), lo=Fraction(temps[0]), hi=Fraction(temps[-1]))
        Dg = symvars("Dgeo", (n,))
        geo = pandas.DataFrame({cols[0]: Pg, cols[1]: Tg, "D": Dg}, dtype=object)
        calls = []

        class RBS:
            def __init__(s, x, y, z, *a, **k):
                s.x, s.y, s.z = numpy.asarray(x, dtype=object), numpy.asarray(y, dtype=object), numpy.asarray(z, dtype=object)

            def __call__(s, a, b, grid=True):
                if grid:
                    raise SymError("spline stub: grid=True evaluation not modelled")
                a, b = numpy.asarray(a, dtype=object), numpy.asarray(b, dtype=object)
                calls.append((a, b))
                return numpy.array([ctx.uf("SPLINE2D", [s.x, s.y, s.z, Sym.of(u), Sym.of(w)]) for u, w in zip(a, b)], dtype=object)

        def fn():
            saved = sys.modules.get("scipy.interpolate")
            sys.modules["scipy.interpolate"] = types.SimpleNamespace(RectBivariateSpline=RBS)
            orig_rt = pandas.read_table
            pandas.read_table = lambda *a, **k: geo.copy()
            try:
                with Capture() as cap, patched((ge_mod, {"load_data": lambda v: tab.copy()})):
                    kw = dict(variables="bm", hide_header=False, t_col="P", p_col="T", geotherm="geo.txt")
                    if opts:
                        kw["p_col"], kw["t_col"] = opts["p_col"], opts["t_col"]
                    ge_mod.main.callback(**kw)
                return cap.df
            finally:
                pandas.read_table = orig_rt
                if saved is None:
                    sys.modules.pop("scipy.interpolate", None)
                else:
                    sys.modules["scipy.interpolate"] = saved
        t0 = time.time()
        try:
            # read the option defaults from the command itself for the default case
            if not opts:
                defaults = {p.name: p.default for p in ge_mod.main.params}

                def fn_default():
                    saved = sys.modules.get("scipy.interpolate")
                    sys.modules["scipy.interpolate"] = types.SimpleNamespace(RectBivariateSpline=RBS)
                    orig_rt = pandas.read_table
                    pandas.read_table = lambda *a, **k: geo.copy()
                    try:
                        with Capture() as cap, patched((ge_mod, {"load_data": lambda v: tab.copy()})):
                            ge_mod.main.callback(variables="bm", hide_header=False, t_col=defaults["t_col"], p_col=defaults["p_col"], geotherm="geo.txt")
                        return cap.df
                    finally:
                        pandas.read_table = orig_rt
                        if saved is None:
                            sys.modules.pop("scipy.interpolate", None)
                        else:
                            sys.modules["scipy.interpolate"] = saved
                paths = X.explore(fn_default, name=name, max_paths=32)
            else:
                paths = X.explore(fn, name=name, max_paths=32)
            if any(p_.exception is not None for p_ in paths):
                raise [p_.exception for p_ in paths if p_.exception is not None][0]
        except SymError as e:
            chk.inconclusive(name, str(e))
            continue
        except Exception as e:
            chk.obligation(name, "sat", kind="wiring", detail="raises %s: %s" % (type(e).__name__, e))
            replay_geotherm(chk, ge_mod, opts, "raises %s: %s" % (type(e).__name__, e))
            continue
        fails = []
        want = [ctx.uf("SPLINE2D", [numpy.array([Sym.of(Fraction(t)) for t in temps], dtype=object),
                                    numpy.array([Sym.of(Fraction(p)) for p in press], dtype=object), vals, Tg[i], Pg[i]]) for i in range(n)]
        for p_ in paths:
            out = p_.result
            with X.path_assumptions(p_):
                if "bm" not in out.columns:
                    fails.append("no output column for the variable")
                else:
                    for i in range(n):
                        if Z.prove_equal(Sym.of(out["bm"].iloc[i]), want[i], name=name)[0] != "unsat":
                            fails.append("value %d is not SPLINE[T grid, P grid, table](T_i, P_i) of the geotherm row" % i)
                            break
                for c, arr in ((cols[0], Pg), (cols[1], Tg), ("D", Dg)):
                    if c not in out.columns or not all(Sym.of(a).same(b) for a, b in zip(out[c].tolist(), arr)):
                        fails.append("geotherm column %s is not passed through unchanged" % c)
            if fails:
                break
        chk.obligation(name + ": value_i = SPLINE[temperatures, pressures, table](T_i, P_i); geotherm columns passed through", "unsat" if not fails else "sat",
                       seconds=round(time.time() - t0, 2), kind="wiring(uninterpreted spline)", detail=fails[:3])
        if fails:
            replay_geotherm(chk, ge_mod, opts, fails[0])
    chk.witness("geotherm: spline stub reached", "sat")


def replay_geotherm(chk, ge_mod, opts, what):
    from click.testing import CliRunner
    temps = [float(t) for t in range(300, 1100, 100)]      # T_MIN = 300 K: larger than every tabulated pressure
    press = [float(p) for p in range(0, 60, 10)]
    f = lambda t, p: 100 + 0.01 * t + 2 * p
    tmp = tempfile.mkdtemp(prefix="c19g_")
    cwd = os.getcwd()
    try:
        write_tables(tmp, temps, press, f)
        os.chdir(tmp)
        pc, tc = (opts.get("p_col", "P"), opts.get("t_col", "T")) if opts else ("P", "T")
        pts = [(30.0, 1000.0), (10.0, 300.0), (20.0, 500.0), (10.0, 400.0)]     # a path listed in no particular order (deep to shallow, back again)
        with open("geo.txt", "w") as fp:
            fp.write("%s %s D\n" % (pc, tc) + "".join("%g %g %g\n" % (p, t, 10 * i) for i, (p, t) in enumerate(pts)))
        args = ["-g", "geo.txt", "-v", "bm"] + (["--p-col", pc, "--t-col", tc] if opts else [])
        with warnings.catch_warnings():
            warnings.simplefilter("ignore")
            r = CliRunner().invoke(ge_mod.main, args)
        if r.exit_code != 0:
            chk.violation("geotherm:raises", "cij extract-geotherm %s fails: %r" % (" ".join(args), r.exception), dict(args=args))
            return
        got = pandas.read_table(io.StringIO(r.output), sep=r"\s+")
        want = [f(t, p) for p, t in pts]
        if numpy.abs(got["bm"].to_numpy() - numpy.array(want)).max() > 1e-6:
            chk.violation("geotherm:wrong-values[%s]" % ("custom-columns" if opts else "default-columns"),
                          "cij extract-geotherm %s returns %s at the grid nodes (P,T)=%s where the table holds %s" % (
                              " ".join(args[2:]), got["bm"].tolist(), pts, want), dict(args=args))
            return
        if list(got[pc]) != [p for p, t in pts] or list(got[tc]) != [t for p, t in pts]:
            chk.violation("geotherm:columns-altered", "geotherm columns are not passed through unchanged", dict(args=args))
            return
    finally:
        os.chdir(cwd)
        import shutil
        shutil.rmtree(tmp, ignore_errors=True)
    chk.harness_error("C19 geotherm: '%s' did not reproduce" % what)


def main():
    tier = os.environ.get("VERIF_TIER", "quick")
    if len(sys.argv) > 1:
        tier = sys.argv[1]
    chk = Check("C19", tier, "forking symbolic execution of the real extract callback over a symbolic requested temperature/pressure (z3 decides "
                             "every argmin comparison and, per path, that the selected line is a nearest one); extract-geotherm with the bivariate "
                             "spline as an uninterpreted function (z3 equality of each output value with SPLINE[T,P,table](T_i,P_i))")
    import importlib
    ex_mod = importlib.import_module("cij.cli.extract")
    ge_mod = importlib.import_module("cij.cli.geotherm")
    chk.encode(ex_mod.main.callback, ge_mod.main.callback, ge_mod.fit_data)
    Z.reset_log()
    rng = random.Random(seed() + 19)
    extract_obligations(chk, ex_mod, tier, rng)
    geotherm_obligations(chk, ge_mod, tier, rng)
    directory_twin(chk, ex_mod, ge_mod)
    precision_twin(chk, ex_mod, ge_mod)
    chk.bound(extract="4 temperatures x 3 pressures, 2 variables, requested value symbolic over the whole range (+-50 beyond)",
              geotherm="3 x 4 table, 3 geotherm rows with symbolic (P, T, D), default and custom column options")
    chk.stub("load_data -> symbolic table (file discovery by glob and pandas parsing are outside); scipy RectBivariateSpline -> uninterpreted "
             "SPLINE2D(x grid, y grid, table, a, b); pandas.read_table(geotherm) -> symbolic frame; DataFrame.to_string captured")
    chk.out_of_claim("file discovery / parsing / printing; that the FITPACK spline interpolates the grid nodes and converges under refinement "
                     "(library numerics, asymptotic statement: no bounded algebraic form)")
    return chk.finish("extract: all feasible outcomes of the nearest-index selection are enumerated for a symbolic request and each is shown to be a "
                      "nearest grid line carrying that line's entries of every variable; geotherm: each value is the table's spline evaluated "
                      "at (T_i, P_i) with temperatures along the rows and pressures along the columns, for default and custom column names.")


if __name__ == "__main__":
    run_main(main)
