"""C02 -- adiabatic - isothermal gap = T V (dP/dT)^2 / (9 e_i e_j C_V); zero for shear and at T=0."""
from __future__ import annotations

import os
import random
import sys
import time

import numpy

from harness.common import Check, run_main, seed
from harness import phonon_common as PC
from harness.c01 import decide_identity, divisor_obligations, has_undef
from symnum import sym as S, solver as Z, executor as X
from symnum.npproxy import NumpyProxy, patched
from symnum.sym import Sym, SymError, symvars, new_context

REPLAY_RTOL = 1e-6


def run_shape(chk, ns, nq, np_, nv, n_sym_T, tgrid="T0-first"):
    tag = "nq%d-np%d-nv%d-nT%d%s" % (nq, np_, nv, n_sym_T + 1, "" if tgrid == "T0-first" else "-" + tgrid)
    ctx = new_context()
    H, K, consts = PC.declare_constants(ctx)
    d = PC.make_duck(ctx, nq, np_, nv, n_sym_T=n_sym_T + (1 if tgrid == "no-T0" else 0), with_T0=(tgrid != "no-T0"),
                     t0_last=(tgrid == "T0-last"))
    ei = symvars("ei", (nv,), positive=True, lo=0, hi=1)
    ej = symvars("ej", (nv,), positive=True, lo=0, hi=1)

    def classes(calc, a, b):
        L = ns.LongitudinalElasticModulusPhononContribution(calc, (a, a))
        O = ns.OffDiagonalElasticModulusPhononContribution(calc, (a, b))
        return L, O

    def run():
        with patched((ns, {"numpy": NumpyProxy()})):
            L, O = classes(d, ei, ej)
            return dict(long_gap=L.value_adiabatic - L.value_isothermal, off_gap=O.value_adiabatic - O.value_isothermal,
                        long_i2a=L.isothermal_to_adiabatic)

    rng = random.Random(seed() * 7919 + nq * 100 + np_ + 17)
    reported = set()
    expected = {}

    def replay(name, env):
        comp = name.split(":")[1].split("[")[0]
        if comp in reported:
            return
        for attempt in range(6):
            point = PC.env_from_model(ctx, env if attempt == 0 else None, rng)
            c = PC.concretise_duck(d, point)
            fe_i = numpy.array([Sym.of(x).evalf(dict(point)) for x in ei])
            fe_j = numpy.array([Sym.of(x).evalf(dict(point)) for x in ej])
            try:
                with numpy.errstate(all="ignore"):
                    L, O = classes(c, fe_i, fe_j)
                    real = dict(long_gap=L.value_adiabatic - L.value_isothermal,
                                off_gap=O.value_adiabatic - O.value_isothermal, long_i2a=L.isothermal_to_adiabatic)
            except Exception as e:
                chk.violation("%s:raises" % comp, "real class raises %s: %s" % (type(e).__name__, e),
                              dict(shape=tag, point=point, obligation=name))
                reported.add(comp)
                return
            arr = numpy.asarray(real[comp], dtype=float)
            exp = expected[comp]
            for idx in numpy.ndindex(*exp.shape):
                want = Sym.of(exp[idx]).evalf(dict(point))
                got = float(arr[idx])
                scale = abs(float(numpy.asarray(L.value_isothermal)[idx])) * 1e-9   # gap is a difference of two moduli
                if PC.rel_diff(got, want, floor=max(scale, 1e-300)) > REPLAY_RTOL:
                    chk.violation("%s:deviates" % comp,
                                  "%s[%s] of the real class = %.12g but T V (dP/dT)^2/(9 e e C_V) = %.12g"
                                  % (comp, idx, got, want),
                                  dict(shape=tag, point=point, obligation=name, got=got, want=want, index=list(idx)))
                    reported.add(comp)
                    return
        chk.harness_error("counterexample for %s did not reproduce on the real code (encoding suspect)" % name)

    def concrete_raise_check(e):
        point = PC.random_env(ctx, rng)
        c = PC.concretise_duck(d, point)
        try:
            fe_i = numpy.array([Sym.of(x).evalf(dict(point)) for x in ei])
            L, O = classes(c, fe_i, fe_i)
            L.value_adiabatic
            chk.harness_error("symbolic run raised %r but the concrete run did not" % (e,))
        except Exception as e2:
            chk.violation("raises", "real class raises %s: %s" % (type(e2).__name__, e2), dict(shape=tag, point=point))

    try:
        paths = X.explore(run, name="C02:" + tag, max_paths=16, generic=True)
    except SymError as e:
        chk.harness_error("symbolic run failed: %s" % e)
        return
    for pi, p in enumerate(paths):
        if chk.violations:
            break       # one replayed violation is enough; the remaining paths would only repeat it
        with X.path_assumptions(p):
            if p.exception is not None:
                concrete_raise_check(p.exception)
                continue
            judge(chk, ns, tag + ("" if len(paths) == 1 else "@path%d" % pi), ctx, d, H, K, ei, ej, nv, p.result, expected, replay, rng,
                  nq, np_, first=(pi == 0))


def judge(chk, ns, tag, ctx, d, H, K, ei, ej, nv, res, expected, replay, rng, nq, np_, first=True):
    nt = d.nt
    for k in ("long_gap", "off_gap", "long_i2a"):
        expected[k] = numpy.empty((nt, nv), dtype=object)
    for iv in range(nv):
        for it in range(nt):
            t = d.t_array[it]
            if Sym.of(t).is_zero():
                lg = og = Sym({})
            else:
                tsum = PC.oracle_sums(d, H, K, iv, t)
                dpdt = tsum["dPdT_th"]
                cv = d.heat_capacity[it, iv]
                lg = t * d.v_array[iv] * dpdt * dpdt / (9 * ei[iv] * ei[iv] * cv)
                og = t * d.v_array[iv] * dpdt * dpdt / (9 * ei[iv] * ej[iv] * cv)
            expected["long_gap"][it, iv] = lg
            expected["off_gap"][it, iv] = og
            expected["long_i2a"][it, iv] = lg
    for k in ("long_gap", "off_gap", "long_i2a"):
        got = numpy.asarray(res[k], dtype=object)
        for idx in numpy.ndindex(*expected[k].shape):
            decide_identity(chk, "%s:%s[%s]" % (tag, k, ",".join(map(str, idx))), got[idx], expected[k][idx], replay)
    divisor_obligations(chk, tag)

    # (c) sign on the diagonal: gap_ii < 0 unsatisfiable under C_V > 0, T > 0, V > 0, e > 0.
    # Asked of the code's own polynomial; falls back to the composed argument (identity (a) + square form)
    # only if nlsat does not finish, in which case it is recorded as such.
    it_w = max(i for i in range(nt) if not Sym.of(d.t_array[i]).is_zero())
    g = Sym.of(res["long_gap"][it_w, 0])
    t0 = time.time()
    v, env = Z.prove_rel(">=", g, name=tag + ":gap_ii>=0", timeout_ms=20000 if nq * np_ <= 12 else 3000)
    if v == "unknown":
        Xv = ctx.var("Xsq", kind="input")
        form = d.t_array[it_w] * d.v_array[0] * Xv * Xv / (9 * ei[0] * ei[0] * d.heat_capacity[it_w, 0])
        v2, _ = Z.prove_rel(">=", form, name=tag + ":gap_ii>=0:composed", timeout_ms=20000)
        chk.obligation(tag + ":gap_ii>=0[composed: identity (a) + T V X^2/(9 e^2 C_V) >= 0]", v2, kind="inequality",
                       seconds=round(time.time() - t0, 3))
        if v2 != "unsat":
            chk.inconclusive(tag + ":gap_ii>=0", "nlsat unknown and composed form not discharged")
    else:
        chk.obligation(tag + ":gap_ii>=0[code polynomial, nlsat]", v, kind="inequality", seconds=round(time.time() - t0, 3))
        if v == "sat":
            replay("%s:long_gap[sign]" % tag, env)
    # witness: assumptions satisfiable, gap can be strictly positive
    w = Z.witness([(">", expected["long_gap"][it_w, 0])], name=tag + ":witness", timeout_ms=20000, rng=rng)
    chk.witness(tag + ":gap-can-be-positive", w[0])
    chk.sample(dict(shape=tag, obligation="value_adiabatic - value_isothermal == T V (dP/dT)^2/(9 e_i e_j C_V)",
                    code=Sym.of(res["off_gap"][it_w, 0]).short(2)))


def shear_part(chk, tier):
    """(d) through the real task list: every component with a Voigt index 4-6 has adiabatic == isothermal and
    its adiabatic value does not depend on the heat capacity (so it was fed by isothermal dependencies only)."""
    try:
        from harness import pipeline as PL
    except ImportError:
        chk.out_of_claim("shear adiabatic == isothermal through tasks.py (pipeline harness not available)")
        return
    PL.c02_shear_obligations(chk, tier)


def main():
    tier = os.environ.get("VERIF_TIER", "quick")
    if len(sys.argv) > 1:
        tier = sys.argv[1]
    chk = Check("C02", tier, "symbolic execution of nonshear.py / tasks.py / shear.py on Sym arrays + z3 (QF_NRA): "
                             "identity with the sympy-differentiated -d2F/dTdV, nlsat sign query, C_V-independence of shear")
    import cij.core.phonon_contribution.nonshear as ns
    import cij.core.qha_adapter as qa
    chk.encode(ns.LongitudinalElasticModulusPhononContribution,
               ns.OffDiagonalElasticModulusPhononContribution, ns.average_over_modes)
    Z.reset_log()
    shapes = [(2, 6, 2, 1), (3, 6, 2, 1), (1, 6, 2, 1), (2, 6, 1, 1)] if tier == "quick" else [(1, 6, 2, 1), (2, 3, 2, 1), (2, 6, 2, 1), (3, 6, 3, 2), (4, 12, 2, 1), (2, 6, 1, 1)]
    for nq, np_, nv, nT in shapes:
        run_shape(chk, ns, nq, np_, nv, nT)
    run_shape(chk, ns, 2, 3, 2, 1, tgrid="no-T0")
    run_shape(chk, ns, 2, 3, 2, 1, tgrid="T0-last")
    shear_part(chk, tier)
    # heat capacity forwarding (attribute wiring on a stub qha calculator)
    class _Q:
        cv_tv_au = object()
        cv_tp_au = object()
        bt_tv_au = object()
    q = _Q()
    ok = qa.QHAVolumeBaseInterface(q).heat_capacity is q.cv_tv_au
    chk.encode(qa.QHAVolumeBaseInterface)
    if not chk.side_check("QHAVolumeBaseInterface.heat_capacity forwards cv_tv_au", ok):
        chk.violation("heat_capacity:forwarding", "QHAVolumeBaseInterface.heat_capacity is not the QHA volumetric C_V field",
                      dict(got=repr(qa.QHAVolumeBaseInterface(q).heat_capacity)))
    chk.bound(shapes=[dict(nq=a, np=b, nv=c, nT=dd + 1) for a, b, c, dd in shapes], solver_timeout_ms=30000)
    chk.assume("as C01; heat capacity C_V(T,V) free positive symbols")
    chk.out_of_claim("IEEE rounding; sizes beyond the listed shapes")
    return chk.finish(
        "z3 decides, per grid point, code gap polynomial == T V (dP/dT)^2/(9 e_i e_j C_V) with dP/dT from sympy.diff(F,V,T); "
        "T=0 row == 0; gap_ii >= 0 by nlsat; shear keys: adiabatic == isothermal and no C_V symbol in the support.")


if __name__ == "__main__":
    run_main(main)
