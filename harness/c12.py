"""C12 -- results are finite and real on the whole grid (solver-decidable fragments).

E3: the Bose-factor kernels Q, Q1, Q2 are translated from the source AST of the working tree into QF_FP (Float64,
round-nearest-even) with numpy.exp as an uninterpreted function constrained by stated facts; cvc5 decides whether a
finite (omega, T) in range makes a kernel NaN / infinite.  E1: T=0 masking, absence of undefined values in the assembled
tensor (symbolic pipeline), real-ness of the eigen-frame."""
from __future__ import annotations

import ast
import inspect
import os
import random
import subprocess
import sys
import tempfile
import time
import warnings

import numpy

from harness.common import Check, run_main, seed, VERIF
from harness import phonon_common as PC
from harness import pipeline as PL
from harness.fill_common import KEYS
from symnum import sym as S, solver as Z, executor as X
from symnum.sym import Sym, SymError, new_context, symvars
from symnum.npproxy import patched

W_LO, W_HI = 30.0, 1500.0
T_LO, T_HI = 5e-324, 3000.0   # every positive double up to 3000 K ("arbitrarily low T > 0")
EXP_OVERFLOW = 709.782712893384      # largest double x with finite exp(x)
EXP_UNDERFLOW = -745.1332191019411   # exp(x) == 0.0 below this


def fp(x):
    """SMT-LIB literal of a Python float (Float64)."""
    import struct
    bits = struct.unpack(">Q", struct.pack(">d", float(x)))[0]
    return "(fp #b%s #b%s #b%s)" % (format(bits >> 63, "01b"), format((bits >> 52) & 0x7FF, "011b"), format(bits & ((1 << 52) - 1), "052b"))


class KernelTranslator(ast.NodeVisitor):
    """Python expression AST -> SMT-LIB2 Float64 term.  Elementwise numpy semantics: subscripts are broadcasting only."""

    def __init__(self, props, consts):
        self.props = props     # name -> ast expression of other LazyProperties (inlined)
        self.consts = consts   # module-level float constants
        self.exps = {}         # canonical argument term -> E variable name
        self.decls = []
        self.depth = 0

    # -- straight-line interpretation of a property body -------------------------------------------------------------------------
    # names and self._x attributes are bound to *cells* (so that aliases created by `b = a`, `out=a` or in-place operators see the same
    # value, as numpy arrays do); a cell holds the SMT term of the array element
    def tr_function(self, name):
        self.depth += 1
        if self.depth > 6:
            raise SymError("kernel property recursion")
        saved = getattr(self, "env", None), getattr(self, "cells", None)
        self.env, self.cells = {}, {}
        try:
            out = self._run_block(self.props[name].body)
            if out is None:
                raise SymError("kernel %s does not return on the interpreted path" % name)
            return out
        finally:
            self.env, self.cells = saved
            self.depth -= 1

    def _new_cell(self, term):
        cid = len(self.cells)
        self.cells[cid] = term
        return cid

    def _target_key(self, t):
        if isinstance(t, ast.Name):
            return t.id
        if isinstance(t, ast.Attribute) and isinstance(t.value, ast.Name) and t.value.id == "self":
            return "self." + t.attr
        raise SymError("unsupported assignment target in kernel: %s" % ast.unparse(t))

    def _value(self, node):
        """(term, cell id or None): the cell is given when the expression denotes an existing array (a name, or a call writing into `out=`)."""
        if isinstance(node, ast.Name) and node.id in self.env:
            cid = self.env[node.id]
            return self.cells[cid], cid
        if isinstance(node, ast.Attribute) and isinstance(node.value, ast.Name) and node.value.id == "self" and ("self." + node.attr) in self.env:
            cid = self.env["self." + node.attr]
            return self.cells[cid], cid
        if isinstance(node, ast.Call):
            outs = [k for k in node.keywords if k.arg == "out"]
            if outs:
                bare = ast.Call(func=node.func, args=node.args, keywords=[k for k in node.keywords if k.arg != "out"])
                term = self.tr(bare)
                key = self._target_key(outs[0].value)
                if key not in self.env:
                    raise SymError("out= names an unknown array")
                cid = self.env[key]
                self.cells[cid] = term
                return term, cid
        return self.tr(node), None

    def _run_block(self, stmts):
        for st in stmts:
            if isinstance(st, ast.Expr):
                if isinstance(st.value, ast.Constant):
                    continue            # docstring
                self._value(st.value)   # a call for its effect (out=)
            elif isinstance(st, ast.Assign) and len(st.targets) == 1:
                term, cid = self._value(st.value)
                self.env[self._target_key(st.targets[0])] = cid if cid is not None else self._new_cell(term)
            elif isinstance(st, ast.AnnAssign) and st.value is not None:
                term, cid = self._value(st.value)
                self.env[self._target_key(st.target)] = cid if cid is not None else self._new_cell(term)
            elif isinstance(st, ast.AugAssign):
                key = self._target_key(st.target)
                if key not in self.env:
                    raise SymError("in-place operation on an unknown array %s" % key)
                cid = self.env[key]
                # the right operand is evaluated first (it may name the same array)
                expr = ast.BinOp(left=ast.Name(id="__cell__", ctx=ast.Load()), op=st.op, right=st.value)
                self.env["__cell__"] = cid
                self.cells[cid] = self.tr(expr)
                del self.env["__cell__"]
            elif isinstance(st, ast.If):
                t = st.test
                neg = isinstance(t, ast.UnaryOp) and isinstance(t.op, ast.Not)
                call = t.operand if neg else t
                if isinstance(call, ast.Call) and getattr(call.func, "id", None) == "hasattr" and len(call.args) == 2 and isinstance(call.args[1], ast.Constant):
                    cached = ("self." + str(call.args[1].value)) in self.env
                    taken = (not cached) if neg else cached
                    r = self._run_block(st.body if taken else st.orelse)
                    if r is not None:
                        return r
                else:
                    raise SymError("unsupported condition in kernel: %s" % ast.unparse(t))
            elif isinstance(st, ast.Return):
                return self._value(st.value)[0]
            elif isinstance(st, ast.Pass):
                continue
            else:
                raise SymError("unsupported statement in kernel: %s" % type(st).__name__)
        return None

    def tr(self, node):
        if isinstance(node, ast.Name) and getattr(self, "env", None) and node.id in self.env:
            return self.cells[self.env[node.id]]
        if isinstance(node, ast.Attribute) and isinstance(node.value, ast.Name) and node.value.id == "self" and getattr(self, "env", None) \
                and ("self." + node.attr) in self.env:
            return self.cells[self.env["self." + node.attr]]
        if isinstance(node, ast.BinOp):
            a, b = self.tr(node.left), None
            if isinstance(node.op, ast.Pow):
                if isinstance(node.right, ast.Constant) and node.right.value == 2:
                    return "(fp.mul RNE %s %s)" % (a, a)
                raise SymError("unsupported power in kernel")
            b = self.tr(node.right)
            op = {ast.Add: "fp.add", ast.Sub: "fp.sub", ast.Mult: "fp.mul", ast.Div: "fp.div"}.get(type(node.op))
            if op is None:
                raise SymError("unsupported operator %s" % type(node.op).__name__)
            return "(%s RNE %s %s)" % (op, a, b)
        if isinstance(node, ast.UnaryOp) and isinstance(node.op, ast.USub):
            return "(fp.neg %s)" % self.tr(node.operand)
        if isinstance(node, ast.UnaryOp) and isinstance(node.op, ast.UAdd):
            return self.tr(node.operand)
        if isinstance(node, ast.Constant) and isinstance(node.value, (int, float)):
            return fp(float(node.value))
        if isinstance(node, ast.Subscript):
            return self.tr(node.value)
        if isinstance(node, ast.Name):
            if node.id in self.consts:
                return fp(self.consts[node.id])
            raise SymError("unknown name %s in kernel" % node.id)
        if isinstance(node, ast.Attribute) and isinstance(node.value, ast.Name) and node.value.id == "self":
            if node.attr == "freq_array":
                return "w"
            if node.attr == "t_array":
                return "T"
            if node.attr in self.props:
                return self.tr_function(node.attr)
            raise SymError("unknown attribute self.%s in kernel" % node.attr)
        if isinstance(node, ast.Call):
            f = node.func
            fname = f.attr if isinstance(f, ast.Attribute) else getattr(f, "id", None)
            if fname == "exp" and len(node.args) == 1:
                arg = self.tr(node.args[0])
                if arg not in self.exps:
                    self.exps[arg] = "E%d" % len(self.exps)
                return self.exps[arg]
            if fname == "expm1" and len(node.args) == 1:
                arg = self.tr(node.args[0])
                if arg not in self.exps:
                    self.exps[arg] = "E%d" % len(self.exps)
                return "(fp.sub RNE %s %s)" % (self.exps[arg], fp(1.0))
            if fname in ("add", "subtract", "multiply", "divide", "true_divide") and len(node.args) == 2 and not node.keywords:
                op = {"add": "fp.add", "subtract": "fp.sub", "multiply": "fp.mul", "divide": "fp.div", "true_divide": "fp.div"}[fname]
                return "(%s RNE %s %s)" % (op, self.tr(node.args[0]), self.tr(node.args[1]))
            if fname == "negative" and len(node.args) == 1 and not node.keywords:
                return "(fp.neg %s)" % self.tr(node.args[0])
            if fname == "square" and len(node.args) == 1 and not node.keywords:
                a = self.tr(node.args[0])
                return "(fp.mul RNE %s %s)" % (a, a)
            if fname == "power" and len(node.args) == 2 and isinstance(node.args[1], ast.Constant) and node.args[1].value == 2 and not node.keywords:
                a = self.tr(node.args[0])
                return "(fp.mul RNE %s %s)" % (a, a)
            if fname in ("minimum", "maximum") and len(node.args) == 2:
                a, b = self.tr(node.args[0]), self.tr(node.args[1])
                # numpy.minimum / maximum propagate NaN (SMT-LIB fp.min / fp.max return the other operand)
                return "(ite (or (fp.isNaN %s) (fp.isNaN %s)) (_ NaN 11 53) (%s %s %s))" % (a, b, "fp.min" if fname == "minimum" else "fp.max", a, b)
            raise SymError("unsupported call %s in kernel" % fname)
        raise SymError("unsupported node %s in kernel" % type(node).__name__)

    def exp_axioms(self):
        """Facts assumed about numpy.exp on doubles (each is a true property of a correctly rounded / faithful exp)."""
        out = []
        for arg, e in self.exps.items():
            out.append("(declare-const %s (_ FloatingPoint 11 53))" % e)
            out.append("(assert (=> (not (fp.isNaN %s)) (not (fp.isNaN %s))))" % (arg, e))
            out.append("(assert (=> (fp.isNaN %s) (fp.isNaN %s)))" % (arg, e))
            out.append("(assert (=> (not (fp.isNaN %s)) (fp.geq %s %s)))" % (arg, e, fp(0.0)))
            # overflow exactly above the threshold
            out.append("(assert (= (fp.isInfinite %s) (fp.gt %s %s)))" % (e, arg, fp(EXP_OVERFLOW)))
            # exp(x) >= fl(1+x)  (x >= 0) ;  exp(x) >= 1 for x >= 0, <= 1 for x <= 0
            out.append("(assert (=> (fp.geq %s %s) (fp.geq %s (fp.add RNE %s %s))))" % (arg, fp(0.0), e, fp(1.0), arg))
            out.append("(assert (=> (fp.leq %s %s) (fp.leq %s %s)))" % (arg, fp(0.0), e, fp(1.0)))
            # monotone bound used for the e^{-Q} form: x <= -0.01  =>  exp(x) <= 0.9901 ; x <= -709.78 => exp(x) <= 2^-1022
            out.append("(assert (=> (fp.leq %s %s) (fp.leq %s %s)))" % (arg, fp(-0.01), e, fp(0.9901)))
            out.append("(assert (=> (fp.leq %s %s) (fp.leq %s %s)))" % (arg, fp(-EXP_OVERFLOW), e, fp(2.0 ** -1022)))
            out.append("(assert (=> (fp.lt %s %s) (fp.isZero %s)))" % (arg, fp(EXP_UNDERFLOW), e))
            # x >= 709.79 is covered by isInfinite; mid-range lower bound exp(x) >= fl(x*x/2) for x >= 0 (keeps Q^2/E small)
            out.append("(assert (=> (fp.geq %s %s) (fp.geq %s (fp.div RNE (fp.mul RNE %s %s) %s))))" % (arg, fp(0.0), e, arg, arg, fp(2.0)))
        return out


EXP_FACTS = [
    "exp(x) is NaN iff x is NaN; exp(x) >= 0",
    "exp(x) = +inf exactly for x > 709.782712893384",
    "exp(x) >= fl(1+x) and exp(x) >= fl(x*x/2) for x >= 0; exp(x) <= 1 for x <= 0",
    "exp(x) <= 0.9901 for x <= -0.01; exp(x) <= 2^-1022 for x <= -709.78; exp(x) = 0 for x < -745.133",
]


def kernel_sources(ns):
    """The function definitions (AST) of the properties Q, Q1, Q2 of the working tree, whatever their shape: one return expression, or a
    straight-line body with local names, in-place operators, `out=` arguments and a `hasattr` cache guard."""
    src = inspect.getsource(ns)
    tree = ast.parse(src)
    props = {}
    for node in ast.walk(tree):
        if isinstance(node, ast.ClassDef) and node.name == "LongitudinalElasticModulusPhononContribution":
            for item in node.body:
                if isinstance(item, ast.FunctionDef) and item.name in ("Q", "Q1", "Q2"):
                    props[item.name] = item
    if set(props) != {"Q", "Q1", "Q2"}:
        raise SymError("could not locate the kernels Q, Q1, Q2 in nonshear.py")
    return props


def kernel_text(fn_node):
    body = [st for st in fn_node.body if not (isinstance(st, ast.Expr) and isinstance(st.value, ast.Constant) and isinstance(st.value.value, str))]
    return "; ".join(ast.unparse(st) for st in body)[:400]


def smt_query(kernel_term, tr, goal, extra=()):
    lines = ["(set-logic QF_FP)", "(declare-const w (_ FloatingPoint 11 53))", "(declare-const T (_ FloatingPoint 11 53))"]
    lines += tr.exp_axioms()
    lines += ["(assert (fp.geq w %s))" % fp(W_LO), "(assert (fp.leq w %s))" % fp(W_HI),
              "(assert (fp.geq T %s))" % fp(T_LO), "(assert (fp.leq T %s))" % fp(T_HI)]
    lines += list(extra)
    lines.append("(define-fun K () (_ FloatingPoint 11 53) %s)" % kernel_term)
    lines.append("(assert %s)" % goal)
    lines += ["(check-sat)", "(get-value (w T))"]
    return "\n".join(lines) + "\n"


def run_solver(text, which, timeout):
    with tempfile.NamedTemporaryFile("w", suffix=".smt2", delete=False, dir=tempfile.gettempdir()) as fp_:
        fp_.write(text)
        fn = fp_.name
    try:
        cmd = {"cvc5": ["cvc5", "--lang", "smt2", "--produce-models", fn], "z3": ["z3", "-smt2", fn]}[which]
        t0 = time.time()
        try:
            r = subprocess.run(cmd, capture_output=True, text=True, timeout=timeout)
            out = r.stdout + r.stderr
        except subprocess.TimeoutExpired:
            return "unknown", None, time.time() - t0
        dt = time.time() - t0
        first = out.strip().splitlines()[0] if out.strip() else ""
        if "(error" in out and first not in ("sat",):
            if first == "unsat" and "get-value" in out or "model is not available" in out or "cannot get value" in out.lower():
                pass
            else:
                return "unknown", out[:200], dt
        if first == "sat":
            return "sat", parse_values(out), dt
        if first == "unsat":
            return "unsat", None, dt
        return "unknown", out[:200], dt
    finally:
        os.unlink(fn)


def parse_values(out):
    import re
    import struct
    vals = {}
    for name in ("w", "T"):
        m = re.search(r"\(%s \(fp #b([01]) #b([01]{11}) #b([01]{52})\)\)" % name, out)
        if m:
            bits = int(m.group(1) + m.group(2) + m.group(3), 2)
            vals[name] = struct.unpack(">d", struct.pack(">Q", bits))[0]
    return vals


def kernel_obligations(chk, ns, tier):
    try:
        props = kernel_sources(ns)
    except SymError as e:
        chk.inconclusive("kernels", str(e))
        return
    consts = {"h_div_k": float(ns.h_div_k)}
    Z.QUERY_LOG  # cvc5/z3 binary queries are logged by hand below
    for kname in ("Q", "Q1", "Q2"):
        tr = KernelTranslator(props, consts)
        try:
            term = tr.tr_function(kname)
        except SymError as e:
            chk.inconclusive("kernel " + kname, str(e))
            continue
        # (1) NaN / inf anywhere in range?
        q = smt_query(term, tr, "(or (fp.isNaN K) (fp.isInfinite K))")
        v, model, dt = run_solver(q, "cvc5", 120)
        Z.QUERY_LOG.append(dict(name="fp:%s:nan-or-inf" % kname, verdict=v, seconds=round(dt, 3), logic="QF_FP", nvars=2 + len(tr.exps),
                                nconstraints=q.count("(assert")))
        if v == "unknown":
            v2, model2, dt2 = run_solver(q, "z3", 120)
            Z.QUERY_LOG.append(dict(name="fp:%s:nan-or-inf[z3]" % kname, verdict=v2, seconds=round(dt2, 3), logic="QF_FP", nvars=2,
                                    nconstraints=0))
            v, model = v2, model2
        chk.obligation("fp:%s finite for every omega in [%g,%g] cm^-1, T in [%g,%g] K" % (kname, W_LO, W_HI, T_LO, T_HI), v,
                       seconds=round(dt, 2), solver="cvc5 1.0 (binary)", logic="QF_FP", kind="fp-kernel",
                       detail=dict(expression=kernel_text(props[kname]), exp_applications=len(tr.exps)))
        if v == "sat":
            replay_kernel(chk, ns, kname, model)
        elif v != "unsat":
            chk.inconclusive("fp:" + kname, "solver returned unknown")
        # (2) reachability twin: the kernel can take an ordinary positive value under the same constraints
        qw = smt_query(term, tr, "(and (fp.gt K %s) (fp.lt K %s))" % (fp(0.25), fp(4.0)))
        vw, _, dtw = run_solver(qw, "cvc5", 60)
        Z.QUERY_LOG.append(dict(name="fp:%s:witness" % kname, verdict=vw, seconds=round(dtw, 3), logic="QF_FP", nvars=2, nconstraints=0))
        chk.witness("fp:%s:ordinary-value-reachable" % kname, vw)
        # (3) low-temperature limit: above the overflow threshold of exp the thermal kernels are (next to) zero
        if kname in ("Q1", "Q2"):
            trq = KernelTranslator(props, consts)
            qterm = trq.tr_function("Q")
            tr2 = KernelTranslator(props, consts)
            term2 = tr2.tr_function(kname)
            ql = smt_query(term2, tr2, "(not (fp.leq (fp.abs K) %s))" % fp(1e-290),
                           extra=["(assert (fp.gt %s %s))" % (qterm, fp(EXP_OVERFLOW + 0.01))])
            vl, modell, dtl = run_solver(ql, "cvc5", 120)
            Z.QUERY_LOG.append(dict(name="fp:%s:low-T-limit" % kname, verdict=vl, seconds=round(dtl, 3), logic="QF_FP", nvars=2, nconstraints=0))
            chk.obligation("fp:%s -> 0 (|.| <= 1e-290) whenever Q exceeds the exp overflow threshold" % kname, vl, seconds=round(dtl, 2),
                           solver="cvc5 1.0 (binary)", logic="QF_FP", kind="fp-kernel")
            if vl == "sat":
                replay_kernel(chk, ns, kname, modell, limit=True)
            elif vl != "unsat":
                chk.inconclusive("fp:%s low-T" % kname, "unknown")
    chk.sample(dict(kernel="Q2", expression=kernel_text(props["Q2"]), query="exists omega,T in range: isNaN or isInf"))


def one_mode_duck(w, T):
    d = PC.Obj()
    d.nq, d.np, d.nv, d.na = 2, 3, 1, 1
    d.t_array = numpy.array([0.0, T])
    d.v_array = numpy.array([300.0])
    f = numpy.full((1, 2, 3), w)
    f[:, 0, :] = 0.0
    g = numpy.full((1, 2, 3), 1.3)
    g[:, 0, :] = 0.0
    d.freq_array = f
    d.mode_gamma = [g * 0.2, g, g ** 2]
    d.qha_input = PC.Obj()
    d.qha_input.weights = [((0, 0, 0), 1.0), ((0, 0, 1), 2.0)]
    d.static_p_array = numpy.array([0.001])
    d.qha_calculator = PC.Obj()
    d.qha_calculator.volume_base = PC.Obj()
    d.qha_calculator.volume_base.pressures = numpy.array([[0.001], [0.002]])
    d.qha_calculator.volume_base.heat_capacity = numpy.array([[1e-5], [2e-5]])
    return d


def replay_kernel(chk, ns, kname, model, limit=False):
    if not model or "w" not in model or "T" not in model:
        chk.harness_error("fp:%s: no model values to replay" % kname)
        return
    w, T = model["w"], model["T"]
    d = one_mode_duck(w, T)
    with numpy.errstate(all="ignore"):
        L = ns.LongitudinalElasticModulusPhononContribution(d, (numpy.array([1 / 3]), numpy.array([1 / 3])))
        k = numpy.asarray(getattr(L, kname))[1, 0, 1, :]
        iso = numpy.asarray(L.value_isothermal)[1]
    if limit:
        if not numpy.all(numpy.abs(k) <= 1e-290):
            chk.violation("fp:%s:low-T-limit" % kname, "%s = %s at omega=%.6g cm^-1, T=%.6g K (Q above the exp overflow threshold) instead of ~0"
                          % (kname, k.tolist(), w, T), dict(omega=w, T=T))
        else:
            chk.harness_error("fp:%s low-T model did not reproduce" % kname)
        return
    if not numpy.all(numpy.isfinite(k)):
        chk.violation("fp:%s:non-finite" % kname,
                      "%s is %s at omega=%.6g cm^-1, T=%.6g K; isothermal modulus there: %s" % (kname, k.tolist(), w, T, iso.tolist()),
                      dict(omega=w, T=T, kernel=kname))
    else:
        chk.harness_error("fp:%s NaN/inf model (omega=%r, T=%r) did not reproduce on the real class (exp model too weak?)" % (kname, w, T))


def masking_and_pipeline(chk, tier, rng):
    """E1: no undefined value reaches any of the 21 assembled components (T=0 row included); T=0 thermal rows are exactly zero.
    Temperature grids: T=0 first (T_MIN = 0), no T=0 point at all (T_MIN > 0), T=0 not in first position."""
    res = keys = ctx = None
    for grid in ("T0-first", "no-T0", "T0-last", "T0-first, C_V(0 K) = 0", "T0-first, last q-point of weight 0"):
        ctx_ = new_context()
        H, K, _ = PC.declare_constants(ctx_)
        nq, np_, nv = 2, 3, 1
        duck = PC.make_duck(ctx_, nq, np_, nv, n_sym_T=1 if grid != "no-T0" else 2, with_T0=(grid != "no-T0"), t0_last=(grid == "T0-last"))
        if grid.endswith("weight 0"):
            # a q-point of weight exactly 0 (legitimate: it drops out of the Brillouin-zone averages) must not turn w * x into 0 * undefined
            duck.weights[-1] = Sym({})
            duck.qha_input.weights = [((0.0, 0.0, float(i)), w) for i, w in enumerate(duck.weights)]
        if grid.endswith("= 0"):
            # the heat capacity the QHA layer hands over vanishes at 0 K (exactly, on fine temperature grids): 0/0 in the adiabatic correction
            duck.heat_capacity[0, :] = Sym({})
        strain = symvars("e", (nv, 3), positive=True)
        keys_ = KEYS if (tier != "quick" and not grid.endswith("= 0") and not grid.endswith("weight 0")) else (["c11", "c12", "c44", "c14", "c15", "c56"] if grid == "T0-first" else ["c11", "c12", "c44", "c15"])
        t0 = time.time()
        try:
            res_, proxy = PL.run_pipeline(duck, strain, keys_)
        except Exception as e:
            chk.inconclusive("pipeline[%s]" % grid, "%s: %s" % (type(e).__name__, e))
            continue
        if grid == "T0-first":
            res, keys, ctx = res_, keys_, ctx_
        bad = []
        for which in ("iso", "adi"):
            for k in keys_:
                a = numpy.asarray(res_[which][k], dtype=object)
                for idx in numpy.ndindex(*a.shape):
                    s = Sym.of(a[idx])
                    if s.poison or any(ctx_.vars.get(n, {}).get("kind") == "undef" for n in Z._closure_vars(s)):
                        bad.append((which, k, idx))
        chk.obligation("pipeline[temperature grid %s]: no undefined value (0/0, x/0, inf) survives into any assembled component [%d keys x iso/adi x %d rows]"
                       % (grid, len(keys_), len(duck.t_array)), "unsat" if not bad else "sat", seconds=round(time.time() - t0, 1), kind="definedness")
        if bad:
            d = PL.float_duck(2, 3, 1, 2, rng, t0=(grid != "no-T0"))
            if grid.endswith("weight 0"):
                d.qha_input.weights = [(q_, 0.0 if i_ == len(d.qha_input.weights) - 1 else w_) for i_, (q_, w_) in enumerate(d.qha_input.weights)]
            if grid.endswith("= 0"):
                d.qha_calculator.volume_base.heat_capacity[0, :] = 0.0
            if grid == "T0-last":
                d.t_array = d.t_array[::-1].copy()
                d.qha_calculator.volume_base.pressures = d.qha_calculator.volume_base.pressures[::-1].copy()
                d.qha_calculator.volume_base.heat_capacity = d.qha_calculator.volume_base.heat_capacity[::-1].copy()
            with numpy.errstate(all="ignore"):
                iso, adi, _ = PL.real_pipeline(d, numpy.array([[0.3, 0.33, 0.37]]), keys_)
            nonfinite = [k for k in keys_ if not (numpy.all(numpy.isfinite(iso[k])) and numpy.all(numpy.isfinite(adi[k])))]
            if nonfinite:
                chk.violation("pipeline:non-finite[%s]" % grid, "assembled components %s contain NaN/inf on a temperature grid %s (T = %s)" % (
                    nonfinite[:4], {"T0-first": "starting at 0 K", "no-T0": "with T_MIN > 0", "T0-last": "whose T = 0 point is not the first", "T0-first, C_V(0 K) = 0": "starting at 0 K where the QHA heat capacity is exactly 0",
                                     "T0-first, last q-point of weight 0": "starting at 0 K, with a q-point of weight 0"}[grid],
                    d.t_array.tolist()), dict(keys=nonfinite, temperatures=d.t_array.tolist()))
            else:
                chk.harness_error("undefined symbolic value %s did not reproduce as NaN/inf" % (bad[:2],))
    if res is None:
        return
    # T=0: thermal part exactly zero -> isothermal(T=0) has no Bose atom and adiabatic == isothermal there
    good = True
    for k in keys:
        a0 = Sym.of(numpy.asarray(res["iso"][k], dtype=object)[0, 0])
        b0 = Sym.of(numpy.asarray(res["adi"][k], dtype=object)[0, 0])
        if any(n.startswith("exp!") for n in Z._closure_vars(a0)) or not a0.same(b0):
            good = False
    chk.obligation("pipeline: T=0 row carries no thermal (Bose) term and adiabatic == isothermal there", "unsat" if good else "sat",
                   kind="identity")
    if not good:
        d = PL.float_duck(2, 3, 1, 2, rng)
        with numpy.errstate(all="ignore"):
            iso, adi, _ = PL.real_pipeline(d, numpy.array([[0.3, 0.33, 0.37]]), keys)
            d.t_array = numpy.array([0.0, d.t_array[1] * 1.7])
            iso2, adi2, _ = PL.real_pipeline(d, numpy.array([[0.3, 0.33, 0.37]]), keys)
        if any(abs(iso[k][0, 0] - adi[k][0, 0]) > 1e-12 * abs(iso[k][0, 0]) for k in keys):
            chk.violation("pipeline:T0-gap", "adiabatic != isothermal at T=0", {})
        else:
            chk.harness_error("T=0 masking failure did not reproduce")


def completion_on_degenerate_strains(chk, tier, rng):
    """The calculation completes for mixed shear keys whatever the axial strains: the de-duplication's approximate-equality decisions are
    forked by the solver (coinciding or nearly coinciding strain fractions -- equal thirds without a lattice block, a = b, ... -- are
    exactly the paths on which tasks are merged), and the whole pipeline runs on every path."""
    from fractions import Fraction
    cases = [["c14"], ["c12", "c46"]]
    if tier != "quick":
        cases += [["c15"], ["c56"], ["c13", "c25"], ["c16", "c45"], ["c24", "c34"]]
    for R in cases:
        name = "completion%s" % R
        ctx = new_context()
        H, K, _ = PC.declare_constants(ctx)
        duck = PC.make_duck(ctx, 2, 3, 1, n_sym_T=1)
        strain = symvars("e", (1, 3), lo=Fraction(1, 20), hi=Fraction(9, 10))
        ex = X.Explorer(max_paths=256, name=name, decision_timeout_ms=4000)
        t0 = time.time()
        try:
            paths, proxy = PL.run_pipeline(duck, strain, R, close_mode="solver", explorer=ex)
        except (SymError, X.PathBudgetExceeded) as e:
            chk.inconclusive(name, str(e))
            continue
        failing = [p for p in paths if p.exception is not None]
        undefined = []
        for p in paths:
            if p.exception is None:
                for which in ("iso", "adi"):
                    for k, a in p.result[which].items():
                        if any(Sym.of(x).poison for x in numpy.asarray(a, dtype=object).ravel()):
                            undefined.append((k, which))
        chk.obligation(name + ": completes with defined values on all %d paths of the task de-duplication (coinciding strain fractions included)" % len(paths),
                       "unsat" if not failing and not undefined else "sat", seconds=round(time.time() - t0, 1), kind="all-paths",
                       detail=("%s: %s" % (type(failing[0].exception).__name__, str(failing[0].exception)[:100])) if failing else undefined[:3])
        if len(paths) > 1:
            chk.witness(name + ": merge paths reachable", "sat")
        if failing or undefined:
            pth = failing[0] if failing else paths[0]
            v, env = Z.satisfiable([], name=name + ":failing-path-model", conds=pth.path_condition())
            cands = []
            if env:
                cands.append([float(env.get("e_0_%d" % i, 1.0 / 3)) for i in range(3)])
            cands += [[1.0, 1.0, 1.0], [0.3, 0.3, 0.4], [0.4, 0.3, 0.3], [0.3, 0.4, 0.3]]
            d = PL.float_duck(2, 3, 1, 2, rng)
            done = False
            for e in cands:
                try:
                    with numpy.errstate(all="ignore"):
                        iso, adi, _ = PL.real_pipeline(d, numpy.array([e]), R)
                    if not all(numpy.all(numpy.isfinite(iso[k])) and numpy.all(numpy.isfinite(adi[k])) for k in R):
                        chk.violation("pipeline:non-finite-degenerate", "components %s are not finite for axial strains %s" % (R, e), dict(request=R, strain=e))
                        done = True
                        break
                except Exception as ex_:
                    chk.violation("pipeline:raises-degenerate", "the phonon task pipeline raises %s: %s for request %s with axial strains %s" % (
                        type(ex_).__name__, str(ex_)[:100], R, e), dict(request=R, strain=e))
                    done = True
                    break
            if not done:
                chk.harness_error("%s: failing path did not reproduce on the real pipeline" % name)


def grid_settings_completion(chk, tier, rng):
    """Loading the QHA layer completes for every documented temperature / pressure step: the real
    QHACalculatorAdapter._load_qha_calculator and the real qha grid properties it evaluates run with DT and DELTA_P as finite-domain
    symbolic values (the forking executor enumerates the feasible outcomes of every int() / slice step the code derives from them,
    z3 decides feasibility); the other settings are the packaged defaults of the working tree.  The numeric work of the QHA layer
    (reading, grid refinement, range check) is stubbed out -- only the settings arithmetic is exercised."""
    import yaml
    import cij.data
    import cij.core.qha_adapter as qa
    from fractions import Fraction as Fr
    chk.encode(qa.QHACalculatorAdapter._load_qha_calculator)
    with open(cij.data.get_data_fname("default/settings.yaml")) as fp:
        defaults = yaml.load(fp, Loader=yaml.FullLoader)["qha"]["settings"]
    ctx = new_context()
    ctx.concretise_enabled = True
    dts = [Fr(1, 2), Fr(5), Fr(25), Fr(100), Fr(150), Fr(250), Fr(500)] if tier == "quick" else [Fr(1, 2), Fr(1), Fr(5), Fr(20), Fr(25), Fr(50), Fr(100), Fr(150), Fr(200), Fr(250), Fr(300), Fr(500)]
    dps = [Fr(1, 10), Fr(1, 2), Fr(1), Fr(2), Fr(5)]
    DT = ctx.var("DT", positive=True, domain=dts)
    DP = ctx.var("DELTA_P", positive=True, domain=dps)
    settings = dict(defaults)
    settings.update(DT=DT, DELTA_P=DP, NT=3, NTV=4)

    class Quiet(qa.QHACalculator):
        def read_input(self, x):
            pass

        def refine_grid(self):
            pass

        def desired_pressure_status(self):
            pass
        where_negative_frequencies = None
        v_ratio = 1.2

    class FakeJson:
        @staticmethod
        def dumps(obj, *a, **k):
            return repr(obj)

    def fn():
        import logging
        logging.disable(logging.CRITICAL)
        try:
            with patched((qa, {"QHACalculator": Quiet, "json": FakeJson})):
                calc = qa.QHACalculatorAdapter._load_qha_calculator(dict(settings), object())
            return len(calc.temperature_array), len(calc.desired_pressures_gpa)
        finally:
            logging.disable(logging.NOTSET)
    t0 = time.time()
    try:
        paths = X.Explorer(max_paths=256, name="C12:grid-settings").run(fn)
    except (SymError, X.PathBudgetExceeded) as e:
        chk.inconclusive("grid settings", str(e))
        return
    failing = [p for p in paths if p.exception is not None]
    chk.obligation("loading the QHA layer completes for every DT in %s K and DELTA_P in %s GPa (other settings: packaged defaults) [%d paths]"
                   % ([float(x) for x in dts], [float(x) for x in dps], len(paths)), "unsat" if not failing else "sat",
                   seconds=round(time.time() - t0, 1), kind="all-paths(finite domain)",
                   detail=("%s: %s" % (type(failing[0].exception).__name__, str(failing[0].exception)[:100])) if failing else None)
    chk.witness("grid settings: the loader ran to the end on at least one path (grids of %s points)" % (paths[0].result,), "sat" if any(p.exception is None for p in paths) or failing else "unsat")
    if failing:
        v, env = Z.satisfiable([], name="C12:grid-settings:model", conds=failing[0].path_condition())
        dt = float((env or {}).get("DT", 150.0))
        dp = float((env or {}).get("DELTA_P", 1.0))
        conc = dict(defaults)
        conc.update(DT=dt, DELTA_P=dp, NT=3, NTV=4)
        import logging
        logging.disable(logging.CRITICAL)
        try:
            with patched((qa, {"QHACalculator": Quiet})):
                qa.QHACalculatorAdapter._load_qha_calculator(conc, object())
            chk.harness_error("grid settings: failing path (DT=%s, DELTA_P=%s) did not reproduce" % (dt, dp))
        except Exception as e:
            chk.violation("grid-settings:raises", "loading the QHA layer with DT = %g K, DELTA_P = %g GPa (all other settings at the packaged defaults) raises "
                          "%s: %s" % (dt, dp, type(e).__name__, str(e)[:100]), dict(DT=dt, DELTA_P=dp))
        finally:
            logging.disable(logging.NOTSET)


def omitted_settings_completion(chk, tier, rng):
    """Every schema-valid configuration: each documented QHA setting may be left out by the user (the schema requires none of them).
    The omitted key is a finite-domain symbolic index; the effective configuration is built by the real apply_default_config and
    handed to the real loader (numeric QHA work stubbed as in grid_settings_completion)."""
    import json
    import cij.data
    import cij.core.qha_adapter as qa
    import cij.io.config as cfgmod
    with open(cij.data.get_data_fname("schema/config.schema.json")) as fp:
        schema = json.load(fp)
    keys = sorted(k for k in schema["definitions"]["qha_settings"]["properties"] if k != "additionalProperties")
    full = dict(NT=3, DT=100, T_MIN=0, NTV=4, P_MIN=0, DELTA_P=1, DELTA_P_SAMPLE=1, volume_ratio=1.2, order=3)
    keys = [k for k in keys if k in full]
    ctx = new_context()
    ctx.concretise_enabled = True
    OM = ctx.var("omitted", domain=list(range(len(keys))))

    class Quiet(qa.QHACalculator):
        def read_input(self, x):
            pass

        def refine_grid(self):
            pass

        def desired_pressure_status(self):
            pass
        where_negative_frequencies = None
        v_ratio = 1.2

    def load(user):
        import logging
        logging.disable(logging.CRITICAL)
        try:
            cfgmod.validate_config(user)
            eff = cfgmod.apply_default_config(user)
            with patched((qa, {"QHACalculator": Quiet})):
                calc = qa.QHACalculatorAdapter._load_qha_calculator(dict(eff["qha"]["settings"]), object())
            return len(calc.temperature_array), len(calc.desired_pressures_gpa)
        finally:
            logging.disable(logging.NOTSET)

    def fn():
        k = keys[int(OM)]
        st = {a: b for a, b in full.items() if a != k}
        return k, load({"qha": {"input": "input01", "settings": st}, "elast": {"input": "elast.dat", "settings": {}}})
    t0 = time.time()
    try:
        paths = X.Explorer(max_paths=64, name="C12:omitted-setting").run(fn)
    except (SymError, X.PathBudgetExceeded) as e:
        chk.inconclusive("omitted settings", str(e))
        return
    failing = [p for p in paths if p.exception is not None]
    chk.obligation("the calculation's QHA layer loads whichever single documented setting of %s the user leaves out [%d paths]" % (keys, len(paths)),
                   "unsat" if not failing else "sat", seconds=round(time.time() - t0, 1), kind="all-paths(finite domain)",
                   detail=("%s: %s" % (type(failing[0].exception).__name__, str(failing[0].exception)[:100])) if failing else None)
    chk.witness("omitted settings: one path per documented setting", "sat" if len(paths) == len(keys) else "unsat")
    for p in failing:
        v, env = Z.satisfiable([], name="C12:omitted:model", conds=p.path_condition())
        k = keys[int((env or {}).get("omitted", 0))]
        user = {"qha": {"input": "input01", "settings": {a: b for a, b in full.items() if a != k}}, "elast": {"input": "elast.dat", "settings": {}}}
        try:
            load(user)
            chk.harness_error("omitted settings: failing path (%s) did not reproduce" % k)
        except Exception as e:
            chk.violation("omitted-setting:%s" % k, "a validated configuration that leaves out qha.settings.%s cannot be run: %s: %s (no packaged default "
                          "stands in for it)" % (k, type(e).__name__, str(e)[:80]), dict(user=user))


def integer_spelling_twin(chk, rng):
    """Configuration twin: the schema types the interpolation order (and NT, NTV) as JSON 'integer', which YAML/JSON spellings such as
    3.0 satisfy.  A validated configuration written that way must run like the one written with 3."""
    import cij.core.mode_gamma as mg
    import cij.io.config as cfgmod
    import cij.io.traditional.models as md
    user = {"qha": {"input": "input01", "settings": {"NT": 6.0, "NTV": 31.0}}, "elast": {"input": "elast.dat", "settings": {"mode_gamma": {"interpolator": "lsq_poly", "order": 3.0}}}}
    try:
        cfgmod.validate_config(user)
    except Exception as e:
        chk.side_check("integer spelling twin: the float spelling is rejected by validation (%s)" % type(e).__name__, True)
        return
    nvol, nq, np_ = 8, 2, 6
    vols = numpy.linspace(420, 300, nvol)
    gam = numpy.array([[0.8 + 0.3 * k + 0.7 * j for k in range(np_)] for j in range(nq)])
    A = numpy.array([[1e4 * (1 + k + 3 * j) for k in range(np_)] for j in range(nq)])
    volumes = [md.VolumeData(0.0, vols[i], 0.0, [md.QPointData((0, 0, j), list(A[j] * vols[i] ** (-gam[j]))) for j in range(nq)]) for i in range(nvol)]
    qin = md.QHAInputData(nvol, nq, np_, 1, 2, [((0, 0, j), 1.0) for j in range(nq)], volumes)
    v = numpy.linspace(410, 310, 5)
    bad = []
    compared = 0
    for method in ("lsq_poly", "spline", "lagrange", "krogh", "pchip", "akima"):
        try:
            with warnings.catch_warnings():
                warnings.simplefilter("ignore")
                a = mg.interpolate_modes(qin, v, method=method, order=3)
        except Exception:
            continue        # this method does not admit order 3 on this data: not the twin's subject
        compared += 1
        try:
            with warnings.catch_warnings():
                warnings.simplefilter("ignore")
                b = mg.interpolate_modes(qin, v, method=method, order=3.0)
            if any(not numpy.array_equal(x, y, equal_nan=True) for x, y in zip(a, b)):
                bad.append("%s: order 3.0 gives different numbers than order 3" % method)
        except Exception as e:
            bad.append("%s: %s: %s" % (method, type(e).__name__, str(e)[:70]))
    if bad:
        chk.violation("integer-spelling:mode_gamma.order", "a validated configuration spelling the interpolation order as 3.0 (a JSON 'integer') does not run like "
                      "order 3: %s" % "; ".join(bad[:3]), dict(user=user))
    elif compared < 3:
        chk.harness_error("integer spelling twin: only %d interpolators ran with order 3" % compared)
    else:
        chk.side_check("integer spelling twin: order 3.0 runs like order 3 for %d interpolators" % compared, True)


def high_order_twin(chk):
    """Configuration twin on shipped data: an interpolation order the method admits -- every sampled volume a node (krogh, order = number of
    volumes) -- with the packaged diopside inputs and settings (only NT reduced).  Every isothermal modulus must be finite on the whole grid."""
    import shutil
    import tempfile
    import yaml
    import logging
    from cij.core.calculator import Calculator
    src = os.path.join(os.environ.get("CIJ_REPO", "/repo"), "examples", "diopside")
    d = tempfile.mkdtemp(prefix="c12ho_")
    try:
        for f in ("input01", "input02"):
            shutil.copy(os.path.join(src, f), d)
        cfg = yaml.safe_load(open(os.path.join(src, "settings.yaml")))
        cfg["qha"]["settings"].update(NT=3, DT=500, DT_SAMPLE=500)
        nvol = sum(1 for l in open(os.path.join(src, "input01")) if l.lstrip().startswith("P="))
        cfg["elast"]["settings"]["mode_gamma"] = {"interpolator": "krogh", "order": nvol}
        with open(os.path.join(d, "settings.yaml"), "w") as fp:
            yaml.safe_dump(cfg, fp)
        logging.disable(logging.CRITICAL)
        with warnings.catch_warnings(), numpy.errstate(all="ignore"):
            warnings.simplefilter("ignore")
            calc = Calculator(os.path.join(d, "settings.yaml"))
            bad = {("c%d%d" % k.v): int((~numpy.isfinite(numpy.asarray(v))).sum()) for k, v in calc.modulus_isothermal.items()}
            n_inf = int(numpy.isinf(numpy.asarray(calc.freq_array)).sum())
            shape = numpy.asarray(next(iter(calc.modulus_isothermal.values()))).shape
    except Exception as e:
        chk.note("high-order twin: run failed (%s: %s)" % (type(e).__name__, str(e)[:80]))
        return
    finally:
        logging.disable(logging.NOTSET)
        shutil.rmtree(d, ignore_errors=True)
    worst = max(bad.values()) if bad else 0
    if worst:
        chk.violation("high-order-interpolant:non-finite", "examples/diopside with its packaged settings and `mode_gamma: {interpolator: krogh, order: %d}` (every one of the %d "
                      "volumes a node -- an order the method admits): %d interpolated frequencies on the volume grid are +inf and every isothermal modulus is NaN at %d of "
                      "the %d x %d grid points (the degree-%d polynomial in ln V overflows exp() on the margin the volume_ratio adds)" % (
                          nvol, nvol, n_inf, worst, shape[0], shape[1], nvol - 1), dict(interpolator="krogh", order=nvol))
    else:
        chk.side_check("high-order twin: diopside with krogh, order = number of volumes: all isothermal moduli finite", True)


def realness(chk, rng):
    """Concrete (all 15 keys): the eigen-frame the real class computes is a real array (dtype), as is the rotated strain."""
    import cij.core.phonon_contribution.shear as sh
    from cij.util import c_
    bad = []
    for ks in PL.SHEAR:
        o = sh.ShearElasticModulusPhononContribution(numpy.array([[0.3, 0.33, 0.37]]), c_(ks[1:]))
        T = numpy.asarray(o.transformation_matrix)
        lam = numpy.asarray(o.fictitious_strain_rotated)
        sr = numpy.asarray(o.strain_rotated)
        if T.dtype.kind != "f" or lam.dtype.kind != "f" or sr.dtype.kind != "f":
            bad.append((ks, str(T.dtype), str(sr.dtype)))
    chk.side_check("eigen-frame and rotated strains are real-typed for all 15 shear keys", not bad, bad[:3])
    if bad:
        try:
            d = PL.float_duck(2, 3, 1, 2, rng)
            iso, adi, _ = PL.real_pipeline(d, numpy.array([[0.3, 0.33, 0.37]]), [bad[0][0]])
            if numpy.iscomplexobj(iso[bad[0][0]]):
                chk.violation("realness:complex-result", "phonon modulus %s is complex-typed" % bad[0][0], dict(key=bad[0][0]))
            else:
                chk.note("complex eigen-frame dtype for %s but the pipeline result is real" % (bad[:2],))
        except Exception as e:
            chk.violation("realness:pipeline-raises", "complex eigen-decomposition makes the task pipeline raise %s: %s" % (
                type(e).__name__, str(e)[:140]), dict(keys=[b[0] for b in bad[:3]]))


def main():
    tier = os.environ.get("VERIF_TIER", "quick")
    if len(sys.argv) > 1:
        tier = sys.argv[1]
    chk = Check("C12", tier, "source AST of the Bose-factor kernels -> QF_FP (Float64) with an axiomatised exp; cvc5 decides NaN/inf "
                             "reachability over omega, T ranges; symbolic pipeline for T=0 masking / definedness")
    import cij.core.phonon_contribution.nonshear as ns
    chk.encode(ns.LongitudinalElasticModulusPhononContribution)
    Z.reset_log()
    rng = random.Random(seed() + 12)
    kernel_obligations(chk, ns, tier)
    masking_and_pipeline(chk, tier, rng)
    completion_on_degenerate_strains(chk, tier, rng)
    grid_settings_completion(chk, tier, rng)
    omitted_settings_completion(chk, tier, rng)
    integer_spelling_twin(chk, rng)
    high_order_twin(chk)
    realness(chk, rng)
    chk.bound(omega_cm1=[W_LO, W_HI], T_K=[T_LO, T_HI], fp="IEEE binary64, round-nearest-even", solver_timeout_s=120)
    for f in EXP_FACTS:
        chk.assume("numpy.exp model: " + f)
    chk.stub("numpy.exp -> uninterpreted Float64 function constrained by the listed facts")
    chk.out_of_claim("the sweep 'every schema-valid configuration x every interpolator completes' (library code: qha, scipy, LAPACK); "
                     "T below 0.01 K; overflow of sums/products outside the three kernels")
    return chk.finish("cvc5 decides, in the theory of IEEE floats, whether any finite (omega, T) in range makes Q, Q1 or Q2 NaN/inf and "
                      "whether they vanish above the exp overflow threshold; the encoding is regenerated from nonshear.py's AST on every "
                      "run; sat models are replayed through the real class.")


if __name__ == "__main__":
    run_main(main)
