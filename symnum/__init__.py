from .sym import Sym, SymError, symarray, symvars, new_context, current, is_sym
