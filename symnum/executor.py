"""symnum.executor -- path forking by re-execution with decision prefixes.

Every comparison on a non-constant Sym asks the solver whether the condition
can be true / can be false under assumptions + path condition.  If only one
outcome is feasible it is taken; otherwise the run forks: the function is
executed again from the start with a recorded decision prefix (depth first).
"""
from __future__ import annotations

import time
from fractions import Fraction

import z3

from . import sym as S
from . import solver as Z
from .sym import Sym, SymError


class PathBudgetExceeded(Exception):
    pass


class InfeasiblePath(BaseException):
    """Raised inside the analysed code when the executor finds the current path condition unsatisfiable (BaseException: the analysed
    code's own `except Exception` handlers must not swallow it)."""


NEG = {"==": "!=", "!=": "==", ">": "<=", ">=": "<", "<": ">=", "<=": ">"}


def cond_rel(op, s):
    return ("rel", op, Sym.of(s))


def cond_and(*cs):
    return ("and",) + tuple(cs)


def cond_or(*cs):
    return ("or",) + tuple(cs)


def cond_not(c):
    return ("not", c)


def cond_abs_le(x, y):
    """|x| <= y"""
    return cond_and(cond_rel("<=", x - y), cond_rel("<=", -x - y))


def _cond_key(c):
    if c[0] == "rel":
        return ("rel", c[1], c[2].key())
    if c[0] == "not":
        return ("not", _cond_key(c[1]))
    return (c[0],) + tuple(_cond_key(x) for x in c[1:])


def _cond_z3(c, enc):
    if c[0] == "rel":
        return enc.rel(c[1], c[2])
    if c[0] == "not":
        return z3.Not(_cond_z3(c[1], enc))
    if c[0] == "and":
        return z3.And([_cond_z3(x, enc) for x in c[1:]]) if len(c) > 1 else z3.BoolVal(True)
    if c[0] == "or":
        return z3.Or([_cond_z3(x, enc) for x in c[1:]]) if len(c) > 1 else z3.BoolVal(False)
    raise ValueError(c)


def cond_eval(c, env):
    if c[0] == "rel":
        v = c[2].evalf(dict(env))
        return {"==": v == 0, "!=": v != 0, ">": v > 0, ">=": v >= 0, "<": v < 0, "<=": v <= 0}[c[1]]
    if c[0] == "not":
        return not cond_eval(c[1], env)
    if c[0] == "and":
        return all(cond_eval(x, env) for x in c[1:])
    if c[0] == "or":
        return any(cond_eval(x, env) for x in c[1:])
    raise ValueError(c)


def cond_str(c):
    if c[0] == "rel":
        return "%s %s 0" % (c[2].short(4), c[1])
    if c[0] == "not":
        return "not(" + cond_str(c[1]) + ")"
    return "(" + (" %s " % c[0]).join(cond_str(x) for x in c[1:]) + ")"


class PathResult:
    def __init__(self, decisions, result, exception, feasibility_unknown):
        self.decisions = decisions          # list of (cond, outcome, forked)
        self.result = result
        self.exception = exception
        self.feasibility_unknown = feasibility_unknown

    def path_condition(self):
        """Conditions of forked decisions (entailed ones add nothing)."""
        out = []
        for cond, outcome, forked in self.decisions:
            if forked:
                out.append(cond if outcome else cond_not(cond))
        return out

    def path_rels(self):
        return self.path_condition()


class Explorer:
    """Depth-first exploration of fn() over all feasible outcomes of symbolic comparisons."""

    def __init__(self, max_paths=64, decision_timeout_ms=4000, name="explore"):
        self.max_paths = max_paths
        self.decision_timeout_ms = decision_timeout_ms
        self.name = name
        self.cache = {}
        self.solver_calls = 0
        self.solver_seconds = 0.0
        self.paths = []
        self.prefer = None      # optional callback(cond) -> True/False/None : deliberate cut (recorded)
        self.cuts = []
        # genericity cut: an *exact* equality test between structurally different symbolic values that the assumptions do not decide is
        # taken as "not equal", and a magnitude guard |x| > c with c <= 1e-3 on a not identically zero x as "x is not tiny" (inputs in
        # general position); the cut is recorded and becomes part of the path condition.  Off by default:
        # where equalities are what a check is about (index algebra, finite domains) both sides are explored.
        self.generic_eq = False
        self.infeasible_paths = 0

    # -- one run ------------------------------------------------------------
    def _feasible(self, path_conds, cond):
        key = (tuple(_cond_key(c) for c in path_conds), _cond_key(cond))
        if key in self.cache:
            return self.cache[key]
        enc = Z.Encoder()
        cons = [_cond_z3(c, enc) for c in path_conds] + [_cond_z3(cond, enc)]
        cons += enc.assumptions()
        cons += enc.side_conditions()
        t0 = time.time()
        # no retry here: an undecided branch is explored on both sides anyway, and a guard the solver cannot decide must cost a
        # bounded amount of time per array element
        v, _ = Z.check(cons, name=self.name + ":branch", timeout_ms=self.decision_timeout_ms, enc=enc,
                       want_model=False, retry=False)
        self.solver_calls += 1
        self.solver_seconds += time.time() - t0
        self.cache[key] = v
        return v

    def run(self, fn):
        """Explore all paths of fn; returns list of PathResult."""
        ctx = S.current()
        stack = [[]]
        self.paths = []
        while stack:
            prefix = stack.pop()
            if len(self.paths) >= self.max_paths:
                raise PathBudgetExceeded("%s: more than %d paths" % (self.name, self.max_paths))
            decisions = []
            unknown = [False]
            path_conds = []

            def decide_cond(cond, _prefix=prefix, _decisions=decisions, _pc=path_conds, _unk=unknown):
                i = len(_decisions)
                if i < len(_prefix):
                    outcome, forked = _prefix[i]
                    _decisions.append((cond, outcome, forked))
                    if forked:
                        _pc.append(cond if outcome else cond_not(cond))
                    return outcome
                vt = self._feasible(_pc, cond)
                vf = self._feasible(_pc, cond_not(cond))
                can_t = vt != "unsat"
                can_f = vf != "unsat"
                if vt == "unknown" or vf == "unknown":
                    _unk[0] = True
                gpref = None
                if can_t and can_f and self.generic_eq:
                    gpref = (cond[1] == "!=") if (cond[0] == "rel" and cond[1] in ("==", "!=")) else tiny_magnitude_pref(cond)
                if gpref is not None:
                    pref = gpref
                    self.cuts.append((cond, pref))
                    GENERIC_CUTS[0] += 1
                    _decisions.append((cond, pref, True))
                    _pc.append(cond if pref else cond_not(cond))
                    return pref
                if can_t and can_f and self.prefer is not None:
                    pref = self.prefer(cond)
                    if pref is not None:
                        # deliberate cut: only this side is explored; it becomes part of the path condition
                        self.cuts.append((cond, bool(pref)))
                        _decisions.append((cond, bool(pref), True))
                        _pc.append(cond if pref else cond_not(cond))
                        return bool(pref)
                if can_t and can_f:
                    # fork: take True now, schedule False
                    alt = [(o, f) for (_, o, f) in _decisions] + [(False, True)]
                    stack.append(alt)
                    _decisions.append((cond, True, True))
                    _pc.append(cond)
                    return True
                if can_t:
                    _decisions.append((cond, True, False))
                    return True
                if can_f:
                    _decisions.append((cond, False, False))
                    return False
                # neither outcome is satisfiable: the path condition itself is unsatisfiable (it was entered on an `unknown` feasibility
                # answer -- branch queries are not retried).  No input follows this path: abandon it.
                raise InfeasiblePath()

            def decide(op, d):
                return decide_cond(("rel", op, d))

            old = ctx.decide
            old_c = getattr(ctx, "decide_cond", None)
            old_abs = getattr(ctx, "abs_as_atom", False)
            ctx.decide = decide
            ctx.decide_cond = decide_cond
            if self.generic_eq:
                ctx.abs_as_atom = True
            result = None
            exc = None
            infeasible = False
            try:
                result = fn()
            except InfeasiblePath:
                infeasible = True
                self.infeasible_paths += 1
            except (SymError, PathBudgetExceeded):
                raise
            except Exception as e:  # the analysed code raised: an outcome of this path
                exc = e
            finally:
                ctx.decide = old
                ctx.decide_cond = old_c
                ctx.abs_as_atom = old_abs
            if not infeasible:
                self.paths.append(PathResult(decisions, result, exc, unknown[0]))
        if not self.paths:
            raise SymError("%s: every explored path turned out infeasible" % self.name)
        return self.paths


GENERIC_CUTS = [0]      # number of genericity cuts taken in this process (reported with the evidence)
TINY = Fraction(1, 1000)


def tiny_magnitude_pref(cond):
    """A magnitude guard |x| (an abs atom, see Context.abs_as_atom) against a constant of at most 1e-3 in absolute value, for a symbolic x
    that is not identically zero: the outcome for 'x is not tiny' (True / False), or None if the condition has another shape."""
    if cond[0] != "rel":
        return None
    terms = dict(cond[2].t)
    const = terms.pop((), None)
    if const is None or abs(const) > TINY or len(terms) != 1:
        return None
    (mono, co), = terms.items()
    if len(mono) == 1 and mono[0][1] == 1 and mono[0][0].startswith("sqrt!") and abs(co) == 1:
        big = {">": True, ">=": True, "<": False, "<=": False, "==": False, "!=": True}[cond[1]]
        return big if co > 0 else not big
    return None


def run_single_path(fn, name="single", generic=False):
    """Run fn where every comparison must be entailed (no fork); returns the result.
    A fork means the harness' assumptions do not decide a guard: harness error.  generic=True: undecided exact equalities between
    structurally different values are cut as 'not equal' (see Explorer.generic_eq)."""
    ex = Explorer(max_paths=1, name=name)
    ex.generic_eq = generic
    try:
        paths = ex.run(fn)
    except PathBudgetExceeded:
        raise SymError("%s: a guard was not decided by the assumptions (unexpected fork)" % name)
    p = paths[0]
    if p.exception is not None:
        raise p.exception
    return p.result


def explore(fn, name="explore", max_paths=8, generic=False):
    """All feasible paths of fn (a data-dependent guard in the analysed code is part of its behaviour and is explored on both
    sides).  A path budget overrun is a harness error (SymError)."""
    ex = Explorer(max_paths=max_paths, name=name)
    ex.generic_eq = generic
    try:
        return ex.run(fn)
    except PathBudgetExceeded as e:
        raise SymError("%s: %s" % (name, e))


class path_assumptions:
    """Within the block the path condition of `p` is part of the context's assumptions, so every solver query of the harness
    (identities, witnesses, models) is relative to that path."""

    def __init__(self, p):
        self.pc = list(p.path_condition())

    def __enter__(self):
        S.current().cond_assumptions.extend(self.pc)
        return self

    def __exit__(self, *a):
        if self.pc:
            del S.current().cond_assumptions[-len(self.pc):]
        return False
