"""symnum.npproxy -- a stand-in for the `numpy` module global of an analysed cij module.

It defers to numpy for everything except the handful of entry points that
cannot carry `Sym` elements:

* zeros / ones / empty / full (+ *_like)  -> object arrays
* isclose / allclose                     -> decided by the solver on Sym arguments
                                            (real semantics |a-b| <= atol + rtol*|b|)
* linalg.eig / eigh                      -> the real routine on the concrete matrix,
                                            output lifted to exact algebraic numbers
* linalg.inv                             -> uninterpreted symmetric inverse symbols
* linalg.lstsq                           -> exact least-squares specification
* polyfit                                -> uninterpreted / exact stub (installed per harness)

Installed from outside with ``patched(module, numpy=proxy)``; /repo is not edited.
"""
from __future__ import annotations

import contextlib
import types
from fractions import Fraction

import numpy as _np

from . import sym as S
from .sym import Sym, SymError, symarray
from . import executor as X


CAP_CUTS = set()    # (which, constant) of every cap cut taken in this process (reported with the evidence)
# the only cap that is cut rather than explored: nonshear.Q = minimum(h*omega/(k*T), 1e3) (beyond it exp(-Q) is exactly zero; that
# region is decided by the QF_FP kernel obligations of C12).  Every other numpy.minimum / maximum on symbolic values is explored.
CAP_ALLOWED = {("minimum", 1000.0)}


def has_sym(a):
    if isinstance(a, Sym):
        return True
    if isinstance(a, _np.ndarray):
        if a.dtype != object:
            return False
        return any(isinstance(x, Sym) for x in a.ravel().tolist())
    if isinstance(a, (list, tuple)):
        return any(has_sym(x) for x in a)
    return False


def _numeric_or_none(a):
    """float array if every element is numeric / numerically constant, else None."""
    arr = _np.asarray(a, dtype=object) if not isinstance(a, _np.ndarray) else a
    if arr.dtype != object:
        return _np.asarray(arr, dtype=float) if arr.dtype.kind in "fiub" else arr
    out = _np.empty(arr.shape, dtype=float)
    fo = out.ravel()
    for i, x in enumerate(arr.ravel().tolist()):
        if isinstance(x, Sym):
            v = S._try_numeric(x)
            if v is None:
                return None
            fo[i] = v
        else:
            try:
                fo[i] = float(x)
            except Exception:
                return None
    return out


def _decide_cond(cond):
    ctx = S.current()
    dc = getattr(ctx, "decide_cond", None)
    if dc is None:
        raise SymError("symbolic condition outside an executor: " + X.cond_str(cond))
    return dc(cond)


class _Linalg:
    def __init__(self, proxy):
        self._p = proxy

    def __getattr__(self, name):
        return getattr(_np.linalg, name)

    # -- eigen-decomposition of a concrete symmetric matrix, exact lift ------
    def eig(self, a):
        return self._p._eig(a, "eig")

    def eigh(self, a, UPLO="L"):
        return self._p._eig(a, "eigh")

    def solve(self, a, b):
        """numpy.linalg.solve with a symbolic matrix: the uninterpreted inverse of `a` (the same symbols `inv` would return, also recorded
        as an inverse) applied to `b`; against the identity that is the inverse itself."""
        if not (has_sym(a) or has_sym(b)):
            return _np.linalg.solve(a, b)
        inv = self._p._inv(a)
        nb = _numeric_or_none(b)
        n = _np.asarray(a, dtype=object).shape[-1]
        if nb is not None and nb.shape[-2:] == (n, n) and _np.array_equal(nb, _np.broadcast_to(_np.identity(n), nb.shape)):
            return inv
        B = _np.asarray(b, dtype=object)
        return _np.matmul(inv, B)

    def inv(self, a):
        return self._p._inv(a)

    def lstsq(self, a, b, rcond=None):
        return self._p._lstsq(a, b, rcond)


class NumpyProxy(types.ModuleType):
    def __init__(self):
        super().__init__("numpy_proxy")
        self.linalg = _Linalg(self)
        self.calls = []            # record of intercepted calls (evidence)
        self.eig_records = []      # (routine, matrix, dtype of the real result)
        self.lstsq_records = []
        self.inv_records = []
        self.polyfit_impl = None
        self.extra = {}
        self.close_mode = "solver"   # 'solver' | 'structural' (cut: close iff structurally identical)
        self.structural_cuts = 0

    def __getattr__(self, name):
        if name in self.extra:
            return self.extra[name]
        return getattr(_np, name)

    # -- contractions -----------------------------------------------------------
    def einsum(self, subscripts, *operands, **kw):
        """numpy.einsum; operands that carry Sym elements are contracted by an explicit sum of products over the index space
        (explicit or implicit output, one ellipsis per operand)."""
        if not isinstance(subscripts, str) or not any(has_sym(o) for o in operands):
            return _np.einsum(subscripts, *operands, **kw)
        try:
            # numpy's own einsum first: it handles object arrays of one dtype and returns *views* where the real one does (the code
            # writes through `einsum('...ii->...i', m)[...] = d`); only a mix it cannot cast (float with Sym) is contracted below
            return _np.einsum(subscripts, *operands, **kw)
        except (TypeError, ValueError):
            pass
        ops = [_np.asarray(o, dtype=object) if has_sym(o) else _np.asarray(o) for o in operands]
        spec = subscripts.replace(" ", "")
        ins, out = (spec.split("->") + [None])[:2] if "->" in spec else (spec, None)
        ins = ins.split(",")
        if len(ins) != len(ops):
            raise ValueError("einsum: operand count does not match the subscripts")
        free = [c for c in "ABCDEFGHIJKLMNOPQRSTUVWXYZ" if c not in spec]
        ell_rank = 0
        for sub, o in zip(ins, ops):
            if "..." in sub:
                ell_rank = max(ell_rank, o.ndim - len(sub.replace("...", "")))
        ell = "".join(free[:ell_rank])
        full = []
        for sub, o in zip(ins, ops):
            if "..." in sub:
                r = o.ndim - len(sub.replace("...", ""))
                sub = sub.replace("...", ell[ell_rank - r:] if r else "")
            if len(sub) != o.ndim:
                raise ValueError("einsum: subscripts %r do not match an operand of rank %d" % (sub, o.ndim))
            full.append(sub)
        if out is None:
            letters = "".join(full)
            out = ell + "".join(sorted(c for c in set(letters) if letters.count(c) == 1 and c not in ell))
        else:
            out = out.replace("...", ell)
        dims = {}
        for sub, o in zip(full, ops):
            for c, n in zip(sub, o.shape):
                if dims.get(c, n) != n and 1 not in (dims.get(c, n), n):
                    raise ValueError("einsum: size mismatch on index %r" % c)
                dims[c] = max(dims.get(c, 1), n)
        summed = [c for c in dims if c not in out]
        res = _np.empty(tuple(dims[c] for c in out), dtype=object)
        import itertools as _it
        for oidx in _it.product(*[range(dims[c]) for c in out]):
            env = dict(zip(out, oidx))
            acc = Sym({})
            for sidx in _it.product(*[range(dims[c]) for c in summed]):
                env.update(zip(summed, sidx))
                term = None
                for sub, o in zip(full, ops):
                    v = o[tuple(env[c] if o.shape[k] != 1 else 0 for k, c in enumerate(sub))]
                    term = Sym.of(v) if term is None else term * Sym.of(v)
                acc = acc + term
            res[oidx] = acc
        return res if res.shape else res[()]

    # -- caps ----------------------------------------------------------------
    def _cap(self, a, b, which):
        """numpy.minimum / maximum.  For the caps listed in CAP_ALLOWED the symbolic side is returned and the cut `x <= c` is recorded
        as a restriction of the claim (no fork per array element); every other case is decided / forked by the executor."""
        if not (has_sym(a) or has_sym(b)):
            return getattr(_np, which)(a, b)
        A, B = _np.broadcast_arrays(_np.asarray(a, dtype=object), _np.asarray(b, dtype=object))
        out = _np.empty(A.shape, dtype=object)
        fo = out.ravel()
        for i, (x, y) in enumerate(zip(A.ravel().tolist(), B.ravel().tolist())):
            nx = S._try_numeric(Sym.of(x)) if isinstance(x, Sym) else x
            ny = S._try_numeric(Sym.of(y)) if isinstance(y, Sym) else y
            if nx is not None and ny is not None:
                fo[i] = x if ((nx <= ny) == (which == "minimum")) else y
                if not isinstance(fo[i], Sym):
                    fo[i] = Sym.of(fo[i])
            elif (nx is None) != (ny is None) and (which, float(ny if nx is None else nx)) in CAP_ALLOWED:
                fo[i] = x if nx is None else y
                CAP_CUTS.add((which, float(ny if nx is None else nx)))
            else:
                # any other min / max is a data-dependent choice of the analysed code: decided by the solver, forked when both
                # outcomes are feasible
                d = Sym.of(x) - Sym.of(y)
                x_wins = _decide_cond(X.cond_rel("<=" if which == "minimum" else ">=", d))
                fo[i] = Sym.of(x) if x_wins else Sym.of(y)
        return out if out.shape else out[()]

    def minimum(self, a, b):
        return self._cap(a, b, "minimum")

    def maximum(self, a, b):
        return self._cap(a, b, "maximum")

    # -- array creation ------------------------------------------------------
    def zeros(self, shape, dtype=None, **kw):
        if dtype is not None and _np.dtype(dtype).kind in "iub":
            return _np.zeros(shape, dtype=dtype)
        out = _np.empty(shape, dtype=object)
        out.fill(Sym({}))
        return out

    def ones(self, shape, dtype=None, **kw):
        out = _np.empty(shape, dtype=object)
        out.fill(Sym.const(1))
        return out

    def empty(self, shape, dtype=None, **kw):
        return self.zeros(shape)

    def full(self, shape, fill_value, dtype=None, **kw):
        out = _np.empty(shape, dtype=object)
        out.fill(Sym.of(fill_value))
        return out

    def full_like(self, a, fill_value, dtype=None, **kw):
        return self.full(_np.shape(a), fill_value)

    # -- NaN / inf tests on symbolic arrays: a poisoned value (x/0, inf fill, ...) is the only non-finite symbolic value ------------
    def _elementwise_flag(self, a, flag):
        arr = _np.asarray(a, dtype=object)
        out = _np.empty(arr.shape, dtype=bool)
        for idx in _np.ndindex(*arr.shape):
            out[idx] = flag(arr[idx])
        return out if out.shape else bool(out)

    def isnan(self, a, *args, **kw):
        if not has_sym(a):
            return _np.isnan(a, *args, **kw)
        return self._elementwise_flag(a, lambda x: bool(isinstance(x, Sym) and x.poison) or (not isinstance(x, Sym) and x != x))

    def isfinite(self, a, *args, **kw):
        if not has_sym(a):
            return _np.isfinite(a, *args, **kw)
        return self._elementwise_flag(a, lambda x: not (isinstance(x, Sym) and x.poison) and (isinstance(x, Sym) or bool(_np.isfinite(x))))

    def nan_to_num(self, a, copy=True, nan=0.0, posinf=None, neginf=None):
        if not has_sym(a):
            return _np.nan_to_num(a, copy=copy, nan=nan, posinf=posinf, neginf=neginf)
        arr = _np.array(a, dtype=object)
        for idx in _np.ndindex(*arr.shape):
            if isinstance(arr[idx], Sym) and arr[idx].poison:
                arr[idx] = Sym.of(nan)
        return arr

    def zeros_like(self, a, dtype=None, **kw):
        return self.zeros(_np.shape(a))

    def ones_like(self, a, dtype=None, **kw):
        return self.ones(_np.shape(a))

    def array(self, obj, dtype=None, *a, **kw):
        """numpy.array; a float/complex dtype request on symbolic content keeps the object dtype (the copy semantics are kept)."""
        if has_sym(obj) and (dtype is None or _np.dtype(dtype).kind in "fc"):
            kw.pop("copy", None)
            return _np.array(obj, dtype=object)
        return _np.array(obj, dtype, *a, **kw) if dtype is not None else _np.array(obj, *a, **kw)

    def asarray(self, obj, dtype=None, *a, **kw):
        if has_sym(obj) and (dtype is None or _np.dtype(dtype).kind in "fc"):
            return _np.asarray(obj, dtype=object)
        return _np.asarray(obj, dtype, *a, **kw) if dtype is not None else _np.asarray(obj, *a, **kw)

    # -- approximate comparison ------------------------------------------------
    def isclose(self, a, b, rtol=1e-05, atol=1e-08, equal_nan=False):
        na, nb = _numeric_or_none(a), _numeric_or_none(b)
        if na is not None and nb is not None:
            return _np.isclose(na, nb, rtol=rtol, atol=atol, equal_nan=equal_nan)
        aa, bb = _np.broadcast_arrays(_np.asarray(a, dtype=object), _np.asarray(b, dtype=object))
        out = _np.empty(aa.shape, dtype=bool)
        rt, at = Sym.of(Fraction(rtol).limit_denominator(10 ** 12)), Sym.of(Fraction(atol).limit_denominator(10 ** 12))
        for idx in _np.ndindex(*aa.shape):
            x, y = Sym.of(aa[idx]), Sym.of(bb[idx])
            out[idx] = _decide_cond(self._close_cond(x, y, rt, at))
        return out if out.shape else bool(out)

    @staticmethod
    def _close_cond(x, y, rt, at):
        d = x - y
        if d.is_zero():
            return ("and",)
        # |d| <= at + rt*|y|   <=>   (y>=0 and |d| <= at+rt*y) or (y<0 and |d| <= at-rt*y)
        if rt.is_zero():
            return X.cond_abs_le(d, at)
        if y.is_const():
            # comparison with a constant: the sign of y is known, no case split
            return X.cond_abs_le(d, at + rt * abs(Fraction(y.const_value())))
        return X.cond_or(
            X.cond_and(X.cond_rel(">=", y), X.cond_abs_le(d, at + rt * y)),
            X.cond_and(X.cond_rel("<", y), X.cond_abs_le(d, at - rt * y)))

    def allclose(self, a, b, rtol=1e-05, atol=1e-08, equal_nan=False):
        na, nb = _numeric_or_none(a), _numeric_or_none(b)
        if na is not None and nb is not None:
            return bool(_np.allclose(na, nb, rtol=rtol, atol=atol, equal_nan=equal_nan))
        try:
            aa, bb = _np.broadcast_arrays(_np.asarray(a, dtype=object), _np.asarray(b, dtype=object))
        except ValueError:
            raise
        rt, at = Sym.of(Fraction(rtol).limit_denominator(10 ** 12)), Sym.of(Fraction(atol).limit_denominator(10 ** 12))
        conds = []
        for idx in _np.ndindex(*aa.shape):
            c = self._close_cond(Sym.of(aa[idx]), Sym.of(bb[idx]), rt, at)
            if c == ("and",):
                continue
            conds.append(c)
        if not conds:
            return True
        if self.close_mode == "structural":
            self.structural_cuts += 1
            return False
        return bool(_decide_cond(X.cond_and(*conds)))

    # -- eigen-decomposition ---------------------------------------------------
    def _eig(self, a, routine):
        na = _numeric_or_none(a)
        if na is None:
            raise SymError("eigen-decomposition of a symbolic matrix is not supported")
        real = getattr(_np.linalg, routine)
        w, v = real(na)
        self.eig_records.append(dict(routine=routine, matrix=na.tolist(), dtype_w=str(w.dtype), dtype_v=str(v.dtype)))
        if w.dtype.kind == "c":
            if _np.abs(w.imag).max() > 1e-12 or _np.abs(v.imag).max() > 1e-12:
                raise SymError("genuinely complex eigen-decomposition")
            w, v = w.real, v.real
        from .exactlift import lift_eigensystem
        return lift_eigensystem(na, w, v)

    # -- inverse: uninterpreted (symmetric when the argument is) ---------------
    def _inv(self, a):
        na = _numeric_or_none(a)
        if na is not None:
            return _np.linalg.inv(na)
        a = _np.asarray(a, dtype=object)
        n = a.shape[-1]
        out = _np.empty(a.shape, dtype=object)
        ctx = S.current()
        for idx in _np.ndindex(*a.shape[:-2]):
            m = a[idx]
            symmetric = all(Sym.of(m[i, j]).same(m[j, i]) for i in range(n) for j in range(i))
            args = [m]
            names = ctx.uf("inv%d" % n, args, nout=n * n)
            names = _np.array(names, dtype=object).reshape(n, n)
            if symmetric:
                for i in range(n):
                    for j in range(i):
                        names[i, j] = names[j, i]
            out[idx] = names
            self.inv_records.append(dict(index=idx, matrix=m.copy(), symmetric=symmetric, result=names.copy()))
        return out

    # -- exact least squares ------------------------------------------------------
    def _lstsq(self, a, b, rcond=None):
        na = _numeric_or_none(a)
        nb = _numeric_or_none(b)
        if na is not None and nb is not None:
            self.lstsq_records.append(dict(a=na.copy(), b=nb.copy(), rank=None, numeric=True))
            return _np.linalg.lstsq(na, nb, rcond=rcond)
        if na is None:
            raise SymError("lstsq with a symbolic design matrix is not supported by the exact stub")
        from .exactlift import exact_lstsq
        x, residuals, rank, sv = exact_lstsq(na, _np.asarray(b, dtype=object))
        self.lstsq_records.append(dict(a=na.copy(), b=_np.asarray(b, dtype=object).copy(), rank=rank))
        return x, residuals, rank, sv

    def gradient(self, f, *varargs, **kw):
        """numpy.gradient for a 1-D symbolic array with unit spacing (second-order centred, first-order edges)."""
        if not has_sym(f):
            return _np.gradient(f, *varargs, **kw)
        f = _np.asarray(f, dtype=object)
        if f.ndim != 1 or varargs or kw:
            raise SymError("gradient stub: only 1-D, unit spacing, default edge order is modelled")
        n = f.shape[0]
        if n < 2:
            raise ValueError("Shape of array too small to calculate a numerical gradient, at least (edge_order + 1) elements are required.")
        out = _np.empty(n, dtype=object)
        out[0] = f[1] - f[0]
        out[-1] = f[-1] - f[-2]
        for i in range(1, n - 1):
            out[i] = (f[i + 1] - f[i - 1]) / 2
        return out

    def polyfit(self, x, y, deg, *args, **kw):
        if self.polyfit_impl is not None and (has_sym(x) or has_sym(y)):
            return self.polyfit_impl(x, y, deg, *args, **kw)
        return _np.polyfit(x, y, deg, *args, **kw)


@contextlib.contextmanager
def patched(*pairs):
    """patched((module, {name: value, ...}), ...) -- rebind module globals, restore on exit."""
    saved = []
    missing = object()
    try:
        for mod, names in pairs:
            for n, v in names.items():
                saved.append((mod, n, mod.__dict__.get(n, missing)))
                setattr(mod, n, v)
        yield
    finally:
        for mod, n, old in reversed(saved):
            if old is missing:
                try:
                    delattr(mod, n)
                except AttributeError:
                    pass
            else:
                setattr(mod, n, old)
