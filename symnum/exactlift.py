"""Exact lifts: eigen-systems of concrete rational symmetric matrices to algebraic
numbers, and the exact least-squares specification on rational design matrices."""
from __future__ import annotations

from fractions import Fraction

import numpy as _np
import sympy

from . import sym as S
from .sym import Sym, SymError

_ROOTS = (2, 3, 5, 6, 10, 15)


def _frac(x):
    fr = Fraction(float(x)).limit_denominator(10 ** 6)
    if abs(float(fr) - float(x)) > 1e-12 * max(1.0, abs(float(x))):
        raise SymError("matrix entry %r is not a small rational" % (x,))
    return fr


def rt(n):
    ctx = S.current()
    name = "rt%d" % n
    if name not in ctx.vars:
        a = ctx.algebraic(name, Sym.const(n), positive=True, value=float(n) ** 0.5)
        ctx.name_float(float(n) ** 0.5, a)
        return a
    return Sym({((name, 1),): Fraction(1)})


_l1_cache = {}


def _level1_recipe(expr):
    if expr in _l1_cache:
        return _l1_cache[expr]
    e = sympy.nsimplify(sympy.radsimp(sympy.simplify(expr)))
    out = None
    if e.is_Rational:
        out = (Fraction(int(e.p), int(e.q)), Fraction(0), 0)
    else:
        for n in _ROOTS:
            r = sympy.sqrt(n)
            a = e.subs(r, 0)
            if a.is_Rational:
                b = sympy.simplify((e - a) / r)
                if b.is_Rational:
                    out = (Fraction(int(a.p), int(a.q)), Fraction(int(b.p), int(b.q)), n)
                    break
    _l1_cache[expr] = out
    return out


def _level1(expr):
    """expr in Q or Q(sqrt n) -> Sym, else None."""
    rec = _level1_recipe(expr)
    if rec is None:
        return None
    a, b, n = rec
    return Sym.const(a) + (rt(n) * b if b else Sym({}))


_nested_memo = {}
_sq_cache = {}
_eig_cache = {}


def lift_expr(expr):
    """sympy algebraic number (at most one level of nested square root) -> Sym."""
    l1 = _level1(expr)
    if l1 is not None:
        return l1
    val = float(expr)
    if expr not in _sq_cache:
        _sq_cache[expr] = sympy.simplify(sympy.expand(expr ** 2))
    sq = _sq_cache[expr]
    sq1 = _level1(sq)
    if sq1 is None:
        raise SymError("cannot lift %s to a quadratic algebraic atom" % expr)
    ctx = S.current()
    # the memo lives in the context itself: a table keyed by id(ctx) hands a dead context's atom names to a new context that
    # happens to be allocated at the same address (seen as a non-reproducing 'sat' in C03, thorough tier)
    memo = ctx.__dict__.setdefault("_nested_memo", {})
    key = sq1.key()
    name = memo.get(key)
    if name is None:
        name = "alg!%d" % sum(1 for n in ctx.vars if n.startswith("alg!"))
        atom = ctx.algebraic(name, sq1, positive=True, value=abs(val))
        ctx.name_float(abs(val), atom)
        memo[key] = name
    atom = Sym({((name, 1),): Fraction(1)})
    return atom if val > 0 else -atom


def lift_eigensystem(na, w, v):
    """Match the numeric eigen-decomposition (w, v) of the rational symmetric matrix `na`
    column by column (sign and order) to the exact one and return object arrays of Sym."""
    n = na.shape[0]
    M = sympy.Matrix(n, n, lambda i, j: sympy.Rational(*_frac(na[i, j]).as_integer_ratio()))
    ck = tuple(_frac(x) for x in na.ravel())
    if ck not in _eig_cache:
        exact = []
        for lam, mult, basis in M.eigenvects():
            lam = sympy.nsimplify(sympy.simplify(lam))
            ortho = sympy.GramSchmidt([sympy.simplify(b) for b in basis], True)
            exact.append((lam, [sympy.simplify(b) for b in ortho]))
        _eig_cache[ck] = exact
    exact = _eig_cache[ck]
    vk = (ck, tuple(round(float(x), 9) for x in w), tuple(round(float(x), 9) for x in v.ravel()))
    if vk in _eig_cache:
        lam_cols, exact_cols = _eig_cache[vk]
        w_out = _np.empty(n, dtype=object)
        v_out = _np.empty((n, n), dtype=object)
        for j in range(n):
            w_out[j] = lift_expr(lam_cols[j])
            for i in range(n):
                v_out[i, j] = lift_expr(exact_cols[j][i])
        return w_out, v_out
    lam_cols = []
    w_out = _np.empty(n, dtype=object)
    v_out = _np.empty((n, n), dtype=object)
    exact_cols = []
    for j in range(n):
        match = None
        for lam, basis in exact:
            if abs(float(lam) - w[j]) < 1e-9:
                match = (lam, basis)
                break
        if match is None:
            raise SymError("numeric eigenvalue %r has no exact counterpart" % w[j])
        lam, basis = match
        col = v[:, j]
        coeffs = []
        for b in basis:
            bn = _np.array([float(x) for x in b], dtype=float)
            coeffs.append(float(bn @ col))
        exact_col = sympy.zeros(n, 1)
        for c, b in zip(coeffs, basis):
            if abs(c) < 1e-9:
                continue
            if abs(abs(c) - 1) < 1e-9:
                ce = sympy.Integer(1 if c > 0 else -1)
            else:
                ce = sympy.nsimplify(c, [sympy.sqrt(2), sympy.sqrt(3), sympy.sqrt(5)], tolerance=1e-10)
                if abs(float(ce) - c) > 1e-9:
                    raise SymError("cannot lift coefficient %r in a degenerate eigenspace" % c)
            exact_col = exact_col + ce * b
        exact_col = sympy.simplify(exact_col)
        # exact verification of what was matched
        if sympy.simplify((exact_col.T * exact_col)[0, 0] - 1) != 0:
            raise SymError("lifted eigenvector is not exactly normalised")
        if sympy.simplify(M * exact_col - lam * exact_col) != sympy.zeros(n, 1):
            raise SymError("lifted eigenvector does not satisfy M v = lambda v exactly")
        exact_cols.append(exact_col)
        lam_cols.append(lam)
        w_out[j] = lift_expr(lam)
        for i in range(n):
            if abs(float(exact_col[i]) - col[i]) > 1e-9:
                raise SymError("exact/numeric eigenvector mismatch")
            v_out[i, j] = lift_expr(exact_col[i])
    # exact mutual orthogonality of the lifted columns
    for a in range(n):
        for b in range(a):
            if sympy.simplify((exact_cols[a].T * exact_cols[b])[0, 0]) != 0:
                raise SymError("lifted eigenvectors are not exactly orthogonal")
    _eig_cache[vk] = (lam_cols, exact_cols)
    return w_out, v_out


# ---------------------------------------------------------------------------
def _frac_any(x):
    try:
        return _frac(x)
    except SymError:
        return Fraction(float(x))   # exact binary value of the double


def exact_lstsq(na, b):
    """numpy.linalg.lstsq contract on a rational design matrix `na` (m x n) and a
    symbolic right-hand side b (m,) or (m, k): minimum-norm least-squares solution,
    residual sums (only if rank == n and m > n), exact rank, singular values (floats)."""
    m, n = na.shape
    A = sympy.Matrix(m, n, lambda i, j: sympy.Rational(*_frac_any(na[i, j]).as_integer_ratio()))
    rank = A.rank()
    P = A.pinv()   # exact Moore-Penrose inverse (rational)
    Pf = [[Fraction(int(P[i, j].p), int(P[i, j].q)) for j in range(m)] for i in range(n)]
    Af = [[Fraction(int(A[i, j].p), int(A[i, j].q)) for j in range(n)] for i in range(m)]
    b = _np.asarray(b, dtype=object)
    one_d = b.ndim == 1
    B = b.reshape(m, 1) if one_d else b
    k = B.shape[1]
    x = _np.empty((n, k), dtype=object)
    for i in range(n):
        for c in range(k):
            acc = Sym({})
            for j in range(m):
                if Pf[i][j]:
                    acc = acc + Sym.of(B[j, c]) * Pf[i][j]
            x[i, c] = acc
    if rank == n and m > n:
        res = _np.empty(k, dtype=object)
        for c in range(k):
            tot = Sym({})
            for i in range(m):
                r = Sym.of(B[i, c])
                for j in range(n):
                    if Af[i][j]:
                        r = r - x[j, c] * Af[i][j]
                tot = tot + r * r
            res[c] = tot
    else:
        res = _np.empty(0, dtype=object)
    sv = _np.linalg.svd(na.astype(float), compute_uv=False)
    if one_d:
        x = x[:, 0]
    return x, res, int(rank), sv
