"""symnum.sym -- exact symbolic scalars that ride through unmodified numpy code.

A ``Sym`` is a sparse Laurent polynomial with exact rational coefficients over
named real variables: ``{monomial: Fraction}`` where a monomial is a sorted
tuple of ``(name, exponent)`` pairs (exponents may be negative).  numpy
dispatches arithmetic on ``dtype=object`` arrays to the Python operators of the
elements and ufuncs (``exp, sqrt, log, conjugate``) to same-named methods, so
the real cij code runs on arrays of ``Sym`` unchanged.

Non-polynomial operations introduce *atoms* (new variables with a defining
side condition that is handed to the SMT solver):

* ``inv!k``   1 / D for a non-monomial D          (inv * D0 == 1)
* ``exp!k``   exp(x) - 1                          (u > 0 if x > 0 is syntactic, else u > -1)
* ``sqrt!k``  sqrt(x)                             (s*s == x, s >= 0; rewrite s^2 -> x)
* ``log!k``   log(x)                              (uninterpreted)
* ``undef!k`` result of dividing by the concrete 0 (free; must not survive)
* algebraic constants (``rt2`` ...) and lifted eigenvector entries with a
  quadratic rewrite rule ``v^2 -> Sym`` applied during multiplication.

Comparisons are routed to the forking executor (symnum.executor) through the
context's ``decide`` hook.
"""
from __future__ import annotations

import math
import numbers
from fractions import Fraction

import numpy

__all__ = ["Sym", "Context", "ctx", "new_context", "SymError", "symarray", "is_sym"]


_SMALL_DEN = 10000


class SymError(Exception):
    """The symbolic executor met something it cannot represent (harness error, exit 3)."""


class Context:
    """All mutable state of one symbolic run family (variables, atoms, assumptions)."""

    def __init__(self):
        self.vars = {}          # name -> dict(kind=..., positive=bool, lo=..., hi=..., value=float|None)
        self.rules = {}         # name -> Sym  (name^2 == Sym)   algebraic atoms, sqrt atoms
        self.inv_atoms = {}     # key(D0) -> name ; name -> D0 in inv_def
        self.inv_def = {}
        self.exp_atoms = {}     # key(x) -> name
        self.exp_def = {}       # name -> x
        self.pexp = {}          # name of the full exponential atom p = exp(x) -> name of u = exp(x) - 1
        self.pexp_of = {}       # u name -> p name
        self.sqrt_atoms = {}
        self.sqrt_def = {}
        self.log_atoms = {}
        self.log_def = {}
        self.abs_atoms = {}
        self.abs_def = {}
        self.uf_atoms = {}      # (fname, argkey) -> names
        self.uf_def = {}        # name -> (fname, args, index)
        self.undef_count = 0
        self.assumptions = []   # list of ('>'|'>='|'=='|'!=', Sym)  meaning  Sym op 0
        self.named_floats = []  # list of (float value, Sym)  matched up to small rational multiples
        self.decide = None      # hook(cond) -> bool, installed by the executor
        self.realisations = []  # diagnostics: places where a Sym was formatted / int()-ed
        self.fold_max_dev = 0.0  # largest relative deviation absorbed when reading a float as a named constant
        self.float_exact = 0    # number of floats read as exact binary values (diagnostic)
        self.strict_floats = False
        self.divisors = {}      # key -> Sym : every non-constant divisor met (must be entailed non-zero)
        self.concretise_enabled = False   # finite-domain variables: hash()/int() fork over the domain
        self.cond_assumptions = []        # assumptions given as condition trees (executor.cond_*)
        self.abs_as_atom = False          # abs(x) of a symbolic x: False = decide the sign (fork), True = the atom sqrt(x^2)

    # ---- variables -----------------------------------------------------
    def var(self, name, positive=False, lo=None, hi=None, kind="input", nonneg=False, domain=None):
        if name not in self.vars:
            self.vars[name] = dict(kind=kind, positive=positive, lo=lo, hi=hi, nonneg=nonneg,
                                   domain=list(domain) if domain is not None else None)
        return Sym({((name, 1),): Fraction(1)})

    def assume(self, op, sym):
        """Record the assumption ``sym op 0`` (op in '>', '>=', '==', '!=')."""
        self.assumptions.append((op, Sym.of(sym)))

    def algebraic(self, name, square, positive=True, value=None):
        """Declare an algebraic constant with name^2 == square (a Sym without `name`)."""
        if name not in self.vars:
            self.vars[name] = dict(kind="algebraic", positive=bool(positive), lo=None, hi=None,
                                   nonneg=False, negative=(positive is False), value=value)
            self.rules[name] = Sym.of(square)
        return Sym({((name, 1),): Fraction(1)})

    def name_float(self, value, sym, rtol=1e-12, max_den=_SMALL_DEN):
        """Floats within rtol (relative) of (p/q)*value, q <= max_den, are read as (p/q)*sym."""
        self.named_floats.append((float(value), Sym.of(sym), float(rtol), int(max_den)))

    def fresh_undef(self):
        self.undef_count += 1
        name = "undef!%d" % self.undef_count
        self.vars[name] = dict(kind="undef", positive=False, lo=None, hi=None, nonneg=False)
        return Sym({((name, 1),): Fraction(1)}, poison=True)

    def uf(self, fname, args, nout=1, positive=False):
        """Uninterpreted function application: congruent in the canonical argument tuple."""
        akey = (fname, tuple(_canon_arg(a) for a in args))
        names = self.uf_atoms.get(akey)
        if names is None:
            k = len(self.uf_atoms)
            names = []
            for i in range(nout):
                name = "%s!%d_%d" % (fname, k, i) if nout > 1 else "%s!%d" % (fname, k)
                self.vars[name] = dict(kind="uf", positive=positive, lo=None, hi=None, nonneg=False)
                self.uf_def[name] = (fname, args, i)
                names.append(name)
            self.uf_atoms[akey] = names
        out = [Sym({((n, 1),): Fraction(1)}) for n in names]
        return out[0] if nout == 1 else out


def _canon_arg(a):
    if isinstance(a, Sym):
        return ("S", a.key())
    if isinstance(a, numpy.ndarray):
        return ("A", a.shape, tuple(_canon_arg(x) for x in a.ravel().tolist()))
    if isinstance(a, (list, tuple)):
        return ("L", tuple(_canon_arg(x) for x in a))
    if isinstance(a, (float, numpy.floating)):
        return ("S", Sym.of(a).key())
    if isinstance(a, (int, numpy.integer, Fraction)):
        return ("S", Sym.of(a).key())
    return ("O", repr(a))


ctx = Context()


def new_context():
    """Replace the global context by a fresh one (and return it)."""
    global ctx
    ctx = Context()
    return ctx


def set_current(c):
    """Make an earlier context current again (atoms memoised in it are found again)."""
    global ctx
    ctx = c
    return ctx


def _ctx():
    return ctx


current = _ctx


ONE = ()  # the empty monomial



def _mono_mul(a, b):
    if not a:
        return b
    if not b:
        return a
    d = dict(a)
    for n, e in b:
        v = d.get(n, 0) + e
        if v:
            d[n] = v
        else:
            d.pop(n, None)
    return tuple(sorted(d.items()))


def _mono_pow(a, k):
    return tuple((n, e * k) for n, e in a) if k else ONE


class Sym:
    __slots__ = ("t", "_key", "_hash", "poison")

    def __init__(self, terms=None, poison=False):
        self.t = terms if terms is not None else {}
        self._key = None
        self._hash = None
        self.poison = poison   # NaN/inf semantics: absorbing under every arithmetic operation

    # ------------------------------------------------------------------
    # construction
    # ------------------------------------------------------------------
    @staticmethod
    def const(c):
        c = Fraction(c)
        return Sym({ONE: c}) if c else Sym({})

    @staticmethod
    def of(x):
        if isinstance(x, Sym):
            return x
        if isinstance(x, bool) or isinstance(x, numpy.bool_):
            return Sym.const(int(x))
        if isinstance(x, (int, numpy.integer)):
            return Sym.const(int(x))
        if isinstance(x, Fraction):
            return Sym.const(x)
        if isinstance(x, (float, numpy.floating)):
            return Sym.from_float(float(x))
        if isinstance(x, (complex, numpy.complexfloating)):
            if x.imag == 0:
                return Sym.from_float(float(x.real))
            raise SymError("complex value %r reached symbolic arithmetic" % (x,))
        if isinstance(x, numpy.ndarray) and x.shape == ():
            return Sym.of(x.item())
        raise SymError("cannot lift %r (%s) to Sym" % (x, type(x).__name__))

    @staticmethod
    def from_float(x):
        c = _ctx()
        if x != x or x in (math.inf, -math.inf):
            # NaN / inf produced by concrete float code: an undefined value
            return c.fresh_undef()
        if x == 0.0:
            return Sym({})
        if x == int(x) and abs(x) < 2 ** 53:
            return Sym.const(int(x))
        # small rational multiple of a named constant / algebraic constant?
        for val, sym, rtol, max_den in c.named_floats:
            r = x / val
            fr = Fraction(r).limit_denominator(max_den)
            if fr != 0 and abs(fr.numerator) <= 100000 and abs(float(fr) - r) <= abs(r) * rtol:
                dev = abs(float(fr) - r) / abs(r)
                if dev > c.fold_max_dev:
                    c.fold_max_dev = dev
                return sym * fr
        # small rational?
        fr = Fraction(x).limit_denominator(_SMALL_DEN)
        if fr != 0 and abs(float(fr) - x) <= abs(x) * 2.0 ** -50:
            return Sym.const(fr)
        if c.strict_floats:
            raise SymError("unrecognised float constant %r" % x)
        c.float_exact += 1
        return Sym.const(Fraction(x))

    # ------------------------------------------------------------------
    # structure
    # ------------------------------------------------------------------
    def key(self):
        if self._key is None:
            self._key = frozenset(self.t.items())
        return self._key

    def __hash__(self):
        if self.is_const():
            return hash(self.const_value())
        if _ctx().concretise_enabled:
            return hash(_concretise(self))
        if self._hash is None:
            self._hash = hash(self.key())
        return self._hash

    def is_zero(self):
        return not self.t

    def is_const(self):
        return not self.t or (len(self.t) == 1 and ONE in self.t)

    def const_value(self):
        return self.t.get(ONE, Fraction(0))

    def variables(self):
        s = set()
        for m in self.t:
            for n, _ in m:
                s.add(n)
        return s

    def is_monomial(self):
        return len(self.t) == 1

    def terms(self):
        return self.t.items()

    def same(self, other):
        """Structural identity (not the semantic ==)."""
        return self.key() == Sym.of(other).key()

    # ------------------------------------------------------------------
    # arithmetic
    # ------------------------------------------------------------------
    def _coerce(self, o):
        if isinstance(o, Sym):
            return o
        if isinstance(o, numpy.ndarray):
            if o.shape == ():
                return Sym.of(o.item())
            return None
        if isinstance(o, (numbers.Number, numpy.number, numpy.bool_)):
            return Sym.of(o)
        return None

    def __add__(self, o):
        o = self._coerce(o)
        if o is None:
            return NotImplemented
        if self.poison:
            return self
        if o.poison:
            return o
        if not o.t:
            return self
        if not self.t:
            return o
        d = dict(self.t)
        for m, c in o.t.items():
            v = d.get(m, 0) + c
            if v:
                d[m] = v
            else:
                d.pop(m, None)
        return Sym(d)

    __radd__ = __add__

    def __neg__(self):
        if self.poison:
            return self
        return Sym({m: -c for m, c in self.t.items()})

    def __pos__(self):
        return self

    def __sub__(self, o):
        o = self._coerce(o)
        if o is None:
            return NotImplemented
        return self + (-o)

    def __rsub__(self, o):
        o = self._coerce(o)
        if o is None:
            return NotImplemented
        return o + (-self)

    def __mul__(self, o):
        o = self._coerce(o)
        if o is None:
            return NotImplemented
        if self.poison:
            return self
        if o.poison:
            return o
        if not self.t or not o.t:
            return Sym({})
        c = _ctx()
        rules = c.rules
        inv_def = c.inv_def
        d = {}
        redo = []
        for m1, c1 in self.t.items():
            for m2, c2 in o.t.items():
                m = _mono_mul(m1, m2)
                cc = c1 * c2
                if m and (rules or inv_def or c.pexp) and _needs_reduce(m, rules, inv_def):
                    redo.append((m, cc))
                    continue
                v = d.get(m, 0) + cc
                if v:
                    d[m] = v
                else:
                    d.pop(m, None)
        r = Sym(d)
        for m, cc in redo:
            r = r + _reduce_mono(m, rules, inv_def) * cc
        return r

    __rmul__ = __mul__

    def inverse(self):
        if self.poison:
            return self
        if not self.t:
            return _ctx().fresh_undef()
        if not self.is_const():
            _ctx().divisors.setdefault(self.key(), self)
        if len(self.t) == 1:
            (m, c), = self.t.items()
            mi = _mono_pow(m, -1)
            r = Sym({mi: 1 / c})
            cx = _ctx()
            if mi and (cx.rules or cx.inv_def or cx.pexp) and _needs_reduce(mi, cx.rules, cx.inv_def):
                r = _reduce_mono(mi, cx.rules, cx.inv_def) * (1 / c)
            return r
        return _inverse_atom(self)

    def __truediv__(self, o):
        o = self._coerce(o)
        if o is None:
            return NotImplemented
        if self.poison:
            return self
        if o.poison:
            return o
        if not o.t:
            return _ctx().fresh_undef()
        if o.is_const():
            k = 1 / o.const_value()
            return Sym({m: c * k for m, c in self.t.items()})
        return self * o.inverse()

    def __rtruediv__(self, o):
        o = self._coerce(o)
        if o is None:
            return NotImplemented
        return o * self.inverse() if self.t else _ctx().fresh_undef()

    def __pow__(self, k):
        if self.poison:
            return self
        if isinstance(k, Sym):
            if k.is_const():
                k = k.const_value()
            else:
                raise SymError("symbolic exponent")
        if isinstance(k, (float, numpy.floating)):
            if float(k) == int(k):
                k = int(k)
            elif float(k) == 0.5:
                return self.sqrt()
            else:
                raise SymError("non-integer power %r" % k)
        if isinstance(k, Fraction):
            if k.denominator == 1:
                k = int(k)
            elif k == Fraction(1, 2):
                return self.sqrt()
            else:
                raise SymError("non-integer power %r" % k)
        k = int(k)
        if k == 0:
            return Sym.const(1)
        if k < 0:
            return (self ** (-k)).inverse()
        r = None
        base = self
        while k:
            if k & 1:
                r = base if r is None else r * base
            k >>= 1
            if k:
                base = base * base
        return r

    def __rpow__(self, o):
        raise SymError("symbolic exponent")

    # ------------------------------------------------------------------
    # transcendental / algebraic atoms (called by numpy ufuncs on object arrays)
    # ------------------------------------------------------------------
    def exp(self):
        if self.poison:
            return self
        if not self.t:
            return Sym.const(1)
        c = _ctx()
        lead = min(self.t)
        if self.t[lead] < 0:
            # exp(-y) = 1 / exp(y): expressed with the full exponential atom p_y (p = 1 + u_y), exponent -1
            y = -self
            (y.exp())          # make sure u_y exists
            uname = c.exp_atoms[y.key()]
            pname = c.pexp_of.get(uname)
            if pname is None:
                pname = "pexp!" + uname[4:]
                c.pexp_of[uname] = pname
                c.pexp[pname] = uname
                c.vars[pname] = dict(kind="pexp", positive=True, lo=None, hi=None, nonneg=False)
            return Sym({((pname, -1),): Fraction(1)})
        k = self.key()
        name = c.exp_atoms.get(k)
        if name is None:
            name = "exp!%d" % len(c.exp_atoms)
            c.exp_atoms[k] = name
            c.exp_def[name] = self
            pos = _syntactically_positive(self)
            c.vars[name] = dict(kind="exp", positive=pos, lo=None if pos else -1, hi=None, nonneg=False)
        return Sym({((name, 1),): Fraction(1), ONE: Fraction(1)})

    def sqrt(self):
        if self.poison:
            return self
        if not self.t:
            return Sym({})
        c = _ctx()
        if len(self.t) == 1:
            (m, co), = self.t.items()
            if co > 0 and all(e % 2 == 0 for _, e in m):
                rn, rd = _isqrt(co.numerator), _isqrt(co.denominator)
                if rn is not None and rd is not None and all(
                        c.vars.get(n, {}).get("positive") or c.vars.get(n, {}).get("nonneg") for n, _ in m):
                    return Sym({tuple((n, e // 2) for n, e in m): Fraction(rn, rd)})
        k = self.key()
        name = c.sqrt_atoms.get(k)
        if name is None:
            name = "sqrt!%d" % len(c.sqrt_atoms)
            c.sqrt_atoms[k] = name
            c.sqrt_def[name] = self
            c.vars[name] = dict(kind="sqrt", positive=False, lo=None, hi=None, nonneg=True)
            c.rules[name] = self
        return Sym({((name, 1),): Fraction(1)})

    def log(self):
        if self.poison:
            return self
        if not self.t:
            return _ctx().fresh_undef()
        if self.is_const() and self.const_value() == 1:
            return Sym({})
        c = _ctx()
        k = self.key()
        name = c.log_atoms.get(k)
        if name is None:
            name = "log!%d" % len(c.log_atoms)
            c.log_atoms[k] = name
            c.log_def[name] = self
            c.vars[name] = dict(kind="log", positive=False, lo=None, hi=None, nonneg=False)
        return Sym({((name, 1),): Fraction(1)})

    def conjugate(self):
        return self

    conj = conjugate

    @property
    def real(self):
        return self

    @property
    def imag(self):
        return Sym({})

    def __abs__(self):
        if not self.poison and not self.is_const() and getattr(_ctx(), "abs_as_atom", False):
            # |x| as the non-negative root of x^2 (one atom, no case split on the sign of x)
            return (self * self).sqrt()
        if self >= 0:
            return self
        return -self

    # ------------------------------------------------------------------
    # comparisons -> executor
    # ------------------------------------------------------------------
    def _cmp(self, op, o):
        o = self._coerce(o)
        if o is None:
            return NotImplemented
        if self.poison or o.poison:
            return op == "!="     # NaN compares unequal to everything
        d = self - o
        if d.is_const():
            v = d.const_value()
            return {"==": v == 0, "!=": v != 0, "<": v < 0, "<=": v <= 0, ">": v > 0, ">=": v >= 0}[op]
        val = _try_numeric(d)
        if val is not None:
            return {"==": val == 0, "!=": val != 0, "<": val < 0, "<=": val <= 0, ">": val > 0, ">=": val >= 0}[op]
        c = _ctx()
        if c.decide is None:
            raise SymError("comparison %s on symbolic value outside an executor: %s %s 0" % (op, d, op))
        return c.decide(op, d)

    def __eq__(self, o):
        if o is None or isinstance(o, str):
            return False
        return self._cmp("==", o)

    def __ne__(self, o):
        if o is None or isinstance(o, str):
            return True
        return self._cmp("!=", o)

    def __lt__(self, o):
        return self._cmp("<", o)

    def __le__(self, o):
        return self._cmp("<=", o)

    def __gt__(self, o):
        return self._cmp(">", o)

    def __ge__(self, o):
        return self._cmp(">=", o)

    def __bool__(self):
        return bool(self._cmp("!=", 0))

    # ------------------------------------------------------------------
    # realisation placeholders (only used while building log / exception messages)
    # ------------------------------------------------------------------
    def __float__(self):
        v = _try_numeric(self)
        if v is None:
            raise TypeError("symbolic value cannot be realised as float: %s" % self.short())
        return float(v)

    def __int__(self):
        v = _try_numeric(self)
        if v is None:
            if _ctx().concretise_enabled:
                return int(_concretise(self))
            _ctx().realisations.append(("int", self.short()))
            return 0
        return int(v)

    def __index__(self):
        if self.is_const() and self.const_value().denominator == 1:
            return int(self.const_value())
        if _ctx().concretise_enabled:
            v = _concretise(self)
            if Fraction(v).denominator == 1:
                return int(v)
        raise TypeError("symbolic value used as an index")

    def __format__(self, spec):
        v = _try_numeric(self)
        if v is None:
            c = _ctx()
            if getattr(c, "format_tokens", False) and len(self.t) == 1:
                (m, co), = self.t.items()
                if co == 1 and len(m) == 1 and m[0][1] == 1:
                    return m[0][0]          # a bare variable prints as its token (C17 round trips)
            c.realisations.append(("format", self.short()))
            return "<sym>"
        return format(float(v), spec)

    def __round__(self, n=None):
        v = _try_numeric(self)
        if v is None:
            raise TypeError("symbolic value cannot be rounded")
        return round(float(v), n)

    def short(self, n=6):
        items = sorted(self.t.items(), key=lambda kv: kv[0])
        s = " + ".join("%s*%s" % (c, "*".join("%s^%d" % ne if ne[1] != 1 else ne[0] for ne in m) or "1")
                       for m, c in items[:n])
        if len(items) > n:
            s += " + ...(%d terms)" % len(items)
        return s or "0"

    def __repr__(self):
        return "Sym(" + self.short() + ")"

    __str__ = __repr__

    # ------------------------------------------------------------------
    # evaluation / substitution
    # ------------------------------------------------------------------
    def evalf(self, env):
        """Evaluate with floats; atoms are evaluated from their definitions."""
        total = 0.0
        for m, c in self.t.items():
            v = float(c)
            for n, e in m:
                v *= _var_value(n, env) ** e
            total += v
        return total

    def subs(self, mapping):
        """Substitute variables by Syms (atoms are rebuilt from substituted definitions)."""
        memo = {}
        return _subs(self, mapping, memo)

    def max_abs_coeff(self):
        return max((abs(c) for c in self.t.values()), default=Fraction(0))


# ----------------------------------------------------------------------
# helpers
# ----------------------------------------------------------------------
def _concretise(s):
    """Finite-domain concretisation by forking: returns the value of s on the current path."""
    import itertools
    c = _ctx()
    names = sorted(s.variables())
    doms = []
    for n in names:
        dom = c.vars.get(n, {}).get("domain")
        if dom is None:
            raise SymError("cannot concretise %s: variable %s has no finite domain" % (s.short(), n))
        doms.append(dom)
    cands = set()
    for combo in itertools.product(*doms):
        cands.add(Fraction(s.evalf(dict(zip(names, combo)))).limit_denominator(10 ** 6))
    for val in sorted(cands):
        if s._cmp("==", Sym.const(val)):
            return int(val) if val.denominator == 1 else val
    raise SymError("concretisation found no feasible value for %s" % s.short())


def _isqrt(n):
    r = math.isqrt(n)
    return r if r * r == n else None


def _syntactically_positive(s):
    c = _ctx()
    if not s.t:
        return False
    for m, co in s.t.items():
        if co <= 0:
            return False
        for n, e in m:
            info = c.vars.get(n, {})
            if not info.get("positive"):
                return False
    return True


def _needs_reduce(m, rules, inv_def):
    for n, e in m:
        if (e >= 2 or e < 0) and n in rules:
            return True
        if e < 0 and n in inv_def:
            return True
    pexp = _ctx().pexp
    if pexp:
        for n, e in m:
            if n in pexp:
                if e > 0:
                    return True
                un = pexp[n]
                for n2, e2 in m:
                    if n2 == un and e2 != 0:
                        return True
    return False


def _reduce_pexp(m, pexp):
    """Partial-fraction normal form in (u, p = 1+u): only pure powers u^i (any i) and p^-j (j>0) survive."""
    d = dict(m)
    for pn, un in pexp.items():
        j = d.get(pn, 0)
        if j == 0:
            continue
        i = d.get(un, 0)
        rest = tuple(sorted((n, e) for n, e in d.items() if n not in (pn, un)))
        U = Sym({((un, 1),): Fraction(1)})

        def mono(ii, jj):
            t = []
            if ii:
                t.append((un, ii))
            if jj:
                t.append((pn, jj))
            return tuple(sorted(t))

        def red(ii, jj):
            if jj > 0:
                r = Sym({mono(ii, 0): Fraction(1)}) if ii else Sym.const(1)
                base = U + 1
                for _ in range(jj):
                    r = r * base
                return r
            if jj == 0 or ii == 0:
                return Sym({mono(ii, jj): Fraction(1)})
            if ii > 0:
                return red(ii - 1, jj + 1) - red(ii - 1, jj)
            return red(ii, jj + 1) - red(ii + 1, jj)

        core = red(i, j)
        if rest:
            core = core * Sym({rest: Fraction(1)})
        return core
    return None


def _reduce_mono(m, rules, inv_def):
    """Rewrite a monomial containing rule atoms with |exp|>=2 / negative inverse atoms."""
    pexp = _ctx().pexp
    if pexp and any(n in pexp for n, _ in m):
        dm = dict(m)
        for pn, un in pexp.items():
            if pn in dm and (dm[pn] > 0 or dm.get(un, 0) != 0):
                return _reduce_pexp(m, pexp)
    rest = []
    factors = []
    for n, e in m:
        if n in rules and (e >= 2 or e < 0):
            sq = rules[n]
            if e < 0:
                # v^-1 = v / sq   (needs sq invertible)
                k = -e
                inv_sq = sq.inverse()
                base = Sym({((n, 1),): Fraction(1)}) * inv_sq   # = v^-1
                factors.append(base ** k)
            else:
                q, r = divmod(e, 2)
                f = sq ** q
                if r:
                    f = f * Sym({((n, 1),): Fraction(1)})
                factors.append(f)
        elif n in inv_def and e < 0:
            factors.append(inv_def[n] ** (-e))
        else:
            rest.append((n, e))
    r = Sym({tuple(rest): Fraction(1)})
    for f in factors:
        r = r * f
    return r


def _inverse_atom(d):
    """1/d for a non-monomial d, memoised on the primitive part."""
    c = _ctx()
    # factor out monomial content and leading coefficient
    allvars = set(n for m in d.t for n, _ in m)
    dicts = [dict(m) for m in d.t]
    mins = {}
    for n in allvars:
        mn = min(dm.get(n, 0) for dm in dicts)
        if mn:
            mins[n] = mn
    content = tuple(sorted((n, e) for n, e in mins.items() if e))
    if content:
        ci = _mono_pow(content, -1)
        prim = {}
        for m, co in d.t.items():
            prim[_mono_mul(m, ci)] = co
    else:
        prim = dict(d.t)
    if c.pexp and any(n in c.pexp for mm in prim for n, _ in mm):
        pr = Sym({})
        for mm, co in prim.items():
            pr = pr + (_reduce_mono(mm, c.rules, c.inv_def) if _needs_reduce(mm, c.rules, c.inv_def) else Sym({mm: Fraction(1)})) * co
        if len(pr.t) == 1:
            r = pr.inverse()
            if content:
                r = r * Sym({content: Fraction(1)}).inverse()
            return r
        prim = dict(pr.t)
    lead = min(prim)  # deterministic
    lc = prim[lead]
    prim = {m: co / lc for m, co in prim.items()}
    d0 = Sym(prim)
    k = d0.key()
    name = c.inv_atoms.get(k)
    if name is None:
        name = "inv!%d" % len(c.inv_atoms)
        c.inv_atoms[k] = name
        c.inv_def[name] = d0
        c.vars[name] = dict(kind="inv", positive=False, lo=None, hi=None, nonneg=False)
    r = Sym({((name, 1),): 1 / lc})
    if content:
        r = r * Sym({content: Fraction(1)}).inverse()
    return r


def _try_numeric(s):
    """Float value if every variable of s is an algebraic constant with known value."""
    c = _ctx()
    total = 0.0
    scale = 0.0
    for m, co in s.t.items():
        v = float(co)
        for n, e in m:
            info = c.vars.get(n)
            if not info or info.get("value") is None:
                return None
            v *= info["value"] ** e
        total += v
        scale = max(scale, abs(v))
    if s.t and not s.is_const() and abs(total) <= 1e-12 * scale:
        return None   # possible exact algebraic cancellation: leave it to the solver
    return total


def _var_value(n, env):
    if n in env:
        return env[n]
    c = _ctx()
    info = c.vars.get(n, {})
    if info.get("value") is not None:
        return info["value"]
    if n in c.inv_def:
        v = 1.0 / c.inv_def[n].evalf(env)
    elif n in c.exp_def:
        try:
            v = math.expm1(c.exp_def[n].evalf(env))
        except OverflowError:
            v = math.inf
    elif n in c.pexp:
        v = 1.0 + _var_value(c.pexp[n], env)
    elif n in c.sqrt_def:
        v = math.sqrt(c.sqrt_def[n].evalf(env))
    elif n in c.log_def:
        v = math.log(c.log_def[n].evalf(env))
    else:
        raise KeyError(n)
    env[n] = v
    return v


def _subs(s, mapping, memo):
    c = _ctx()
    out = Sym({})
    for m, co in s.t.items():
        term = Sym.const(co)
        for n, e in m:
            if n in memo:
                base = memo[n]
            else:
                if n in mapping:
                    base = Sym.of(mapping[n])
                elif n in c.inv_def:
                    base = _subs(c.inv_def[n], mapping, memo).inverse()
                elif n in c.pexp:
                    base = _subs(c.exp_def[c.pexp[n]], mapping, memo).exp()
                elif n in c.exp_def:
                    base = _subs(c.exp_def[n], mapping, memo).exp() - 1
                elif n in c.sqrt_def:
                    base = _subs(c.sqrt_def[n], mapping, memo).sqrt()
                elif n in c.log_def:
                    base = _subs(c.log_def[n], mapping, memo).log()
                else:
                    base = Sym({((n, 1),): Fraction(1)})
                memo[n] = base
            term = term * (base ** e)
        out = out + term
    return out


def is_sym(x):
    return isinstance(x, Sym)


def symarray(values):
    """numpy object array whose every element is a Sym (so 0/0 etc. go through Sym)."""
    a = numpy.asarray(values, dtype=object) if not isinstance(values, numpy.ndarray) else values.astype(object)
    out = numpy.empty(a.shape, dtype=object)
    flat_in = a.ravel()
    flat_out = out.ravel()
    for i in range(flat_in.size):
        flat_out[i] = Sym.of(flat_in[i])
    return out.reshape(a.shape)


def symvars(prefix, shape, **kw):
    """Object array of fresh variables prefix_i_j..."""
    out = numpy.empty(shape, dtype=object)
    for idx in numpy.ndindex(*shape):
        out[idx] = _ctx().var(prefix + "".join("_%d" % i for i in idx), **kw)
    return out


def clear_inverses(s, max_rounds=6):
    """Multiply s by the product of the defining denominators of its inverse atoms (each to its highest power), so that
    s == 0  <=>  result == 0 whenever every denominator is non-zero.  Returns (polynomial, list of denominators used)."""
    c = _ctx()
    s = Sym.of(s)
    used = []
    for _ in range(max_rounds):
        invs = {}
        for m in s.t:
            for n, e in m:
                if n in c.inv_def and e > 0:
                    invs[n] = max(invs.get(n, 0), e)
        if not invs:
            return s, used
        out = Sym({})
        for m, co in s.t.items():
            dm = dict(m)
            term = Sym({tuple(sorted((n, e) for n, e in dm.items() if n not in invs)): co})
            for n, emax in invs.items():
                k = emax - dm.get(n, 0)
                if k:
                    term = term * (c.inv_def[n] ** k)
            out = out + term
        used.extend(c.inv_def[n] for n in invs)
        s = out
    return s, used
