"""symnum.solver -- z3 back end for Sym obligations.

verdicts: 'unsat' (obligation holds within the bounds of the encoding),
'sat' (candidate counterexample, returned as a float environment),
'unknown' (inconclusive -- never success).
"""
from __future__ import annotations

import os
import time
from fractions import Fraction

import z3

from . import sym as S
from .sym import Sym

QUERY_LOG = []   # every query discharged in this process: dict(name, verdict, seconds, logic, nvars, nterms)

# second-solver cross-check (thorough tier): a sample of the decided queries is written out as SMT-LIB2 and handed to the cvc5 binary;
# a verdict that contradicts z3's is a harness error (the encoding is the same text, so this guards the solver, not the encoding)
CROSS = dict(enabled=False, every=7, limit=60, seen=0, sampled=0, agree=0, unknown=0, disagree=[], seconds=0.0)


def _cross_check(solver, verdict, name):
    import os
    import shutil
    import subprocess
    import tempfile
    c = CROSS
    c["seen"] += 1
    if not c["enabled"] or verdict not in ("sat", "unsat") or c["sampled"] >= c["limit"] or c["seen"] % c["every"]:
        return
    exe = shutil.which("cvc5")
    if exe is None:
        return
    t0 = time.time()
    text = "(set-logic ALL)\n" + solver.to_smt2()
    with tempfile.NamedTemporaryFile("w", suffix=".smt2", delete=False) as fp:
        fp.write(text)
        fn = fp.name
    try:
        r = subprocess.run([exe, "--lang", "smt2", "--tlimit=4000", fn], capture_output=True, text=True, timeout=20)
        out = (r.stdout or "").strip().splitlines()
        other = out[0].strip() if out else "unknown"
    except Exception:
        other = "unknown"
    finally:
        os.unlink(fn)
    c["sampled"] += 1
    c["seconds"] += time.time() - t0
    if other not in ("sat", "unsat"):
        c["unknown"] += 1
    elif other == verdict:
        c["agree"] += 1
    else:
        c["disagree"].append(dict(name=name, z3=verdict, cvc5=other))


def reset_log():
    del QUERY_LOG[:]


class Encoder:
    def __init__(self, ctx=None):
        self.ctx = ctx or S.current()
        self.zvars = {}
        self.side = {}      # name -> list of constraints
        self.used = set()

    def zvar(self, name):
        v = self.zvars.get(name)
        if v is None:
            v = z3.Real(name)
            self.zvars[name] = v
        return v

    def term(self, s):
        s = Sym.of(s)
        if not s.t:
            return z3.RealVal(0)
        parts = []
        for m, c in sorted(s.t.items(), key=lambda kv: kv[0]):
            f = [z3.RealVal(str(c))] if c != 1 or not m else []
            for n, e in m:
                self.used.add(n)
                if e > 0:
                    v = self.zvar(n)
                    f.extend([v] * e)
                else:
                    self.used.add(n + "^-1")
                    v = self.zvar(n + "^-1")
                    f.extend([v] * (-e))
            t = f[0]
            for x in f[1:]:
                t = t * x
            parts.append(t)
        return z3.Sum(parts) if len(parts) > 1 else parts[0]

    def rel(self, op, s):
        t = self.term(s)
        z = z3.RealVal(0)
        return {"==": t == z, "!=": t != z, ">": t > z, ">=": t >= z, "<": t < z, "<=": t <= z}[op]

    def _side_for(self, name):
        c = self.ctx
        out = []
        if name.endswith("^-1"):
            base = name[:-3]
            self.used.add(base)
            out.append(self.zvar(base) * self.zvar(name) == 1)
            return out
        info = c.vars.get(name, {})
        v = self.zvar(name)
        kind = info.get("kind")
        if name in c.pexp:
            self.used.add(c.pexp[name])
            out.append(v == 1 + self.zvar(c.pexp[name]))
        elif name in c.inv_def:
            out.append(v * self.term(c.inv_def[name]) == 1)
        elif name in c.sqrt_def:
            out.append(v * v == self.term(c.sqrt_def[name]))
            out.append(v >= 0)
        elif name in c.rules and kind == "algebraic":
            out.append(v * v == self.term(c.rules[name]))
            if info.get("negative"):
                out.append(v < 0)
            elif info.get("positive"):
                out.append(v > 0)
            val = info.get("value")
            if val is not None:
                # isolate the intended root (rules may have two roots of equal sign pattern for nested radicals)
                lo = Fraction(val) - Fraction(1, 10 ** 6)
                hi = Fraction(val) + Fraction(1, 10 ** 6)
                out.append(v > z3.RealVal(str(lo)))
                out.append(v < z3.RealVal(str(hi)))
            return out
        if info.get("domain") is not None:
            out.append(z3.Or([v == z3.RealVal(str(Fraction(dv))) for dv in info["domain"]]))
        if info.get("positive"):
            out.append(v > 0)
        if info.get("nonneg"):
            out.append(v >= 0)
        if info.get("lo") is not None:
            out.append(v > z3.RealVal(str(Fraction(info["lo"]))))
        if info.get("hi") is not None:
            out.append(v < z3.RealVal(str(Fraction(info["hi"]))))
        return out

    def side_conditions(self):
        """Constraints defining every atom / variable reachable from the used ones."""
        done = set()
        out = []
        while True:
            todo = [n for n in self.used if n not in done]
            if not todo:
                break
            for n in todo:
                done.add(n)
                out.extend(self._side_for(n))
        return out

    def assumptions(self):
        out = [self.rel(op, s) for op, s in self.ctx.assumptions]
        if self.ctx.cond_assumptions:
            from .executor import _cond_z3
            out += [_cond_z3(c, self) for c in self.ctx.cond_assumptions]
        return out


def _model_env(model, enc):
    env = {}
    for name, v in enc.zvars.items():
        if name.endswith("^-1"):
            continue
        val = model.eval(v, model_completion=True)
        env[name] = _to_float(val)
    return env


def _to_float(val):
    if z3.is_rational_value(val):
        return float(Fraction(val.numerator_as_long(), val.denominator_as_long()))
    if z3.is_algebraic_value(val):
        return float(val.approx(30).as_fraction())
    try:
        return float(val.as_decimal(30).rstrip("?"))
    except Exception:
        return float("nan")


BUDGET = dict(deadline=None, seconds=None, skipped=0)


def check(constraints, name="query", timeout_ms=20000, enc=None, logic="QF_NRA", want_model=True, tactic=None, retry=True):
    """Discharge one satisfiability query. Returns (verdict, env or None).
    An `unknown` that is a timeout is retried once with four times the budget (machine load must not turn into a verdict)."""
    t0 = time.time()
    if BUDGET["deadline"] is not None and t0 > BUDGET["deadline"]:
        BUDGET["skipped"] += 1
        QUERY_LOG.append(dict(name=name + " [not attempted: wall-clock budget spent]", verdict="unknown", seconds=0.0, logic=logic,
                              nvars=len(enc.zvars) if enc else None, nconstraints=len(constraints)))
        return "unknown", None
    budgets = [int(timeout_ms)] + ([4 * int(timeout_ms)] if retry else [])
    verdict, env = "unknown", None
    for k, budget in enumerate(budgets):
        if tactic:
            s = z3.Tactic(tactic).solver()
        else:
            s = z3.Solver()
        s.set("timeout", budget)
        for c in constraints:
            s.add(c)
        t1 = time.time()
        r = s.check()
        verdict = str(r)
        if verdict == "sat" and want_model and enc is not None:
            env = _model_env(s.model(), enc)
        if verdict != "unknown" or (time.time() - t1) * 1000 < 0.8 * budget:
            break
    dt = time.time() - t0
    if verdict == "sat" and os.environ.get("VERIF_DUMP_SAT"):
        # diagnosis aid: keep the text of every satisfiable query (a counterexample that does not replay can be re-examined)
        os.makedirs(os.environ["VERIF_DUMP_SAT"], exist_ok=True)
        with open(os.path.join(os.environ["VERIF_DUMP_SAT"], "%05d_%s.smt2" % (len(QUERY_LOG), "".join(ch if ch.isalnum() else "_" for ch in name)[:60])), "w") as fp:
            fp.write(s.to_smt2() + "\n; model: %r\n" % (env,))
    QUERY_LOG.append(dict(name=name, verdict=verdict, seconds=round(dt, 4), logic=logic,
                          nvars=len(enc.zvars) if enc else None, nconstraints=len(constraints)))
    if CROSS["enabled"] and tactic is None:
        _cross_check(s, verdict, name)
    return verdict, env


def _conds(conds, enc):
    """Path conditions (executor condition trees) as z3 constraints."""
    if not conds:
        return []
    from .executor import _cond_z3
    return [_cond_z3(c, enc) for c in conds]


def prove_zero(residual, name="identity", extra=(), timeout_ms=20000, use_assumptions=True, conds=(), retry=True):
    """Is `residual == 0` entailed?  'unsat' means yes (negation unsatisfiable)."""
    enc = Encoder()
    goal = enc.rel("!=", residual)
    cons = [goal] + [enc.rel(op, s) for op, s in extra] + _conds(conds, enc)
    if use_assumptions:
        cons += enc.assumptions()
    cons += enc.side_conditions()
    return check(cons, name=name, timeout_ms=timeout_ms, enc=enc, retry=retry)


def prove_equal(a, b, name="identity", extra=(), timeout_ms=20000, use_assumptions=True, conds=(), retry=True):
    """Is a == b entailed?  The two terms are handed to the solver un-subtracted,
    so that the solver's own polynomial arithmetic decides the identity."""
    enc = Encoder()
    goal = enc.term(a) != enc.term(b)
    cons = [goal] + [enc.rel(op, s) for op, s in extra] + _conds(conds, enc)
    if use_assumptions:
        cons += enc.assumptions()
    cons += enc.side_conditions()
    return check(cons, name=name, timeout_ms=timeout_ms, enc=enc, retry=retry)


def prove_rel(op, s, name="relation", extra=(), timeout_ms=20000, use_assumptions=True, conds=(), retry=True):
    """Is `s op 0` entailed?  ('unsat' = yes)."""
    neg = {"==": "!=", "!=": "==", ">": "<=", ">=": "<", "<": ">=", "<=": ">"}[op]
    enc = Encoder()
    cons = [enc.rel(neg, s)] + [enc.rel(o, x) for o, x in extra] + _conds(conds, enc)
    if use_assumptions:
        cons += enc.assumptions()
    cons += enc.side_conditions()
    return check(cons, name=name, timeout_ms=timeout_ms, enc=enc, retry=retry)


def satisfiable(rels, name="witness", timeout_ms=20000, use_assumptions=True, conds=(), retry=False):
    """Is the conjunction of relations (op, Sym) satisfiable together with the assumptions?"""
    enc = Encoder()
    cons = [enc.rel(o, x) for o, x in rels] + _conds(conds, enc)
    if use_assumptions:
        cons += enc.assumptions()
    cons += enc.side_conditions()
    return check(cons, name=name, timeout_ms=timeout_ms, enc=enc, retry=retry)


def _pins(names, rng):
    ctx = S.current()
    pins = []
    for n in names:
        info = ctx.vars[n]
        lo = info.get("lo")
        hi = info.get("hi")
        if lo is None:
            lo = Fraction(1, 10) if info.get("positive") else Fraction(-2)
        if hi is None:
            hi = Fraction(3)
        lo, hi = Fraction(lo), Fraction(hi)
        val = lo + (hi - lo) * Fraction(rng.randint(1, 97), 98)
        pins.append(("==", Sym({((n, 1),): Fraction(1)}) - val))
    return pins


def witness(rels, name="witness", timeout_ms=20000, rng=None, tries=4):
    """Reachability twin: a model of assumptions + rels.  Tried first with all input variables pinned to
    seeded rationals (the solver still has to solve for every atom and check every assumption), then free."""
    import random
    rng = rng or random.Random(0)
    ctx = S.current()
    names = set()
    for _, s_ in rels:
        names |= _closure_vars(s_)
    for _, s_ in ctx.assumptions:
        names |= _closure_vars(s_)
    names = sorted(n for n in names if ctx.vars.get(n, {}).get("kind") in ("input", "const"))
    for k in range(tries):
        v, env = satisfiable(list(rels) + _pins(names, rng), name=name + ":pinned%d" % k, timeout_ms=timeout_ms)
        if v == "sat":
            return v, env
    return satisfiable(rels, name=name + ":free", timeout_ms=timeout_ms)


def find_model(residual, name="cex", extra=(), timeout_ms=10000, rng=None, tries=6, pin_candidates=None):
    """Search a model of residual != 0 (plus assumptions).  When nlsat is slow the
    search is helped by pinning input variables to small rationals; a model is a
    model, pinning is never used for 'unsat'."""
    import random
    rng = rng or random.Random(0)
    v, env = prove_zero(residual, name=name + ":free", extra=extra, timeout_ms=timeout_ms, retry=False)
    if v == "sat":
        return v, env
    if v == "unsat":
        return v, None
    ctx = S.current()
    names = sorted(n for n in _closure_vars(residual) if ctx.vars.get(n, {}).get("kind") == "input")
    for k in range(tries):
        pins = []
        for n in names:
            info = ctx.vars[n]
            lo = info.get("lo")
            hi = info.get("hi")
            if lo is None:
                lo = Fraction(1, 10) if info.get("positive") else Fraction(-2)
            if hi is None:
                hi = Fraction(3)
            lo, hi = Fraction(lo), Fraction(hi)
            val = lo + (hi - lo) * Fraction(rng.randint(1, 97), 98)
            pins.append(("==", Sym({((n, 1),): Fraction(1)}) - val))
        # pin all but a shrinking suffix
        keep = pins if k == 0 else pins[: max(0, len(pins) - k)]
        v, env = prove_zero(residual, name=name + ":pinned%d" % k, extra=tuple(extra) + tuple(keep),
                            timeout_ms=timeout_ms, retry=False)
        if v == "sat":
            return v, env
    return "unknown", None


def _closure_vars(s):
    ctx = S.current()
    seen = set()
    todo = list(Sym.of(s).variables())
    while todo:
        n = todo.pop()
        if n in seen:
            continue
        seen.add(n)
        if n in ctx.pexp:
            todo.append(ctx.pexp[n])
        for d in (ctx.inv_def, ctx.exp_def, ctx.sqrt_def, ctx.log_def):
            if n in d:
                todo.extend(d[n].variables())
        if n in ctx.rules and ctx.vars.get(n, {}).get("kind") == "algebraic":
            todo.extend(ctx.rules[n].variables())
        if n in ctx.uf_def:
            pass
    return seen


def complete_env(env):
    """Fill atoms of the environment from their definitions where the model left them out."""
    return env
