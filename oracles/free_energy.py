"""Independent oracle for C01/C02: the vibrational free energy is written down and
differentiated mechanically (sympy); nothing of the closed forms in nonshear.py is used.

Per mode:  omega(V) = w0 * exp(-g0*x - d0*x**2/2),  x = ln(V/V0)
           (the general second-order germ with  -dln w/dln V = g0  and  d gamma/dln V = d0  at V0)
  F_zp = H*omega/2                      H  = h*c   in Ry*cm   (omega in cm^-1)
  F_th = K*T*ln(1 - exp(-H*omega/(K*T)))   K = k_B in Ry/K
P = -dF/dV,  A = V d2F/dV2 - P,  dP/dT = -d2F/dTdV, all evaluated at V = V0 and with
exp(H w0/(K T)) rewritten as 1+U  (U = e^Q - 1 > 0).
"""
from __future__ import annotations

from fractions import Fraction

import sympy

from symnum.sym import Sym

w0, g0, d0, V0, V, T, H, K, U = sympy.symbols("w0 g0 d0 V0 V T H K U", positive=True)
_E = sympy.Symbol("E_Q", positive=True)   # stands for exp(H*w0/(K*T))

_cache = {}


def _derive():
    if _cache:
        return _cache
    x = sympy.log(V / V0)
    omega = w0 * sympy.exp(-g0 * x - d0 * x ** 2 / 2)
    F_zp = H * omega / 2
    F_th = K * T * sympy.log(1 - sympy.exp(-H * omega / (K * T)))

    def at_v0(expr):
        expr = expr.subs(V, V0).doit()
        # exp(-n*H*w0/(K*T)) -> (1+U)**(-n)
        q = H * w0 / (K * T)
        expr = expr.replace(lambda e: isinstance(e, sympy.exp),
                            lambda e: (1 + U) ** sympy.cancel(e.args[0] / q))
        if expr.has(sympy.exp) or expr.has(sympy.log):
            raise RuntimeError("oracle: transcendental left after Bose rewriting: %s" % expr)
        return sympy.cancel(sympy.together(expr))

    out = {}
    for name, F in (("zp", F_zp), ("th", F_th)):
        P = -sympy.diff(F, V)
        A = V * sympy.diff(F, V, 2) - P
        out["P_" + name] = at_v0(P)
        out["A_" + name] = at_v0(A)
    out["dPdT_th"] = at_v0(-sympy.diff(F_th, V, T))
    # sanity: every exponent of (1+U) must be an integer
    for k, e in out.items():
        for p in e.atoms(sympy.Pow):
            if p.base == 1 + U and not p.exp.is_Integer:
                raise RuntimeError("oracle: non-integer Bose exponent in %s: %s" % (k, p))
    _cache.update(out)
    return _cache


def to_sym(expr, env):
    """Evaluate a sympy rational expression with Sym values for its symbols."""
    if expr.is_Symbol:
        return env[expr]
    if expr.is_Rational:
        return Sym.const(Fraction(int(expr.p), int(expr.q)))
    if expr.is_Add:
        r = Sym({})
        for a in expr.args:
            r = r + to_sym(a, env)
        return r
    if expr.is_Mul:
        r = Sym.const(1)
        for a in expr.args:
            r = r * to_sym(a, env)
        return r
    if expr.is_Pow:
        if not expr.exp.is_Integer:
            raise RuntimeError("oracle: non-integer power %s" % expr)
        return to_sym(expr.base, env) ** int(expr.exp)
    raise RuntimeError("oracle: unsupported node %s" % type(expr))


def mode_terms(w, g, d, v, t, Hs, Ks):
    """Per-mode Sym values {P_zp, A_zp, P_th, A_th, dPdT_th} at volume v, temperature t (t may be None
    for the zero-point terms only).  The Bose atom is obtained by calling .exp() on the same canonical
    Q = H*w/(K*t) the code must form, so code and oracle share the atom by construction of Sym."""
    ex = _derive()
    env = {w0: w, g0: g, d0: d, V0: v, H: Hs, K: Ks}
    out = {k: to_sym(ex[k], env) for k in ("P_zp", "A_zp")}
    if t is not None:
        q = Hs * w / (Ks * t)
        u = q.exp() - 1
        env[T] = t
        env[U] = u
        for k in ("P_th", "A_th", "dPdT_th"):
            out[k] = to_sym(ex[k], env)
    return out


def numeric_F(ws, gs, ds, wts, v0, v, t, Hf, Kf):
    """Float F_ph(T,V) for the germ spectrum (used by replay: finite differences, fully independent)."""
    import math
    x = math.log(v / v0)
    tot = 0.0
    sw = sum(wts)
    for q in range(len(wts)):
        for m in range(len(ws[q])):
            if ws[q][m] == 0:
                continue
            om = ws[q][m] * math.exp(-gs[q][m] * x - ds[q][m] * x * x / 2)
            f = Hf * om / 2
            if t > 0:
                f += Kf * t * math.log1p(-math.exp(-Hf * om / (Kf * t)))
            tot += wts[q] / sw * f
    return tot
