#!/bin/sh
# Build the overlay interpreter: /venv (repo deps) + solvers from the offline wheelhouse.
set -e
cd "$(dirname "$0")"
if [ -x .venv/bin/python ] && .venv/bin/python -c "import z3, crosshair, numpy, sympy" 2>/dev/null; then
  echo "overlay venv ok"; exit 0
fi
rm -rf .venv
/venv/bin/python -m venv .venv
echo "import site; site.addsitedir('/venv/lib/python3.12/site-packages')" > .venv/lib/python3.12/site-packages/_base.pth
PIP_NO_INDEX=1 .venv/bin/pip install -q --no-index --find-links /opt/veriftools/wheels z3-solver crosshair-tool cvc5
.venv/bin/python -c "import z3, crosshair, numpy, sympy; print('overlay venv built')"
