#!/usr/bin/env python3
"""tools/try_mutant.py <prop>[,<prop>...] <relpath> <old> <new> [--tier quick] [--count N]
Copy /repo's tracked tree to a scratch dir, apply one textual replacement, run the named checks
against the copy (CIJ_REPO), print exit codes, remove the copy.  Evidence/replays go to a temp dir."""
import os, shutil, subprocess, sys, tempfile

def main():
    a = sys.argv[1:]
    props, rel, old, new = a[0].split(","), a[1], a[2], a[3]
    tier = "quick"; count = 1
    if "--tier" in a: tier = a[a.index("--tier") + 1]
    if "--count" in a: count = int(a[a.index("--count") + 1])
    tmp = tempfile.mkdtemp(prefix="mut_")
    try:
        dst = os.path.join(tmp, "repo")
        subprocess.check_call("git -C /repo archive HEAD | tar -x -C %s" % (os.makedirs(dst) or dst), shell=True)
        # include uncommitted working tree changes of tracked files
        subprocess.call("cd /repo && git diff HEAD | (cd %s && patch -p1 -s)" % dst, shell=True)
        p = os.path.join(dst, rel)
        s = open(p).read()
        if s.count(old) < 1:
            print("pattern not found"); return 2
        s = s.replace(old, new, count)
        open(p, "w").write(s)
        ev = os.path.join(tmp, "ev"); os.makedirs(ev)
        env = dict(os.environ, CIJ_REPO=dst, VERIF_EVIDENCE_DIR=ev, VERIF_REPLAY_DIR=ev)
        rc = {}
        for prop in props:
            r = subprocess.run([sys.executable, "/verif/run_check.py", prop, "--tier", tier], env=env, capture_output=True, text=True)
            lines = [l for l in r.stdout.splitlines() if l.startswith(("VIOLATION", "  what", "RESULT", "HARNESS", "KNOWN"))]
            print("\n".join(lines[:12]))
            if r.returncode not in (0, 1): print(r.stdout[-1500:], r.stderr[-1500:])
            rc[prop] = r.returncode
        print("EXIT", rc)
    finally:
        shutil.rmtree(tmp, ignore_errors=True)

if __name__ == "__main__":
    sys.exit(main())
