#!/usr/bin/env python3
"""tools/reeval_benign.py [ids...] [--jobs N]
The other half of the regression corpus: behaviour-preserving refactorings (benign/<id>/patch.diff, written by sub-agents that verified
them with their own differential tests).  Each patch is applied to a scratch copy of /repo's HEAD and every check is run against it
(quick tier); every check must exit 0 -- a VIOLATION would be a false alarm, exit 3 an inconclusive run.  Writes benign/RECHECK.json."""
import json, os, shutil, subprocess, sys, tempfile

VERIF = os.path.dirname(os.path.dirname(os.path.abspath(__file__)))


def main():
    a = sys.argv[1:]
    jobs = "8"
    if "--jobs" in a:
        jobs = a[a.index("--jobs") + 1]
        del a[a.index("--jobs"):a.index("--jobs") + 2]
    ids = a or sorted(x for x in os.listdir(os.path.join(VERIF, "benign")) if os.path.isdir(os.path.join(VERIF, "benign", x)))
    out = {}
    ok = True
    for rid in ids:
        tmp = tempfile.mkdtemp(prefix="benign_%s_" % rid)
        try:
            dst = os.path.join(tmp, "repo")
            os.makedirs(dst)
            subprocess.check_call("git -C /repo archive HEAD | tar -x -C %s" % dst, shell=True)
            r = subprocess.run("patch -p1 -s --no-backup-if-mismatch < %s" % os.path.join(VERIF, "benign", rid, "patch.diff"), shell=True, cwd=dst, capture_output=True, text=True)
            if r.returncode != 0:
                out[rid] = dict(applied=False, detail=(r.stdout + r.stderr)[-300:])
                ok = False
                print("%-4s patch does not apply" % rid)
                continue
            rr = subprocess.run([sys.executable, os.path.join(VERIF, "tools", "run_on_tree.py"), dst, "--jobs", jobs], capture_output=True, text=True)
            exits = {l.split()[0]: int(l.split("exit=")[1]) for l in rr.stdout.splitlines() if l[:1] == "C" and "exit=" in l}
            out[rid] = dict(applied=True, exits=exits)
            allowed = []
            ef = os.path.join(VERIF, "benign", rid, "expected.json")
            if os.path.exists(ef):
                allowed = json.load(open(ef)).get("inconclusive_allowed", [])
            # exit 1 (a VIOLATION line) on a behaviour-preserving change is a false alarm and never allowed; exit 3 only where listed
            bad = {k: v for k, v in exits.items() if v != 0 and not (v == 3 and k in allowed)}
            out[rid]["inconclusive"] = sorted(k for k, v in exits.items() if v == 3)
            ok = ok and not bad and len(exits) == 20
            print("%-4s %s" % (rid, ("all 20 checks exit 0" if not out[rid]["inconclusive"] else "no alarm; inconclusive (listed): %s" % out[rid]["inconclusive"]) if not bad and len(exits) == 20 else "NON-ZERO: %s" % bad))
        finally:
            shutil.rmtree(tmp, ignore_errors=True)
    head = subprocess.run("git -C /repo rev-parse --short HEAD", shell=True, capture_output=True, text=True).stdout.strip()
    rf = os.path.join(VERIF, "benign", "RECHECK.json")
    merged = {}
    if a and os.path.exists(rf):          # a partial run updates the entries it re-ran
        prev = json.load(open(rf))
        if prev.get("repo_head") == head:
            merged = prev.get("results", {})
    merged.update(out)
    json.dump(dict(repo_head=head, results=merged), open(rf, "w"), indent=1, sort_keys=True)
    return 0 if ok else 1


if __name__ == "__main__":
    sys.exit(main())
