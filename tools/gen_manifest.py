#!/usr/bin/env python3
"""Generate /verif/MANIFEST.json from the table below (single source of truth for the interface)."""
import json
import os

VERIF = os.path.dirname(os.path.dirname(os.path.abspath(__file__)))

CHECKS = {
    "C01": dict(
        engine="symnum+z3",
        technique="symbolic execution of the real nonshear.py classes on Sym (Laurent-polynomial) numpy object arrays; "
                  "z3 QF_NRA identity queries against a sympy-differentiated free energy; sat models replayed on the real code",
        text="Bounded solver verdict: for every listed array shape (q-points x modes x volumes x temperatures) z3 shows that no real "
             "assignment of frequencies, Grueneisen data, weights, T, V, strain fractions and pressures makes the polynomial the real "
             "classes compute differ from the strain derivatives of F_ph obtained by mechanical differentiation. Tests cannot "
             "quantify over spectra; a proof assistant would have to re-model numpy.",
        note="Trusted: the Sym normaliser and numpy's object-dtype dispatch (cross-validated every run by evaluating the symbolic "
             "result at a concrete point against the real float run), z3, sympy.diff. Real-number semantics: IEEE rounding is "
             "outside the claim. Bose factor modelled as a free positive atom. Constants checked concretely against CODATA.",
        design="3/C01"),
    "C02": dict(
        engine="symnum+z3",
        technique="symbolic execution of nonshear.py (and tasks.py/shear.py for the shear part) on Sym arrays; z3 QF_NRA identity "
                  "with sympy -d2F/dTdV, nlsat sign query, variable-support check for C_V independence",
        text="Bounded solver verdict per shape: gap polynomial == T V (dP/dT)^2/(9 e_i e_j C_V) for all real inputs, T=0 row zero, "
             "gap_ii >= 0 under C_V>0 (nlsat on the code polynomial for the small shape, composed with the identity for larger ones).",
        note="As C01. The sign query for shapes above 12 live modes is discharged on the composed form (identity + square).",
        design="3/C02"),
    "C10": dict(
        engine="symnum+z3",
        technique="symbolic execution of the real voigt.py constructors on finite-domain symbolic integers (forking executor; z3 "
                  "decides feasibility of every branch, hashing concretises by forking); per-path solver obligations; CrossHair "
                  "cross-check of the two-index conditions in the thorough tier",
        text="Complete over the finite box: the executor partitions (-3..12)^4, (-3..12)^2 and -3..12 into paths of the real "
             "constructors; z3 shows every rejecting path contains no valid tuple; the accepting paths (exactly 81 / 36 / 9 / 6) "
             "are tallied against a symmetry-orbit oracle (equality and hash classes, 21 keys, multiplicity = class size, 3/3/15, "
             "Voigt table, string/int/2-index/4-index spellings, file-column spellings); the one-argument spellings given as numpy integers / numpy "
             "strings agree with the plain ones (type twin); every 2-digit string over 0..9 and 4-digit string over 0..4 (0..9 thorough), each digit a "
             "finite-domain symbol, is accepted exactly when all digits are valid indices and then equals the index spelling.",
        note="Trusted: executor + z3 feasibility answers (an 'unknown' is reported, never ignored); the oracle (orbits of the "
             "minor/major symmetries and the Voigt table quoted in the property). Indices outside -3..12 are outside the claim.",
        design="3/C10"),
    "C08": dict(
        engine="symnum+z3",
        technique="relations captured from the real fill_cij at the lstsq boundary; two subspace inclusions per crystal system decided "
                  "by z3 over the 21 tensor components (exact coefficients in Q(sqrt 3)); real fill_cij symbolically executed on "
                  "invariant tables with an exact least-squares stub",
        text="Exact for all real tensors: per system z3 proves relations |= every Laue-invariance equation and invariance |= every "
             "parsed relation (both inclusions of subspaces of R^21). Bounded for the fill part: supplied-set families and 1-3 rows, "
             "each output column proved equal to the invariant tensor's component, also when the same supplied set is filled a second time in the "
             "same process with its columns in another order, and when the caller's frame carries row labels of its own.",
        note="Trusted: the Laue generators written in the harness (standard setting), sympy's exact pseudo-inverse as the lstsq "
             "specification (LAPACK's numerical rank decision is outside), the tensor expansion map. Non-vanishing components are "
             "assumed not to lie within drop_atol of zero at every volume (recorded cut).",
        design="3/C08"),
    "C09": dict(
        engine="symnum+z3",
        technique="forking symbolic execution of the real fill_cij on free symbolic tables (exact least-squares stub); per path z3 "
                  "decides 'raises <=> refusal condition' stated with exact rank and residual, out == least-squares solution, "
                  "drop <=> all rows below tolerance; nlsat lemma for the sqrt(atol) bound; configuration twins replayed concretely",
        text="Bounded solver verdict: for 8 systems x supplied-set families (sufficient and insufficient) x 4 flag settings, every "
             "path of the real function is shown to raise exactly when the refusal condition holds for all table values on that "
             "path; accepted tables are the exact least-squares solution (so no supplied value or relation moves by more than "
             "sqrt(residual_atol)); order / case / pass-through / idempotence identities; dtype, cwd, relation-path, rewritten-relations-file "
             "and command-line-flag twins concrete; the residual refusal is stated as the misfit of the best tensor whether or not the table "
             "determines it (under-determined + redundant supplied sets); non-modulus columns pass through also when zero / below the drop "
             "tolerance; relation files with blank lines or upper-case component names; the empty supplied set (no modulus column) is refused with "
             "the rank Warning; on the Calculator path (apply_symetry_on_elast_data) system, both flags and both tolerances -- finite-domain symbolic, "
             "0 included -- reach fill_cij unchanged; a frame with row labels of its own gives the same outcome; in a 25-row table a contradiction in any single row is refused; triclinic (known finding: never refuses).",
        note="Trusted: exact-LSQ stub as the contract of numpy.linalg.lstsq; the twins (dtype, working directory, file path) are "
             "concrete runs, not solver results. Subsets of supplied components outside the listed families are outside the claim.",
        design="3/C09"),
    "C03": dict(
        engine="symnum+z3",
        technique="symbolic execution of the real shear.py class on a symbolic 21-component tensor; eigen-frame of the concrete "
                  "fictitious strain lifted to exact algebraic numbers; z3 QF_NRA decides target == C_key modulo the atoms' defining "
                  "equations, for the computed frame, sign/order variants and the rotation family of degenerate eigenspaces",
        text="For all real symmetric fourth-rank tensors at once (21 symbolic components) and all 15 shear keys: z3 shows the value "
             "returned by get_target_elastic_modulus equals the target component; requested keys exclude the target; rotated axial "
             "strains are diag(T^T diag(e) T) with trace preserved and frame-independent as a multiset; the same solver object evaluated again with a second "
             "symbolic tensor returns that tensor's component; also for a single strain triple given as a "
             "1-D array, tuple or list.",
        note="Trusted: exact lift of the LAPACK frame (verified exactly with sympy: M v = lambda v, orthonormal), oracle rotation of the "
             "tensor by the harness's own 4-index contraction. Float non-orthogonality (1e-16) is outside.",
        design="3/C03"),
    "C04": dict(
        engine="symnum+z3",
        technique="symbolic execution of the real tasks.py scheduler with the real shear/nonshear classes on a symbolic duck calculator; "
                  "z3 identities for isotropy / axis covariance / request independence; forking exploration of the real allclose "
                  "de-duplication with a solver-decided merge-tolerance obligation",
        text="Bounded solver verdict (nq=2, np=3..6, nT=2): the 19 isotropy relations, axis covariance under permutations, completeness, "
             "dependency order and equality of every component across a bounded family of request sets and orders are decided as "
             "polynomial identities in all spectrum/strain symbols; on every explored path where approximate-equality de-duplication "
             "merges two different parameter sets z3 shows they agree to 1e-9, and the whole calculation runs to completion on every such "
             "path (request sets with mixed shear keys included); a task list calculated a second time with other strains returns the values of "
             "a fresh list; a request handed over as a one-shot iterable gives the results of the same request as a list; a strain given as one triple "
             "(tuple / list / 1-D array) gives the values of the table repeating it at every volume.",
        note="Undecided exact equalities between structurally different symbolic values are cut as 'not equal' (general position, recorded). "
             "Request sets of size 3-20 other than the listed ones are outside; identity obligations assume generic strain fractions "
             "(structural de-dup cut), the merge-tolerance obligations remove that assumption for small request sets.",
        design="3/C04"),
    "C13": dict(
        engine="symnum+z3",
        technique="symbolic execution of the real phonon pipeline, static fit, static-file reader (token files) and Calculator._load on "
                  "re-presented symbolic data (q-point / mode permutations, symbolic weight scale, static rows/columns, file row order, phonon "
                  "volume-block order); z3 decides equality of output polynomials / records; qha's grid refinement with exact least squares (LRA)",
        text="Bounded solver verdict: for nq=3 and the listed permutations every output polynomial of the re-presented run equals the "
             "original's for all spectra/strains; the weight scale factor is a symbol; the static cubic fit (exact least-squares stub) is "
             "invariant under row permutations that keep the reference row first and under column order/case/spelling; the real static-file "
             "reader keeps volume, moduli and lattice parameters of a row together for every listed row order (tokens, ordered volumes); the "
             "real Calculator._load hands every (volume, q-point) block on with its modes in the listed order (all outcomes of any comparison explored) and the same volume-block sequence to the QHA layer whatever order the phonon file lists them in (or, "
             "if the order gets through, qha's grid refinement is compared as exact linear maps of symbolic free energies and interpolate_modes "
             "as uninterpreted interpolants of its node sets); re-orderings of static rows that move the strain reference row are decided to "
             "1e-6 by LRA on concrete volume grids; through the real Calculator._load every static row keeps its volume, components and lattice "
             "parameters together for 5 (24) row orders of a table with lattice block; get_axial_strains returns the same strain fractions "
             "when every lattice parameter is multiplied by one symbolic positive factor (another length unit), on every path of any "
             "tolerance test it applies to the data (solver-decided allclose, exact least squares on concrete volumes).",
        note="Outside: the affine invariance of the static fit for symbolic volumes (decided on concrete grids only), rounding; the "
             "phonon volume-order obligation is decided at the hand-over (identical data downstream), not by executing qha and scipy on "
             "permuted data.",
        design="3/C13"),
    "C12": dict(
        engine="fp-kernels (cvc5) + symnum",
        technique="AST -> QF_FP translation of the Bose-factor kernels (straight-line interpretation of the property bodies: locals, in-place operators, out= aliases, cache guards; exp axiomatised), decided by cvc5; symbolic pipeline for "
                  "T=0 masking and absence of undefined values; forking execution of the task de-duplication (coinciding strain fractions) with "
                  "the whole pipeline run on every path; concrete dtype check of the eigen-frame",
        text="Partial: in IEEE binary64 semantics cvc5 shows no (omega in [30,1500] cm^-1, T any positive double up to 3000 K) makes Q, Q1 or Q2 "
             "NaN/inf and that Q1, Q2 vanish (<=1e-290) above the exp overflow threshold; symbolically no 0/0 or x/0 survives into any "
             "assembled component and the T=0 row carries no thermal term; for mixed shear keys the calculation completes with defined "
             "values on every path of the approximate-equality task merging (equal / nearly equal axial strain fractions); no undefined value for "
             "temperature grids starting at 0 K, without a 0 K point (T_MIN > 0) and with the 0 K point not in first position, and with a q-point of weight exactly 0; loading the QHA "
             "layer completes for every DT in 0.5..500 K and DELTA_P in 0.1..5 GPa (finite-domain symbolic values through the real loader) and whichever "
             "single documented QHA setting the user leaves out (finite-domain symbolic index, real apply_default_config + loader); no undefined value "
             "either when the heat capacity handed over is exactly 0 at 0 K; an interpolation order "
             "spelled 3.0 (a JSON integer) runs like 3 (twin). Known finding (concrete twin on the shipped diopside data): krogh with every volume a node "
             "gives +inf frequencies and NaN moduli on the volume margin.",
        note="The configuration sweep 'every schema-valid configuration x interpolator completes' is library behaviour (qha, scipy, LAPACK) "
             "and outside; numpy.exp is modelled by the listed axioms (each a true fact of a faithful exp); eigen-frame real-ness is a "
             "concrete check over the 15 keys.",
        design="3/C12"),
    "C06": dict(
        engine="symnum+z3",
        technique="symbolic execution of CijPressureBase* with v2p as an uninterpreted function (congruence), symbolic execution of qha's "
                  "v2p body/_lagrange4 per bracket with z3 identities, forking execution of desired_pressure_status with per-path "
                  "'raises <=> overshoot' solver obligations",
        text="Partial: (a) every pressure-base quantity, tensor entry and attribute spelling is V2P of exactly the matching volume-base "
             "quantity with the QHA pressure field and requested grid (for every implementation of v2p); (b) qha's interpolation kernel "
             "maps its own pressure field to the requested pressure, reproduces cubics exactly and returns a node's value at a node's "
             "pressure (so P(T,V(T,P)) = P holds exactly on grid nodes), for every bracket with distinct nodes; (c) the range check raises ValueError iff min_T P[T,last] < max requested p on all explored paths (requested grid P_MIN + j*DELTA_P with symbolic P_MIN, DELTA_P and complete settings), runs after "
             "refine_grid and propagates; on shipped data with a reachable range that starts above zero the real Calculator's pressure-base volume and tensor views "
             "equal an independent monotone interpolation of the volume-base quantities (concrete twin); the QHA adapter's pressure axis is the "
             "one qha builds from its settings for P_MIN = 0, 6 and -2 GPa (concrete twin).",
        note="'P(T,V(T,P)) = P to interpolation accuracy' between nodes and monotonicity of V(P) for arbitrary data are numerical-analysis "
             "statements and are not claimed. The bracket search (numba) is stubbed by enumeration.",
        design="3/C06"),
    "C07": dict(
        engine="symnum+z3",
        technique="symbolic execution of _calculate_compliances and the VRH / velocity properties on symbolic stiffness fields with an "
                  "uninterpreted symmetric inverse; z3 identities against 3^4 tensor contractions; Reuss<=Hill<=Voigt for the general "
                  "tensor by a chain of z3-checked polynomial certificates and nlsat lemmas",
        text="For all stiffness / inverse / mass / volume symbols: the matrix inverted is the symmetric Voigt matrix of the tensor, "
             "compliances are its inverse's entries, K_V, G_V, K_R, G_R, Hill values equal the full-tensor contractions, "
             "rho v_s^2 = G_VRH and rho v_p^2 = K_VRH + 4/3 G_VRH in km/s. Reuss<=Hill<=Voigt (K and G) for the general symmetric "
             "stiffness of each key set (up to all 21 components symbolic) with S C = 1: six polynomial identities in all C and S entries "
             "(certificates for w.C.w = b(ab - n^2)), Cauchy-Schwarz and a 5-term sum lemma by nlsat; key sets include the nine orthotropic components plus shear-shear couplings only; direct nlsat cross-check on cubic "
             "and transversely isotropic tensors; a calculator's compliances / Reuss / Hill / velocities are unchanged after a second "
             "calculator was built in the same process.",
        note="S.C = I itself is the contract of numpy.linalg.inv (stubbed); positive definiteness enters the ordering only through 12 "
             "instance vectors; the lemmas are each a solver verdict, their composition (modus ponens over the lemma statements) is done "
             "by the harness; unit factors read as symbols when within 1e-8 of CODATA.",
        design="3/C07"),
    "C15": dict(
        engine="symnum+z3",
        technique="symbolic execution of the real ResultsWriter / write_table / write_output on symbolic interface objects with recording "
                  "sinks; z3 equality of every recorded payload and axis with the in-memory quantity times the documented unit factor",
        text="Partial (wiring): for every keyword and alias of the registry loaded from the working tree's YAML and both bases, the table "
             "handed to the qha writer is, for all values of the symbolic results, the in-memory quantity (adiabatic vs isothermal tensor, "
             "averages, velocities, V, P) times the documented unit factor, under the documented file name, with T / P(GPa) / V(A^3) axes; "
             "aliases identical; a unit override is honoured for every rule (both bases), fname overrides too, also when the same rule is "
             "listed several times for one base, and as a pattern ({ij}, {base}) on tensor keywords (one file per component); write_output "
             "dispatches per base.",
        note="The textual table (labels as printed, the four dropped guard temperatures, precision) is produced by qha/pandas and is "
             "outside the solver claim; the concrete replay re-reads real files only to confirm a counterexample.",
        design="3/C15"),
    "C05": dict(
        engine="symnum+z3",
        technique="symbolic execution of the real orchestration (calculator.py, full_modulus.py, tasks.py and the phonon classes) on symbolic "
                  "data objects with the numeric kernels as uninterpreted functions; z3 equality of each modulus with the stated "
                  "composition; variable-support checks; one real end-to-end run as stage R",
        text="Partial (wiring): for all values of the symbolic file contents and every implementation of the kernels, each isothermal and "
             "adiabatic modulus equals LSQ3(eps(V0,V), V*c*(GPa->au))(eps(V0,v))/v plus the C01-C04 phonon pipeline evaluated on "
             "(interpolated spectrum, [dgamma, gamma, gamma^2], weights, atom count, strain fractions); strain fractions are the normalised "
             "centred log-derivatives of the fitted axes (thirds without lattice block); static P = -grad LSQ(E)/grad v; static part "
             "T-independent, phonon part independent of the static table; every grid setting reaches the QHA calculator unchanged on top of "
             "qha's defaults and read_input places volumes / energies / frequencies[volume,q,mode] / weights from the right fields; the "
             "settings of a second Calculator load are its own file over the packaged defaults (history twin); the same with a static table of exactly "
             "4 volumes (lower end of the quantifier; 4 and 7 with lattice block in the thorough tier).",
        note="Outside: text parsing of the three files, that qha/LAPACK/scipy kernels compute what their names say, grid settings; the "
             "crystal-system fill is C08/C09. In the lattice case the strain fractions handed downstream are abstracted by fresh symbols "
             "after their value has been checked (recorded cut).",
        design="3/C05"),
    "C11": dict(
        engine="symnum+z3",
        technique="symbolic execution of mode_gamma.py with scipy's interpolator classes as uninterpreted smooth-function factories bound "
                  "through the real constructor signatures; exact least squares for lsq_poly; recording axes for plot_modes; z3 equalities",
        text="For each of the seven methods and the listed orders: the three returned arrays are exp(F), -F', -F'' of one and the same "
             "interpolant built from the flipped (ln V, ln omega) nodes with the documented node selection (for every implementation of "
             "the interpolant); lsq_poly is exact for ln omega polynomial in ln V up to the order for every admissible number of volumes down to nv = order+1, also when other orders were fitted on the same volumes earlier in the process; interpolate_modes fills slot (q,m) from "
             "that mode only (also for a q-point of weight 0) and leaves Gamma acoustic slots zero; plot_modes draws freq / gamma / V dgamma/dV for n = 0, 1, 2 and every -n the `cij modes` "
             "parser admits is drawable; interpolate_modes without an order runs like the method's own default order (twins).",
        note="That scipy's interpolants reproduce power laws on the extrapolated grid is library numerics (outside; used only in replays); the "
             "stubs do carry the library classes' extrapolation contract (probed on the installed scipy): every method is defined on a grid "
             "reaching beyond the sampled volumes. Known finding: 'hermite' cannot be constructed (known_findings.json).",
        design="3/C11"),
    "C16": dict(
        engine="crosshair + z3",
        technique="CrossHair symbolic execution of the real update_config / apply_default_config on generated skeleton pairs with symbolic "
                  "integer leaves (reachability twins); packaged JSON schema compiled to an SMT predicate and compared by z3 with the "
                  "documented constraints in both directions; solver witnesses replayed through the real validate_config",
        text="Merge: per skeleton pair 'Confirmed over all paths' for: result == oracle merge, every user leaf survives, default-only "
             "leaves taken, key set = union, inputs unmodified, idempotent, insertion-order independent (all leaf values). Validation: per "
             "documented field the schema neither rejects a documented-valid nor accepts a documented-invalid value (all JSON kinds, all "
             "numbers); required sections, closed objects, shipped files; YAML and JSON spellings of every documented field with delicate values "
             "(numeric-looking strings, integral floats, booleans, null) load to the written object and validate alike; a second "
             "apply_default_config call in one process is unaffected by the first (CrossHair, symbolic leaves); grid steps (DT, DELTA_P, the two sampling "
             "steps) must be positive and DT_SAMPLE / static_only are typed; non-finite numbers (nan, +-inf) are rejected for every documented numeric field; a user section over a plain "
             "default value (and the reverse) wins as a whole; editing a returned effective configuration does not reach later calls (history twin).",
        note="Skeleton family is bounded (depth<=3, seeded); dict-vs-leaf clashes excluded. The schema compiler covers the keyword subset "
             "the packaged schema uses and is cross-validated against jsonschema on every solver witness.",
        design="3/C16"),
    "C20": dict(
        engine="symnum+z3",
        technique="symbolic execution of evec_disp2eig with sqrt / inverse atoms (z3 nlsat identities, complex rows as Sym pairs); forking "
                  "execution of evec_sort over a symbolic perturbation box where z3 decides every abs/argmax comparison",
        text="Small bounds: disp2eig (M<=2, N<=2) returns unit-norm rows parallel to M^(1/2) d for all displacement rows and positive "
             "masses on every path of its data-dependent guards, restores an orthonormal pair (nlsat under orthonormality constraints), uses the Hermitian norm, rejects shape "
             "mismatches; evec_sort (n=2,3; rational orthonormal real bases with signed permutations and rational complex unitary bases with phases "
             "1, i, -1, -i; perturbation box of radius 0.05) returns the expected order on every feasible path of the greedy argmax; "
             "evec_load returns every complex component at its (q, mode, atom, axis) place for files in matdyn layout (token files); integer-valued "
             "displacement vectors behave like floats (dtype twin); dtype predicates of the code see modelled complex rows as complex; seven dimension-mismatch shapes rejected; list / tuple / array containers of the two "
             "bases in any combination sort alike (container twin).",
        note="Outside: dimensions 4-60, unitary bases with irrational entries and general phases for the sort; for evec_load the float() "
             "parsing itself and the digit regexes on symbolic text (q coordinates and frequencies are concrete, pairwise distinct).",
        design="3/C20"),
    "C18": dict(
        engine="symnum+z3",
        technique="symbolic execution of the real run-static click callback on symbolic data objects (real pandas with object columns, numpy "
                  "proxy, library kernels uninterpreted through sys.modules); z3 equality of every output column with the stated relation; "
                  "real command replayed on a shipped example",
        text="For all energies / table values / cell masses and every implementation of the kernels, in modes none / volume / pressure, with "
             "and without static table, crystal system and --cellmass: V, F, P, density carry the A^3 / eV / GPa / g/cm^3 factors once; "
             "P = -grad(FIT(E))/grad(v) (spline-resampled in mode none); F = input energies (none) or the fit at the row's V; "
             "pressure-mode V and F are the same inverse interpolation applied to v and to the fit, rows at the requested pressures; moduli = "
             "fit of the table at the row's V; VRH and v_p, v_s, v_phi relations; the crystal-system option without a static table is a no-op; with "
             "--delta-p-sample = 2 x --delta-p every second row of the pressure grid starting at p_min; the density column whenever a cell mass is known "
             "(--cellmass without a static table included).",
        note="Grid of 4 points and 5 input volumes (the callback is uniform in these sizes, which is an argument, not a solver result); file "
             "parsing, table printing and kernel numerics outside; stage R runs the real command once per mode.",
        design="3/C18"),
    "C19": dict(
        engine="symnum+z3",
        technique="forking symbolic execution of the real extract callback over a symbolic requested temperature / pressure (z3 decides "
                  "every argmin comparison; per path: selected line is a nearest grid value); extract-geotherm with the bivariate spline "
                  "uninterpreted and z3 equality of each value with SPLINE[T grid, P grid, table](T_i, P_i)",
        text="Partial: extract - for every requested value in and beyond the tabulated range, every feasible outcome returns a nearest grid "
             "line, the same line for every variable on one grid and the nearest line of its own table when the variables are tabulated on different grids, labelled by the other coordinate (rows for -T, columns for -P); extract-geotherm - each "
             "value is the spline of the table with temperatures along rows and pressures along columns evaluated at the geotherm row's "
             "(T_i, P_i) for every geotherm point inside the tabulated range (all paths of any data-dependent guard), for default and custom "
             "column names, geotherm columns passed through; the variable's table is read whatever other VAR_tp_* entries exist next to it and in "
             "whatever order glob lists them (adversarial order stub, concrete twin); what is printed parses back to the table's values and to the "
             "geotherm's own columns to 1e-12 (printing twin on tables written as the package writes them).",
        note="Outside: file discovery (glob), table parsing and the text layout, and everything about the FITPACK spline itself (that it "
             "reproduces grid nodes, convergence under refinement: library numerics / asymptotic statement).",
        design="3/C19 (as built: A.4)"),
    "C14": dict(
        engine="symnum+z3",
        technique="bounded call / access histories executed symbolically on the real classes (results read repeatedly and in several orders, "
                  "write_output repeated and re-ordered, two calculators interleaved, fill applied twice); z3 equality of everything observed; set "
                  "iteration order (hash seed) as finite-domain symbolic permutations explored by the forking executor",
        text="Partial: the clauses of the statement that are about values the code computes. For all symbolic inputs and the listed "
             "histories (2-3 reads per quantity, 3 access orders, 3 write_output calls, 2 calculators in one process, fill applied twice) "
             "every array observed later equals the one observed first: every property of the phonon contribution objects (found by introspection, cached "
             "intermediates Q, Q1, Q2 included, 4 access orders), task-list results, all volume- and "
             "pressure-base quantities, the tables handed to the table writer (one configuration object with file-name / unit override entries across all calls), the first "
             "calculator's results after a second one was built, "
             "and a symmetry-filled table filled again (tables satisfying the relations; a table accepted with a misfit eps in [1/1000, 1/10] "
             "is a known finding: the fill is not idempotent there; so is a table whose symmetry-allowed component vanishes identically: the fill refuses "
             "its own output). Hash seed: the builtin set of config.py / calculator.py is replaced by a set whose iteration order is a "
             "symbolic permutation (Lehmer code of finite-domain integers); on every feasible order update_config returns 'user over "
             "defaults' (two nesting levels, up to 7 keys) and _calculate_compliances inverts the symmetric matrix of the components "
             "(9 / 13 / 15 components).",
        note="NOT covered and not coverable by this technique: hash-seed effects other than set iteration order, unrelated entries in the working directory and "
             "byte-identical output files are properties of the process environment, not values the code computes with; only re-running the "
             "program varies them (differential re-execution). Histories longer than the listed ones are outside. Related history obligations "
             "live in C05 (configuration leak), C08/C09 (fill call order, relations file rewritten, directory named like the system), C16, C17.",
        design="3/C14 (as built: A.4)"),
    "C17": dict(
        engine="symnum+z3",
        technique="symbolic execution of the real readers / writer on files whose numeric fields are opaque tokens (module-global `float` "
                  "rebound to a token->symbol map, f-string formatting prints tokens); z3 equality of every field of the parsed objects with "
                  "the symbol written at that place",
        text="Partial (structure, for all numeric contents at once): read_elast_data returns the reference volume, count, cell mass (whatever the volume column is labelled: V, V0, V_bohr3 ...), every "
             "row's volume, every component under its canonical Voigt key whatever prefix / case / 2- or 4-index spelling, and the lattice "
             "block (or none); write_energy followed by read_energy returns the same counts, P/V/E and every frequency at its place, also when "
             "the same path held (and was read as) other data sets before (bounded history of 4-6 steps); the `cij fill` command re-emits the "
             "two header lines and the lattice block unchanged, consumes exactly N+1 table lines, forwards its options and emits fill_cij of "
             "the parsed table row by row in the input's order on every order of the symbolic volumes (the rows stay with their lattice lines), also for column spellings the reader accepts (C_11, c2323); a hand-written phonon file with every numeric field "
             "symbolic (weights and q coordinates included) parses field by field. The volumes re-emitted by `cij fill` read back to the input's (precision twin).",
        note="Outside: numeric precision of the written text and float() parsing themselves (C-level), q coordinates and weights are concrete "
             "in the round trip (%-formatting realises them); for `cij fill` the text produced by pandas' to_string / read by its C parser is replaced "
             "by the contract 'whitespace table <-> frame' (the concrete replay goes through the real text).",
        design="3/C17 (as built: A.4)"),
}

NOT_APPLICABLE = {
}

IN_PROGRESS = "check not built yet in this round (planned in DESIGN.md section 3; will be claimed when its harness lands)"


def main():
    props = [json.loads(l)["id"] for l in open(os.path.join(VERIF, "properties.jsonl"))]
    checks = []
    for pid in props:
        c = CHECKS.get(pid)
        if not c or not os.path.exists(os.path.join(VERIF, "harness", pid.lower() + ".py")):
            continue
        checks.append(dict(
            property_id=pid,
            quick_cmd="python3 run_check.py %s --tier quick" % pid,
            thorough_cmd="python3 run_check.py %s --tier thorough" % pid,
            evidence_file="evidence/%s.json" % pid,
            replay_cmd_template="python3 run_check.py %s --replay {path}" % pid,
            engine=c["engine"],
            level_claimed=dict(category="other", text=c["text"], design_ref="DESIGN.md section " + c["design"]),
            level_note=c["note"],
            technique=c["technique"],
        ))
    claimed = {c["property_id"] for c in checks}
    na = []
    for pid in props:
        if pid in claimed:
            continue
        na.append(dict(property_id=pid, reason=NOT_APPLICABLE.get(pid, IN_PROGRESS)))
    man = dict(
        version=1,
        setup_cmd="sh setup.sh",
        hooks=dict(
            guard="MINERALSCLOUD_CIJ_VERIF",
            enable="none needed: all stubbing is done from the harness by rebinding module globals of the imported cij "
                   "modules; run_check.py exports MINERALSCLOUD_CIJ_VERIF=1 for completeness",
            baseline_off_cmd="cd /repo && /venv/bin/python -m pytest -ra -q -p no:cacheprovider --timeout=900 "
                             "--continue-on-collection-errors",
            source_commits=[],
            add_only=True,
        ),
        engines=[
            dict(name="symnum+z3", path="symnum/", serves_properties=sorted(p for p in claimed if "symnum" in CHECKS[p]["engine"]),
                 kind_free_text="symbolic execution of the real numpy code on exact Laurent-polynomial scalars (numpy object "
                                "arrays), path forking by re-execution, z3 (QF_NRA/LRA) as the deciding solver, replay of models "
                                "against the real float code"),
            dict(name="crosshair", path="harness/", serves_properties=sorted(p for p in claimed if "crosshair" in CHECKS[p]["engine"]),
                 kind_free_text="CrossHair 0.0.110 symbolic execution of the real Python functions, per-condition, with reachability twins"),
            dict(name="fp-kernels", path="harness/", serves_properties=sorted(p for p in claimed if "cvc5" in CHECKS[p]["engine"]),
                 kind_free_text="source AST -> QF_FP translation of scalar kernels, cvc5/z3"),
        ],
        checks=checks,
        not_applicable=na,
        notes="Exit codes: 0 held / 1 replayed violation (VIOLATION line) / 3 harness error or inconclusive (never reported as success). "
              "Known genuine defects are listed in known_findings.json and printed as KNOWN-FINDING lines.",
    )
    with open(os.path.join(VERIF, "MANIFEST.json"), "w") as fp:
        json.dump(man, fp, indent=1)
    print("claimed:", sorted(claimed))
    print("not claimed:", [n["property_id"] for n in na])


if __name__ == "__main__":
    main()
