#!/usr/bin/env python3
"""tools/reeval_seeds.py [ids...] [--jobs N]
Regression run of the checks against every seeded change kept under /verif/seeded: for each <id> a scratch copy of /repo's HEAD is
made under /tmp, seeded/<id>/patch.diff is applied (patch -p1, so that changes made against an earlier HEAD still apply), the checks
named in its meta.json are run (quick tier, CIJ_REPO=<copy>) and the copy is removed.  Writes seeded/RECHECK.json and prints a table.
Exit 0 iff every seed is still caught (exit 1 with a VIOLATION line) by at least one of its checks."""
import json, os, shutil, subprocess, sys, tempfile
from concurrent.futures import ThreadPoolExecutor

VERIF = os.path.dirname(os.path.dirname(os.path.abspath(__file__)))


def one(sid):
    d = os.path.join(VERIF, "seeded", sid)
    meta = json.load(open(os.path.join(d, "meta.json")))
    tmp = tempfile.mkdtemp(prefix="reseed_%s_" % sid)
    try:
        dst = os.path.join(tmp, "repo")
        os.makedirs(dst)
        subprocess.check_call("git -C /repo archive HEAD | tar -x -C %s" % dst, shell=True)
        r = subprocess.run("patch -p1 -s --no-backup-if-mismatch < %s" % os.path.join(d, "patch.diff"), shell=True, cwd=dst, capture_output=True, text=True)
        if r.returncode != 0:
            return sid, dict(applied=False, detail=(r.stdout + r.stderr)[-300:])
        ev = os.path.join(tmp, "ev")
        os.makedirs(ev)
        env = dict(os.environ, CIJ_REPO=dst, VERIF_EVIDENCE_DIR=ev, VERIF_REPLAY_DIR=ev)
        res = {}
        for c in (OVERRIDE or meta.get("checks", {})):
            rr = subprocess.run([sys.executable, os.path.join(VERIF, "run_check.py"), c, "--tier", "quick"], env=env, capture_output=True, text=True)
            res[c] = dict(exit=rr.returncode, violation_lines=sum(1 for l in rr.stdout.splitlines() if l.startswith("VIOLATION")))
        return sid, dict(applied=True, checks=res)
    finally:
        shutil.rmtree(tmp, ignore_errors=True)


OVERRIDE = None


def main():
    global OVERRIDE
    a = sys.argv[1:]
    jobs = 6
    if "--checks" in a:          # run these checks instead of the ones recorded in meta.json (result file not rewritten)
        OVERRIDE = a[a.index("--checks") + 1].split(",")
        del a[a.index("--checks"):a.index("--checks") + 2]
    if "--jobs" in a:
        jobs = int(a[a.index("--jobs") + 1])
        del a[a.index("--jobs"):a.index("--jobs") + 2]
    ids = a or sorted(x for x in os.listdir(os.path.join(VERIF, "seeded")) if os.path.isdir(os.path.join(VERIF, "seeded", x)) and not x.startswith("_"))
    with ThreadPoolExecutor(max_workers=jobs) as ex:
        out = dict(ex.map(one, ids))
    head = subprocess.run("git -C /repo rev-parse --short HEAD", shell=True, capture_output=True, text=True).stdout.strip()
    if OVERRIDE is None and len(ids) > 20:
        json.dump(dict(repo_head=head, results=out), open(os.path.join(VERIF, "seeded", "RECHECK.json"), "w"), indent=1, sort_keys=True)
    ok = True
    for sid in ids:
        r = out[sid]
        caught = r.get("applied") and any(c["exit"] == 1 and c["violation_lines"] for c in r["checks"].values())
        ok = ok and bool(caught)
        print("%-6s %-8s %s" % (sid, "CAUGHT" if caught else "MISSED", r.get("checks") or r.get("detail")))
    return 0 if ok else 1


if __name__ == "__main__":
    sys.exit(main())
