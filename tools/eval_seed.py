#!/usr/bin/env python3
"""tools/eval_seed.py <ID> [--checks C01,C02] [--skip-tests] [--wt DIR]

Evaluate a seeded change produced in a scratch worktree (/tmp/wt_<ID>) by an independent sub-agent:
  1. extract the uncommitted diff of tracked files -> /verif/seeded/<ID>/patch.diff, copy demo_<ID>.py and NOTE_<ID>.md
  2. confirm the repository's test suite gives the baseline pass set with the change
  3. confirm the demonstration fails with the change and passes without it
  4. run the named checks (default: the property's own) against the changed tree (CIJ_REPO=<worktree>)
and write /verif/seeded/<ID>/meta.json."""
import json
import os
import shutil
import subprocess
import sys
import tempfile

VERIF = os.path.dirname(os.path.dirname(os.path.abspath(__file__)))


def sh(cmd, **kw):
    return subprocess.run(cmd, shell=True, capture_output=True, text=True, **kw)


def passing_tests(wt):
    with tempfile.NamedTemporaryFile(suffix=".xml", delete=False) as f:
        xml = f.name
    sh("cd %s && PYTHONPATH=%s /venv/bin/python -m pytest -q -p no:cacheprovider --timeout=900 --continue-on-collection-errors "
       "--junitxml=%s tests" % (wt, wt, xml))
    import xml.etree.ElementTree as ET
    ok = set()
    try:
        for tc in ET.parse(xml).getroot().iter("testcase"):
            if not any(ch.tag in ("failure", "error", "skipped") for ch in tc):
                ok.add(tc.get("classname") + "::" + tc.get("name"))
    finally:
        os.unlink(xml)
    return ok


def main():
    a = sys.argv[1:]
    sid = a[0]
    import re
    prop = re.match(r"C\d+", sid).group(0)
    wt = "/tmp/wt_" + sid
    if "--wt" in a:
        wt = a[a.index("--wt") + 1]
    checks = [prop]
    if "--checks" in a:
        checks = a[a.index("--checks") + 1].split(",")
    out = os.path.join(VERIF, "seeded", sid)
    os.makedirs(out, exist_ok=True)
    diff = sh("git -C %s diff HEAD -- cij" % wt).stdout
    if not diff.strip():
        print("no diff in", wt)
        return 2
    open(os.path.join(out, "patch.diff"), "w").write(diff)
    for f in os.listdir(wt):
        if f.startswith("demo_") or f.startswith("NOTE_"):
            shutil.copy(os.path.join(wt, f), os.path.join(out, f))
    demo = [f for f in os.listdir(wt) if f.startswith("demo_") and f.endswith(".py")]
    meta = dict(id=sid, property=prop, ran=[])
    prev = {}
    if os.path.exists(os.path.join(out, "meta.json")):
        try:
            prev = json.load(open(os.path.join(out, "meta.json")))
        except Exception:
            prev = {}
    if "--skip-tests" in a and "tests" in prev:
        meta["tests"] = prev["tests"]
        meta["ran"].append("pytest on the worktree with the change vs. the current baseline pass set (earlier run of this tool)")
    for k in ("needs", "summary"):
        if k in prev:
            meta[k] = prev[k]
    # demo with / without
    if demo:
        d = demo[0]
        r1 = sh("cd %s && PYTHONPATH=%s /venv/bin/python %s" % (wt, wt, d))
        patch = os.path.join(out, "patch.diff")          # (git stash is shared between worktrees: never use it here)
        assert sh("git -C %s apply -R %s" % (wt, patch)).returncode == 0
        r0 = sh("cd %s && PYTHONPATH=%s /venv/bin/python %s" % (wt, wt, d))
        assert sh("git -C %s apply %s" % (wt, patch)).returncode == 0
        meta["demo"] = dict(script=d, exit_with_change=r1.returncode, exit_without_change=r0.returncode,
                            tail_with_change=r1.stdout[-400:], tail_without=r0.stdout[-200:])
        meta["ran"].append("demo with and without the change")
        print("demo: with change exit %d, without exit %d" % (r1.returncode, r0.returncode))
    if "--skip-tests" not in a:
        base_file = os.path.join(VERIF, "seeded", "_baseline_pass.json")
        if os.path.exists(base_file):
            base = set(json.load(open(base_file)))
        else:
            patch = os.path.join(out, "patch.diff")
            assert sh("git -C %s apply -R %s" % (wt, patch)).returncode == 0
            base = passing_tests(wt)
            assert sh("git -C %s apply %s" % (wt, patch)).returncode == 0
            json.dump(sorted(base), open(base_file, "w"), indent=0)
        got = passing_tests(wt)
        meta["tests"] = dict(baseline_pass=len(base), pass_with_change=len(got), same_pass_set=(got == base),
                             lost=sorted(base - got)[:5], gained=sorted(got - base)[:5])
        meta["ran"].append("pytest on the worktree with the change vs. the current baseline pass set")
        print("tests: baseline %d pass, with change %d pass, identical set: %s" % (len(base), len(got), got == base))
    # checks
    res = {}
    ev = tempfile.mkdtemp(prefix="seedev_")
    try:
        for c in checks:
            env = dict(os.environ, CIJ_REPO=wt, VERIF_EVIDENCE_DIR=ev, VERIF_REPLAY_DIR=ev)
            r = subprocess.run([sys.executable, os.path.join(VERIF, "run_check.py"), c, "--tier", "quick"], env=env, capture_output=True, text=True)
            lines = [l for l in r.stdout.splitlines() if l.startswith(("VIOLATION", "  what", "RESULT", "HARNESS", "KNOWN"))]
            res[c] = dict(exit=r.returncode, lines=lines[:8])
            print(c, "exit", r.returncode)
            print("\n".join(lines[:6]))
    finally:
        shutil.rmtree(ev, ignore_errors=True)
    meta["checks"] = res
    meta["ran"].append("checks %s (quick) with CIJ_REPO=<worktree carrying the change>" % ",".join(checks))
    json.dump(meta, open(os.path.join(out, "meta.json"), "w"), indent=1)


if __name__ == "__main__":
    sys.exit(main())
