#!/usr/bin/env python3
"""tools/run_on_tree.py <dir> [--checks C01,C02] [--tier quick] [--jobs N]
Run the checks against another tree of MineralsCloud/cij (CIJ_REPO=<dir>), evidence and replays into a temporary directory, and print one
line per check (exit code, VIOLATION / HARNESS-ERROR lines).  Used for behaviour-preserving refactorings (every check must exit 0) and for
seeded changes."""
import json
import os
import shutil
import subprocess
import sys
import tempfile
from concurrent.futures import ThreadPoolExecutor

VERIF = os.path.dirname(os.path.dirname(os.path.abspath(__file__)))


def main():
    a = sys.argv[1:]
    tree = os.path.abspath(a[0])
    tier = a[a.index("--tier") + 1] if "--tier" in a else "quick"
    jobs = int(a[a.index("--jobs") + 1]) if "--jobs" in a else 6
    props = [json.loads(l)["id"] for l in open(os.path.join(VERIF, "properties.jsonl"))]
    if "--checks" in a:
        props = a[a.index("--checks") + 1].split(",")
    tmp = tempfile.mkdtemp(prefix="ontree_")

    def one(p):
        ev = os.path.join(tmp, p)
        os.makedirs(ev)
        env = dict(os.environ, CIJ_REPO=tree, VERIF_EVIDENCE_DIR=ev, VERIF_REPLAY_DIR=ev)
        r = subprocess.run([sys.executable, os.path.join(VERIF, "run_check.py"), p, "--tier", tier], env=env, capture_output=True, text=True)
        lines = [l for l in r.stdout.splitlines() if l.startswith(("VIOLATION", "  what", "HARNESS-ERROR"))]
        return p, r.returncode, lines
    try:
        with ThreadPoolExecutor(max_workers=jobs) as ex:
            res = list(ex.map(one, props))
    finally:
        shutil.rmtree(tmp, ignore_errors=True)
    bad = 0
    for p, rc, lines in res:
        print("%s exit=%d" % (p, rc))
        for l in lines[:6]:
            print("    " + l[:300])
        bad += rc != 0
    print("non-zero:", bad)
    return 1 if bad else 0


if __name__ == "__main__":
    sys.exit(main())
